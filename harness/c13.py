"""C13 — Results are deterministic and independent of call history.

Proof: lean/GHEVerif/Props/C13.lean over the state machine lean/GHEVerif/Model/Api.lean
(find_design_pure / find_design_history_independent / find_design_repeatable / find_design_any_world:
for every history of API calls the outcome of set_design; find_design equals `design cfg`, a function
of the last setter values only, nominal height forgotten; simulate_pure: every call on one GHE equals
the call on the object as new, for every sequence of simulate/size/compute_g_functions/height writes
(no condition on the heights since fix 5ab5ff6); mutable_defaults_untouched; source_shape_*: facts regenerated from the sources).

Tie to the code (this file):
 * correspondence, GHE level: random call sequences on real GHE objects, every GHE.simulate
   instrumented (height, hybrid-load height, stored heights, table mode, axis, method); the model is
   run on the same sequence (probe heights of brentq and temperatures fed back as tables) and must
   predict the same outcome kind, axis, table mode, heights, borehole height, reported-simulation
   arguments after every call, and the same complete argument trace.
 * correspondence, manager level: real histories (see `variants`) with Bisection*/RowWise
   calculate_excess / initialize_ghe / GHE.size / brentq instrumented; the recorded search path is the
   model's `strategy`, the model must predict field, height, stored heights, table, axis and the whole
   argument trace of every find_design of the history.
 * predicate with an independent oracle: (a) every simulate/size of a sequence against the same
   call on a GHE rebuilt from scratch; (b) every history variant against a baseline run in a fresh
   process: selected field, height, hp_eft list and all six output files byte for byte
   (time stamp / run time removed).
"""
from __future__ import annotations

import contextlib
import hashlib
import json
import math
import os
import tempfile
import warnings
from fractions import Fraction
from pathlib import Path

import core
import ghelib

PROPERTY = "C13"
LEVEL = "proof"
MANIFEST = {
    "text": "The returned design depends only on the physical inputs (any history of API calls ending in the same configuration, "
            "any nominal borehole height); a simulation of a GHE at a height returns the same temperatures whatever was simulated on the object before.",
    "note": "state-machine refinement: all histories, all search routines, all kernels; bit-determinism of numpy/scipy/pygfunction checked by byte comparison",
    "technique": "Lean 4 proof (interaction-tree model of search/solver, heap of borehole objects) + trace correspondence + byte-for-byte differential runs",
    "design_ref": "DESIGN.md §7 C13",
}

warnings.filterwarnings("ignore")
WINDOW = (60.0, 135.0)


# ============================================================================ instrumentation
class Rec:
    """What one worker records from the implementation."""

    def __init__(self):
        self.fields: dict = {}
        self.script: list = []
        self.trace: list = []
        self.brents: dict = {}
        self.in_search = 0
        self.in_eval = 0
        self.in_init = 0
        self.last_heq = None
        self.static_key = "?"
        self.refused: list = []
        self.drb = None   # GHE-level runs: the model's fixed (D, rb) literals

    def fid(self, coords):
        key = tuple((float(p[0]), float(p[1])) for p in coords)
        return self.fields.setdefault(key, len(self.fields))


def table_mode(gf):
    t = gf.interpolation_table
    if not t:
        return "-"
    f = t["rb"]
    kind = getattr(f, "_kind", "?")
    if kind == "spline":
        k = getattr(getattr(f, "_spline", None), "k", None)
        kind = {2: "quadratic", 3: "cubic", 1: "linear"}.get(k, "spline")
    return f"{kind}/{'extrapolate' if getattr(f, '_extrapolate', False) else 'strict'}"


def axis_of(ghe):
    import numpy as np

    t = ghe.times
    if len(t) == 0:
        return "empty"
    hy = ghe.hybrid_load.hour[2:]
    if len(t) == len(hy) and np.array_equal(np.asarray(t), np.asarray(hy)):
        return f"hybrid@{core.rs(ghe._verif_hload)}"
    if np.array_equal(np.asarray(t), np.arange(1, len(t) + 1, 1)):
        return f"hourly#{len(t)}"
    return "other"


def exact_cost(sp, tmax, tmin):
    return max(core.frac(tmax) - core.frac(sp.max_EFT_allowable), core.frac(sp.min_EFT_allowable) - core.frac(tmin))


@contextlib.contextmanager
def instrument(rec: Rec):
    import ghedesigner.design as dsg
    import ghedesigner.utilities as util
    from ghedesigner.enums import TimestepType
    from ghedesigner.gfunction import GFunction
    from ghedesigner.ground_heat_exchangers import GHE
    from ghedesigner.search_routines import Bisection1D, RowWiseModifiedBisectionSearch

    saved = []

    def patch(obj, name, new):
        saved.append((obj, name, obj.__dict__[name] if name in obj.__dict__ else getattr(obj, name)))
        setattr(obj, name, new)

    o_init = GHE.__init__

    def ghe_init(self, v_flow_system, b_spacing, bhe_type, fluid, borehole, pipe, grout, soil, g_function, *a, **k):
        hl = borehole.H
        if rec.in_search and rec.in_init == 0:
            rec.script.append(f"c.{rec.fid(g_function.bore_locations)}")
        o_init(self, v_flow_system, b_spacing, bhe_type, fluid, borehole, pipe, grout, soil, g_function, *a, **k)
        self._verif_hload = hl

    patch(GHE, "__init__", ghe_init)
    o_sim = GHE.simulate

    def ghe_sim(self, method):
        h = self.bhe.b.H
        r = o_sim(self, method)
        heights = list(self.gFunction.g_lts.keys())
        rec.trace.append({
            "field": rec.fid(self.gFunction.bore_locations), "hLoad": core.rs(getattr(self, "_verif_hload", float("nan"))),
            "heights": ",".join(core.rs(x) for x in heights), "interp": "-" if len(heights) == 1 else table_mode(self.gFunction),
            "hEq": float(rec.last_heq) if rec.last_heq is not None else None, "h": core.rs(h),
            "method": "hybrid" if method == TimestepType.HYBRID else "hourly", "nSteps": 0 if method == TimestepType.HYBRID else len(self.times),
            "temps": (float(r[0]), float(r[1])), "static": rec.static_key, "id": id(self), "gtok": getattr(self.gFunction, "_verif_tok", "calc"),
            "D": rec.drb[0] if rec.drb else core.rs(self.bhe.b.D), "rb": rec.drb[1] if rec.drb else core.rs(self.bhe.b.r_b),
            "hp_eft_sha": hashlib.sha1(repr([float(x) for x in self.hp_eft]).encode()).hexdigest(),
        })
        return r

    patch(GHE, "simulate", ghe_sim)
    o_gi = GFunction.g_function_interpolation

    def g_interp(self, b_over_h, kind="default"):
        r = o_gi(self, b_over_h, kind)
        rec.last_heq = r[3]
        return r

    patch(GFunction, "g_function_interpolation", g_interp)
    o_size = GHE.size

    def ghe_size(self, method):
        if rec.in_search:
            rec.script.append("z")
        return o_size(self, method)

    patch(GHE, "size", ghe_size)
    o_brent = util.brentq

    def brentq(f, a, b, *args, **kw):
        if getattr(f, "__name__", "") != "local_objective":
            return o_brent(f, a, b, *args, **kw)
        xs = []

        def f2(x):
            xs.append(x)
            return f(x)

        try:
            root = o_brent(f2, a, b, *args, **kw)
            rec.brents.setdefault("pending", []).append((len(rec.trace), xs, core.rs(root)))
        except Exception as e:  # brentq itself raised
            rec.brents.setdefault("pending", []).append((len(rec.trace), xs, "!" + type(e).__name__))
            raise
        return root

    patch(util, "brentq", brentq)

    for cls in (Bisection1D, RowWiseModifiedBisectionSearch):
        o_ce, o_ig = cls.calculate_excess, cls.initialize_ghe

        def calc(self, coordinates, h, field_specifier="N/A", _o=o_ce):
            if rec.in_search and rec.in_eval == 0:
                rec.script.append(f"e.{rec.fid(coordinates)}.{core.rs(h)}")
            rec.in_eval += 1
            try:
                return _o(self, coordinates, h, field_specifier)
            finally:
                rec.in_eval -= 1

        def init(self, coordinates, h, field_specifier="N/A", _o=o_ig):
            if rec.in_search and rec.in_eval == 0 and rec.in_init == 0:
                rec.script.append(f"i.{rec.fid(coordinates)}.{core.rs(h)}")
            rec.in_init += 1
            try:
                return _o(self, coordinates, h, field_specifier)
            finally:
                rec.in_init -= 1

        patch(cls, "calculate_excess", calc)
        patch(cls, "initialize_ghe", init)

    for name in ("DesignNearSquare", "DesignRectangle", "DesignBiRectangle", "DesignBiZoned", "DesignBiRectangleConstrained", "DesignRowWise"):
        cls = getattr(dsg, name)
        o_fd = cls.find_design

        def find(self, disp=False, _o=o_fd):
            rec.in_search += 1
            try:
                s = _o(self, disp)
                rec.script.append(f"r.{rec.fid(s.selected_coordinates)}")
                return s
            except Exception as e:
                rec.script.append(f"x.{type(e).__name__}")
                raise
            finally:
                rec.in_search -= 1

        patch(cls, "find_design", find)
    try:
        yield rec
    finally:
        for obj, name, old in reversed(saved):
            setattr(obj, name, old)


def brent_table(rec: Rec, sp):
    """value of the objective at the lower bound (exact) -> recorded probe script."""
    out = {}
    for (n_after, xs, root) in rec.brents.get("pending", []):
        # the first probe of brentq is the len(xs)-th simulation from the end of the probes
        first = rec.trace[n_after - len(xs)] if root[0] != "!" else None
        if first is None:
            continue
        v = exact_cost(sp, *first["temps"])
        out[f"{v.numerator}/{v.denominator}"] = [core.rs(x) for x in xs[1:]] + ["=" + root]
    return out


def sims_table(trace):
    """simKey -> temps; second component: keys seen with two different temperature pairs."""
    table, conflicts = {}, []
    for t in trace:
        # every input of the simulation: configuration tokens, field, table, burial depth, radius, hybrid-load height, stored heights, height, method
        key = f"{t['static']}#{t['field']}#{t.get('gtok', 'calc')}#{t['D']}#{t['rb']}#{t['hLoad']}#{t['heights']}#{t['h']}#{t['method']}"
        val = (core.rs(t["temps"][0]), core.rs(t["temps"][1]))
        if key in table and table[key] != val:
            conflicts.append((key, table[key], val))
        table.setdefault(key, val)
    return table, conflicts


def show_args_cmp(model: str, real: dict):
    """Compare one `showArgs` string of the model with a recorded simulation. Returns None or a reason."""
    p = model.split(";")
    if len(p) != 9:
        return f"bad model args {model!r}"
    f, hl, hs, it, heq, h, m, n, gt = p
    if gt != real.get("gtok", "calc"):
        return f"table {gt} vs {real.get('gtok', 'calc')}"
    if int(f) != real["field"]:
        return f"field {f} vs {real['field']}"
    if hl != real["hLoad"]:
        return f"hLoad {hl} vs {real['hLoad']}"
    if hs != real["heights"]:
        return f"heights {hs} vs {real['heights']}"
    if it != real["interp"]:
        return f"interp {it} vs {real['interp']}"
    if real["hEq"] is not None and abs(float(core.pr(heq)) - real["hEq"]) > 1e-9 * max(1.0, abs(real["hEq"])):
        return f"hEq {heq} vs {real['hEq']}"
    if h != real["h"]:
        return f"h {h} vs {real['h']}"
    if m != real["method"] or int(n) != real["nSteps"]:
        return f"method/steps {m}/{n} vs {real['method']}/{real['nSteps']}"
    return None


def fresh_pool_map(fn, items, workers=16):
    """Like core.pool_map, but every item runs in a process of its own (maxtasksperchild=1): a baseline must not
    inherit module-level state from an item the same pool worker happened to run before."""
    import multiprocessing as mp

    if not items:
        return []
    with mp.get_context("fork").Pool(min(workers, len(items)), maxtasksperchild=1) as p:
        return p.map(fn, items, chunksize=1)


# ============================================================================ one input at a time (GHE level)
BASE_X = {"fluid": ("Water", 0.0), "fluid_temp": 20.0, "grout": (1.0, 3901000.0), "soil": (2.0, 2343493.0, 18.3), "pipe_k": 0.4,
          "pipe_rho_cp": 1542000.0, "pipe_geom": (0.03404, 0.04216, 0.01856, 1.0e-6), "borehole": (100.0, 2.0, 0.14), "flow": 0.5}

# name -> (overrides of X, overrides of X'): the two configurations differ in exactly this one physical input
ONE_INPUT = {
    "grout_rho_cp": ({}, {"grout": (1.0, 3000000.0)}),
    "grout_k": ({}, {"grout": (1.3, 3901000.0)}),
    "soil_rho_cp": ({}, {"soil": (2.0, 2000000.0, 18.3)}),
    "soil_k": ({}, {"soil": (2.6, 2343493.0, 18.3)}),
    "undisturbed_temp": ({}, {"soil": (2.0, 2343493.0, 16.0)}),
    "pipe_rho_cp": ({}, {"pipe_rho_cp": 1800000.0}),
    "pipe_k": ({}, {"pipe_k": 0.45}),
    "pipe_roughness": ({}, {"pipe_geom": (0.03404, 0.04216, 0.01856, 1.0e-5)}),
    "fluid_concentration": ({"fluid": ("PropyleneGlycol", 20.0)}, {"fluid": ("PropyleneGlycol", 30.0)}),
    "fluid_temperature": ({}, {"fluid_temp": 10.0}),
    "borehole_radius": ({}, {"borehole": (100.0, 2.0, 0.15)}),
    "burial_depth": ({}, {"borehole": (100.0, 4.0, 0.14)}),
    "pipe_inner_diameter": ({}, {"pipe_geom": (0.0300, 0.04216, 0.01856, 1.0e-6)}),
    "pipe_outer_diameter": ({}, {"pipe_geom": (0.03404, 0.0440, 0.01856, 1.0e-6)}),
    "shank_spacing": ({}, {"pipe_geom": (0.03404, 0.04216, 0.025, 1.0e-6)}),
    "flow": ({}, {"flow": 0.3}),
}
QUICK_INPUTS = ["grout_rho_cp", "soil_rho_cp", "pipe_rho_cp", "fluid_concentration", "borehole_radius", "grout_k"]


def build_x(phys, pipe_kind, coords, scale, months=12):
    """A real GHE from explicit physical inputs (every one of ONE_INPUT's is a parameter here)."""
    from ghedesigner.borehole import GHEBorehole
    from ghedesigner.enums import BHPipeType
    from ghedesigner.gfunction import calc_g_func_for_multiple_lengths
    from ghedesigner.ground_heat_exchangers import GHE
    from ghedesigner.media import GHEFluid, Grout, Pipe, Soil
    from ghedesigner.simulation import SimulationParameters
    from ghedesigner.utilities import eskilson_log_times

    fluid = GHEFluid(fluid_str=phys["fluid"][0], percent=phys["fluid"][1], temperature=phys["fluid_temp"])
    grout, soil = Grout(*phys["grout"]), Soil(*phys["soil"])
    h, d, dia = phys["borehole"]
    borehole = GHEBorehole(h, d, dia / 2.0, x=0.0, y=0.0)
    di, do, s, rough = phys["pipe_geom"]
    n_u = 1 if pipe_kind == "SINGLEUTUBE" else 2
    pipe = Pipe(Pipe.place_pipes(s, do / 2.0, n_u), di / 2.0, do / 2.0, s, rough, phys["pipe_k"], phys["pipe_rho_cp"])
    sim = SimulationParameters(1, months, 35.0, 5.0, WINDOW[1], WINDOW[0])
    bhe_type = BHPipeType[pipe_kind]
    m_bh = phys["flow"] / 1000.0 * fluid.rho
    loads = [x * scale for x in ghelib.atlanta_loads()]
    g = calc_g_func_for_multiple_lengths(5.0, [WINDOW[0], (WINDOW[0] + WINDOW[1]) / 2, WINDOW[1]], borehole.r_b, borehole.D, m_bh, bhe_type,
                                         eskilson_log_times(), coords, fluid, pipe, grout, soil)
    return GHE(phys["flow"] * len(coords), 5.0, bhe_type, fluid, borehole, pipe, grout, soil, g, sim, loads)


def observe_x(ghe, h):
    """Everything a caller can see of a GHE built for one configuration: hybrid load, hybrid and hourly simulation, sizing."""
    from ghedesigner.enums import TimestepType

    sha = lambda xs: hashlib.sha1(repr([float(x) for x in xs]).encode()).hexdigest()
    out = {"hybrid_load": sha(ghe.hybrid_load.load) + sha(ghe.hybrid_load.hour), "hybrid_load_len": len(ghe.hybrid_load.load),
           "peak_durations": [float(x) for x in list(getattr(ghe.hybrid_load, "monthly_peak_cl_duration", []))[1:4] + list(getattr(ghe.hybrid_load, "monthly_peak_hl_duration", []))[1:4]][:8]}
    ghe.bhe.b.H = h
    r = ghe.simulate(TimestepType.HYBRID)
    out["hybrid"] = [float(r[0]), float(r[1])]
    out["hybrid_hp_eft"] = sha(ghe.hp_eft)
    r = ghe.simulate(TimestepType.HOURLY)
    out["hourly"] = [float(r[0]), float(r[1])]
    out["hourly_hp_eft"] = sha(ghe.hp_eft)
    ghe.size(TimestepType.HYBRID)
    out["sized_H"] = repr(float(ghe.bhe.b.H))
    out["sized_hp_eft"] = sha(ghe.hp_eft)
    return out


def oneinput_worker(job):
    """In ONE process: (optionally) build and use configuration X, then directly afterwards configuration X' on new objects."""
    os.environ["OMP_NUM_THREADS"] = "1"
    warnings.filterwarnings("ignore")
    coords = [tuple(c) for c in job["coords"]]
    with ghelib.quiet():
        try:
            if job.get("first") is not None:
                from ghedesigner.enums import TimestepType

                gx = build_x(job["first"], job["pipe"], coords, job["scale"])
                if job.get("mode") != "build-only":
                    observe_x(gx, job["h"])
                    # leave X as a project is usually left: last simulated at the height X' will be built with
                    gx.bhe.b.H = job["second"]["borehole"][0]
                    gx.simulate(TimestepType.HYBRID)
            return {"ok": observe_x(build_x(job["second"], job["pipe"], coords, job["scale"]), job["h"])}
        except Exception as e:  # an outcome, compared like any other
            return {"raise": type(e).__name__ + ": " + str(e)[:80]}


def oneinput_jobs(rng, tier):
    names = list(QUICK_INPUTS) if tier == "quick" else list(ONE_INPUT)
    if tier == "quick":
        names += rng.sample([n for n in ONE_INPUT if n not in QUICK_INPUTS], 2)
    jobs = []
    for n in names:
        ox, ox2 = ONE_INPUT[n]
        for direction in ((0, 1) if tier == "thorough" else (rng.choice((0, 1)),)):
            x, x2 = dict(BASE_X, **ox), dict(BASE_X, **ox2)
            if direction:
                x, x2 = x2, x
            pipe = "SINGLEUTUBE" if tier == "quick" or rng.random() < 0.6 else rng.choice(["DOUBLEUTUBEPARALLEL", "DOUBLEUTUBESERIES"])
            nx, ny = rng.choice([(1, 2), (2, 2), (2, 3)])
            common = {"pipe": pipe, "coords": [(i * 5.0, j * 5.0) for i in range(nx) for j in range(ny)], "scale": round(nx * ny * rng.uniform(0.008, 0.02), 5),
                      "h": rng.choice([100.0, 96.0, round(rng.uniform(70, 130), 1)]), "input": n, "direction": direction}
            common["mode"] = rng.choice(["build-only", "use", "use"])   # X only constructed, or constructed, simulated, sized and re-simulated
            jobs.append(dict(common, first=None, second=x2, role="baseline"))
            jobs.append(dict(common, first=x, second=x2, role="after-X"))
    return jobs


def check_oneinput(ctx, jobs, results):
    for k in range(0, len(jobs), 2):
        (jb, rb), (ja, ra) = (jobs[k], results[k]), (jobs[k + 1], results[k + 1])
        n = ja["input"]
        ctx.case(("one-input", "ghe", n, ja["direction"], ja["pipe"]), True, {"one_input": n, "pipe": ja["pipe"], "h": ja["h"], "baseline": {kk: vv for kk, vv in rb.get("ok", rb).items() if kk in ("hybrid", "sized_H", "peak_durations")}})
        ctx.count("one_input_ghe:" + n)
        ctx.count("one_input_ghe_mode:" + ja["mode"])
        if ra == rb:
            continue
        diffs = [kk for kk in set(ra.get("ok", {})) | set(rb.get("ok", {})) if ra.get("ok", {}).get(kk) != rb.get("ok", {}).get(kk)] or ["outcome"]
        a, b = ra.get("ok", ra), rb.get("ok", rb)
        ctx.finding(f"one-input-history:ghe:{n}",
                    f"GHE for X' built and used directly after X (same process, new objects; X and X' differ only in {n}) differs from X' in a fresh process in {sorted(diffs)}: "
                    f"hybrid EFT {a.get('hybrid')} vs {b.get('hybrid')}, sized H {a.get('sized_H')} vs {b.get('sized_H')}, peak durations {a.get('peak_durations', [])[:3]} vs {b.get('peak_durations', [])[:3]}",
                    {"input": n, "X": ja["first"], "X_prime": ja["second"], "pipe": ja["pipe"], "coords": ja["coords"], "scale": ja["scale"], "h": ja["h"],
                     "after_X": a, "fresh_process": b})


# ============================================================================ GHE level
def static_key_ghe(spec):
    return "|".join(["f", "p", "g", "s", "t", "l", str(spec["loadlen"]), str(spec["months"]), "35/1", "5/1",
                     core.rs(spec["max_h"]), core.rs(spec["min_h"]), "-", "0", "1/1", "B"])


def table_heights(spec, name):
    return [spec["hload"]] if name.endswith("1") else [spec["min_h"], (spec["min_h"] + spec["max_h"]) / 2, spec["max_h"]]


def make_table(spec, name):
    """Another g-function table for the same field: `ubwt3`, `ubwt1`, `mift3`, `mift1`, `uhtr3` (boundary condition +
    number of stored heights), tagged so that the recorded simulations say which table the object held."""
    from ghedesigner.gfunction import calc_g_func_for_multiple_lengths
    from ghedesigner.utilities import eskilson_log_times

    phys = dict(ghelib.default_physics())
    phys.update(spec.get("phys", {}))
    fluid, pipe, grout, soil, borehole, bhe_type = ghelib.media(phys, spec["pipe"])
    g = calc_g_func_for_multiple_lengths(5.0, table_heights(spec, name), borehole.r_b, borehole.D, phys["flow"] / 1000.0 * fluid.rho, bhe_type,
                                         eskilson_log_times(), [tuple(c) for c in spec["coords"]], fluid, pipe, grout, soil,
                                         boundary=name[:-1].upper())
    g._verif_tok = name
    return g


def build_real_ghe(spec):
    phys = dict(ghelib.default_physics())
    phys.update(spec.get("phys", {}))
    phys["borehole"] = (spec["hload"], 2.0, 0.14)   # the height the borehole has when the GHE (and its hybrid load) is built
    loads = [x * spec["scale"] for x in ghelib.atlanta_loads()]
    ghe = ghelib.build_ghe(phys, spec["pipe"], [tuple(c) for c in spec["coords"]], loads, spec["months"], max_h=spec["max_h"], min_h=spec["min_h"],
                           heights=list(spec["heights"]))
    if spec.get("table0"):
        ghe.gFunction = make_table(spec, spec["table0"])   # e.g. a library-style table (other boundary condition)
    return ghe


def apply_gop(ghe, op, spec=None):
    from ghedesigner.enums import TimestepType

    k = op.split(":")
    try:
        if k[0] == "H":
            ghe.bhe.b.H = float(core.pr(k[1]))
            return "ok", None
        if k[0] == "S":
            r = ghe.simulate(TimestepType.HYBRID if k[1] == "hybrid" else TimestepType.HOURLY)
            return "temps", (float(r[0]), float(r[1]), [float(x) for x in ghe.hp_eft])
        if k[0] == "Z":
            ghe.size(TimestepType.HYBRID if k[1] == "hybrid" else TimestepType.HOURLY)
            return "temps", (float(max(ghe.hp_eft)), float(min(ghe.hp_eft)), [float(x) for x in ghe.hp_eft], ghe.bhe.b.H)
        if k[0] == "G":
            with ghelib.quiet():
                ghe.compute_g_functions()
            return "ok", None
        if k[0] == "T":
            with ghelib.quiet():
                ghe.gFunction = make_table(spec, k[1])
            return "ok", None
    except Exception as e:  # the implementation raised: an outcome, compared with the model
        return "raise:" + type(e).__name__, None
    raise ValueError(op)


def ghe_worker(spec):
    """Run one call sequence on a real GHE; then every simulate/size again on a GHE rebuilt from scratch
    and brought to the state the used object has at that point (same table replacements, same height)."""
    os.environ["OMP_NUM_THREADS"] = "1"
    warnings.filterwarnings("ignore")
    rec = Rec()
    rec.static_key = static_key_ghe(spec)
    rec.drb = ("2/1", "7/100")   # the literals of `apighe` (the real objects hold 2.0 and 0.14/2)
    out = {"spec": spec, "steps": [], "fresh": []}
    with instrument(rec), ghelib.quiet():
        ghe = build_real_ghe(spec)
        ghe.bhe.b.H = spec["h0"]
        rec.fields.clear()
        rec.fid(ghe.gFunction.bore_locations)
        rec.trace.clear()
        for op in spec["ops"]:
            kind, val = apply_gop(ghe, op, spec)
            last = None
            if len(ghe.hp_eft) > 0:
                mine = [t for t in rec.trace if t["id"] == id(ghe)]
                last = mine[-1] if mine else None
            out["steps"].append({"op": op, "kind": kind, "val": val, "axis": axis_of(ghe), "table": table_mode(ghe.gFunction),
                                 "heights": ",".join(core.rs(x) for x in ghe.gFunction.g_lts), "H": core.rs(ghe.bhe.b.H),
                                 "heights_list": [float(x) for x in ghe.gFunction.g_lts], "last": last})
        out["trace"] = [{k: v for k, v in t.items() if k != "id"} for t in rec.trace]
        out["brents"] = brent_table(rec, ghe.sim_params)
    # ---- oracle: the same call on an object built from scratch, with the table replacements made so far
    h = spec["h0"]
    table_ops = []
    for i, op in enumerate(spec["ops"]):
        k = op.split(":")
        if k[0] == "H":
            h = float(core.pr(k[1]))
            continue
        if k[0] in "GT":
            table_ops.append(op)
            continue
        with ghelib.quiet():
            fresh = build_real_ghe(spec)
            for top in table_ops:
                apply_gop(fresh, top, spec)
            fresh.bhe.b.H = h
            kind, val = apply_gop(fresh, op, spec)
        out["fresh"].append({"i": i, "op": op, "h": h, "kind": kind, "val": val, "tables": list(table_ops)})
        if k[0] == "Z" and out["steps"][i]["kind"] == "temps":
            h = out["steps"][i]["val"][3]
        elif k[0] == "Z" and kind == "temps":
            h = val[3]
    return out


def model_gops(spec):
    return [o if o[0] != "T" else f"T:{o.split(':')[1]}:" + ",".join(core.rs(x) for x in table_heights(spec, o.split(":")[1])) for o in spec["ops"]]


def ghe_model_line(spec, res, cmd="apighe"):
    sims, _ = sims_table(res["trace"])
    head = [cmd, str(spec["months"]), core.rs(spec["max_h"]), core.rs(spec["min_h"]), str(spec["loadlen"]), "0", core.rs(spec["hload"]),
            ",".join(core.rs(x) for x in (table_heights(spec, spec["table0"]) if spec.get("table0") else spec["heights"])), core.rs(spec["h0"]),
            spec.get("table0") or "calc"]
    return " ".join(head + ["--"] + model_gops(spec) + ["--"] + [f"{k}={a}:{b}" for k, (a, b) in sims.items()] + ["--"] +
                    [f"{k}=>{','.join(v)}" for k, v in res["brents"].items()])


def gen_ghe_specs(rng, n, tier):
    specs = []
    lo, hi = WINDOW
    mid = (lo + hi) / 2
    for i in range(n):
        three = rng.random() < 0.7
        pipe = rng.choice(["SINGLEUTUBE", "SINGLEUTUBE", "DOUBLEUTUBEPARALLEL"] + (["DOUBLEUTUBESERIES", "COAXIAL"] if tier == "thorough" else []))
        nx = rng.choice([1, 2, 2, 3])
        ny = rng.choice([1, 2, 3])
        b = rng.choice([4.5, 5.0, 6.0])
        coords = [(x * b, y * b) for x in range(nx) for y in range(ny)]
        hload = rng.choice([lo, mid, hi, 96.0])
        heights = [lo, mid, hi] if three else [hload]
        ops, k = [], rng.randint(2, 6)
        while len(ops) < k:
            r = rng.random()
            if r < 0.35:
                hh = rng.choice([lo, hi, mid, round(rng.uniform(lo, hi), 3), round(rng.uniform(lo, hi), 1), math.nextafter(hi, 0), lo + 5e-7, hi - 5e-7,
                                 round(rng.uniform(hi, hi + 30), 1), round(rng.uniform(lo - 15, lo), 1)])   # also outside the stored heights
                if not three:
                    hh = rng.choice([hh, hload, round(rng.uniform(lo, hi), 2)])
                ops.append("H:" + core.rs(hh))
            elif r < 0.65:
                ops.append("S:hybrid")
            elif r < 0.85:
                ops.append("S:hourly")
            elif r < 0.93:
                ops.append("Z:hybrid")
            elif r < 0.97:
                ops.append("G")
            else:
                ops.append("T:" + rng.choice(["ubwt3", "ubwt1", "mift1"]))
        if not any(o[0] in "SZ" for o in ops):
            ops.append("S:hybrid")
        specs.append({"kind": "ghe", "pipe": pipe, "coords": coords, "months": 12, "scale": round(len(coords) * rng.uniform(0.004, 0.02), 5), "max_h": hi, "min_h": lo,
                      "heights": heights, "hload": hload, "h0": round(rng.uniform(lo, hi), 2), "ops": ops, "loadlen": 8760, "name": f"gen{i}"})
    return specs


def gen_repeat_specs(rng, n_each):
    """Sequences that simulate at a height, apply ONE state-changing operation, and simulate again at the
    SAME height with the same method: whatever the object caches per height must not survive a change of the
    state the simulation depends on (g-function table replaced by compute_g_functions or by assignment), and must be
    harmless across the others (size, the other time-step method, a height written and written back)."""
    lo, hi = WINDOW
    mid = (lo + hi) / 2
    specs = []
    kinds = ["G", "T", "Z", "M", "H", "GT"]
    for kind in kinds:
        for j in range(n_each):
            table0 = rng.choice(["ubwt3", "ubwt1", None, None]) if kind != "G" or j % 2 else rng.choice(["ubwt3", "ubwt1"])
            three = rng.random() < 0.5
            hload = rng.choice([lo, mid, hi, 96.0])
            heights = [lo, mid, hi] if three else [hload]
            h = rng.choice([round(rng.uniform(lo, hi), 2), round(rng.uniform(lo, hi), 1), hload, mid, 100.0])
            m = rng.choice(["hybrid", "hybrid", "hourly"])
            other = "hourly" if m == "hybrid" else "hybrid"
            cur = table0 or ("mift3" if three else "mift1")
            new_t = rng.choice([t for t in ["ubwt3", "ubwt1", "mift1", "uhtr3"] if t != cur])
            hs, sm = "H:" + core.rs(h), "S:" + m
            ops = {"G": [hs, sm, "G", sm],
                   "T": [hs, sm, "T:" + new_t, sm],
                   "Z": [hs, sm, "Z:hybrid", hs, sm],
                   "M": [hs, sm, "S:" + other, sm],
                   "H": [hs, sm, "H:" + core.rs(round(rng.uniform(lo, hi), 1)), hs, sm],
                   "GT": [hs, "S:hybrid", "G", "S:hourly", "T:" + new_t, "S:hybrid", "S:hourly", "G", "S:hybrid"]}[kind]
            nx, ny = rng.choice([(1, 2), (2, 2), (2, 3), (3, 4)])
            coords = [(x * 5.0, y * 5.0) for x in range(nx) for y in range(ny)]
            specs.append({"kind": "ghe", "pipe": rng.choice(["SINGLEUTUBE", "SINGLEUTUBE", "DOUBLEUTUBEPARALLEL"]), "coords": coords, "months": 12,
                          "scale": round(len(coords) * rng.uniform(0.006, 0.02), 5), "max_h": hi, "min_h": lo, "heights": heights, "hload": hload,
                          "h0": round(rng.uniform(lo, hi), 2), "ops": ops, "loadlen": 8760, "table0": table0, "repeat": kind, "name": f"repeat-{kind}-{j}"})
    return specs


def in_window(spec, h):
    hs = spec["heights"]
    return len(hs) == 1 or (min(hs) <= h <= max(hs))


def check_ghe(ctx, spec, res, model_out, spec_out):
    name = spec.get("name", "?")
    sig = ("ghe", spec["pipe"], len(spec["coords"]), len(spec["heights"]), spec.get("table0") or "calc", tuple(o.split(":")[0] + (":" + o.split(":")[1] if o[0] in "SZT" else "") for o in spec["ops"]))
    ctx.case(sig, True, {"ghe_sequence": spec["ops"], "heights": spec["heights"], "pipe": spec["pipe"], "boreholes": len(spec["coords"])})
    for o in spec["ops"]:
        ctx.count("ghe_op:" + o.split(":")[0] + (":" + o.split(":")[1] if o[0] in "SZT" else ""))
    ctx.count("ghe_initial_table:" + (spec.get("table0") or "calc"))
    if spec.get("repeat"):
        ctx.count("ghe_repeat_height_around:" + spec["repeat"])
    ctx.count(f"ghe_pipe:{spec['pipe']}")
    ctx.count(f"ghe_curves:{len(spec['heights'])}")
    # ---- does a replaced table really change the result at the repeated height? (otherwise the pair proves nothing)
    prev = {}
    for st_ in res["steps"]:
        o = st_["op"]
        if o[0] in "GT":
            for k in prev:
                prev[k] = (prev[k][0], True)
        elif o[0] == "S" and st_["kind"] == "temps":
            k = (o, st_["H"])
            if k in prev and prev[k][1]:
                ctx.count("same_height_across_table_change:" + ("result_changes" if prev[k][0] != st_["val"][:2] else "result_identical"))
            prev[k] = (st_["val"][:2], False)
    # ---- trace conflicts: same arguments, different temperatures
    _, conflicts = sims_table(res["trace"])
    if conflicts:
        ctx.finding("ghe-simulate-not-a-function-of-arguments", f"{name}: the same (field, heights, height, method) gave two temperature pairs: {conflicts[0]}",
                    {"spec": spec, "conflict": conflicts[0]})
    # ---- correspondence
    def disagree(what, detail):
        ctx.disagreements_checked += 1
        if "ghe-correspondence" not in ctx.broken:
            ctx.broken.append("ghe-correspondence")
            ctx.extra["ghe_first_disagreement"] = {"spec": spec, "what": what, "detail": detail}

    if model_out is not None:
        body, _, tr = model_out.partition(" trace=")
        steps = body.split(" ") if body else []
        if len(steps) != len(res["steps"]):
            disagree("step count", model_out[:300])
        else:
            for ms, rs_ in zip(steps, res["steps"]):
                p = ms.split("|")
                if len(p) != 6:
                    disagree("format", ms)
                    break
                okind, axis, table, heights, hh, last = p
                if okind != rs_["kind"]:
                    disagree("outcome", {"op": rs_["op"], "model": okind, "impl": rs_["kind"]})
                    break
                if axis != rs_["axis"] or table != rs_["table"] or heights != rs_["heights"] or hh != rs_["H"]:
                    disagree("state", {"op": rs_["op"], "model": [axis, table, heights, hh], "impl": [rs_["axis"], rs_["table"], rs_["heights"], rs_["H"]]})
                    break
                if (last == "-") != (rs_["last"] is None):
                    disagree("last", {"op": rs_["op"], "model": last, "impl": rs_["last"]})
                    break
                if rs_["last"] is not None:
                    why = show_args_cmp(last, rs_["last"])
                    if why:
                        disagree("last-args", {"op": rs_["op"], "why": why})
                        break
            mt = [x for x in tr.split(" ") if x]
            if len(mt) != len(res["trace"]):
                disagree("trace length", {"model": len(mt), "impl": len(res["trace"])})
            else:
                for a, b in zip(mt, res["trace"]):
                    why = show_args_cmp(a, b)
                    if why:
                        disagree("trace", why)
                        break
        ctx.count("ghe_trace_simulations_compared", len(res["trace"]))
    if spec_out is not None:
        kinds = [k for k, o in zip(spec_out.split(" "), spec["ops"]) if o[0] in "SZ"]   # (G/T/H are not compared: always ok)
        fk = [f["kind"] for f in res["fresh"]]
        if kinds != fk:
            disagree("spec outcomes", {"model": kinds, "impl_fresh": fk})
    # ---- predicate: each call equals the call on an object built from scratch
    for f in res["fresh"]:
        st = res["steps"][f["i"]]
        hl_ = res["steps"][f["i"] - 1]["heights_list"] if f["i"] > 0 else (table_heights(spec, spec["table0"]) if spec.get("table0") else spec["heights"])
        inside = len(hl_) == 1 or min(hl_) <= f["h"] <= max(hl_)
        same = st["kind"] == f["kind"] and st["val"] == f["val"]
        ctx.count("ghe_calls_vs_fresh")
        ctx.count("ghe_calls_vs_fresh:" + ("inside" if inside else "outside") + "-stored-heights")
        if same:
            continue
        replay = {"spec": spec, "call_index": f["i"], "op": f["op"], "height": f["h"], "on_used_object": [st["kind"], (st["val"] or [None])[:2]],
                  "on_new_object": [f["kind"], (f["val"] or [None])[:2]], "inside_stored_heights": inside}
        ctx.finding(f"ghe-history-dependent:{f['op']}" + ("" if inside else ":outside-stored-heights"),
                    f"{name}: call {f['i']} ({f['op']} at H={f['h']}) differs from the same call on a new object: "
                    f"{st['kind']} {(st['val'] or [None])[:2]} vs {f['kind']} {(f['val'] or [None])[:2]}", replay)


# ============================================================================ manager level
def tok(prefix, x):
    return prefix + hashlib.md5(repr(x).encode()).hexdigest()[:8]


PIPE_ARGS = {"SINGLEUTUBE": (0.03404, 0.04216, 0.01856, 1.0e-6), "DOUBLEUTUBEPARALLEL": (0.03404, 0.04216, 0.01856, 1.0e-6),
             "DOUBLEUTUBESERIES": (0.03404, 0.04216, 0.01856, 1.0e-6)}


def pipe_pay(cfg):
    """Arguments of the pipe setter.  Only the coaxial geometry of ghelib.set_pipe depends on the borehole diameter; for
    the U-tubes the diameter is NOT an input of the pipe (so that re-setting only the borehole ends in the same configuration)."""
    p = cfg["phys"]
    return (cfg["pipe"], p["pipe_k"], p["pipe_rho_cp"], p["borehole"][2] if cfg["pipe"] == "COAXIAL" else None)


def setters_of(cfg):
    """The eight component setter calls of a configuration, as (name, payload)."""
    p = cfg["phys"]
    return [("fluid", p["fluid"]), ("grout", p["grout"]), ("soil", p["soil"]), ("pipe", pipe_pay(cfg)),
            ("bh", (cfg.get("nominal_height", p["borehole"][0]), p["borehole"][1], p["borehole"][2])),
            ("sim", (cfg["months"], cfg["max_eft"], cfg["min_eft"], cfg["max_h"], cfg["min_h"], cfg.get("max_boreholes"), cfg.get("cont", False))),
            ("loads", (cfg["load_kind"], cfg["load_scale"])), ("geom", cfg["geom"])]


def load_list(kind, scale):
    base = ghelib.atlanta_loads()
    if kind == "atlanta_neg":
        base = [-x for x in base]
    return [x * scale for x in base]


SLOT_ATTRS = ("_fluid", "_grout", "_soil", "_pipe", "pipe_type", "_borehole", "_simulation_parameters", "_ground_loads", "geom_type",
              "_geometric_constraints", "_design", "_search")


def dump_state(mg):
    """Full observable state of a manager: for every slot the identity of the object it holds and its `to_input`-style
    content (enum members by name)."""
    import enum

    d = {}
    for a in SLOT_ATTRS:
        o = getattr(mg, a, "<missing>")
        if o is None or isinstance(o, (enum.Enum, str)):
            d[a] = repr(o)
            continue
        entry = [id(o)]
        if hasattr(o, "to_input"):
            try:
                entry.append(json.dumps(o.to_input(), sort_keys=True, default=str))
            except Exception as e:  # the dump itself must not decide anything
                entry.append("to_input raised " + type(e).__name__)
        if a == "_borehole":
            entry.append([repr(float(o.H)), repr(float(o.D)), repr(float(o.r_b))])
        if a == "_ground_loads":
            entry.append([len(o), hashlib.sha1(repr(list(o[:50])).encode()).hexdigest()])
        if a == "_simulation_parameters":
            entry.append(sorted((k, repr(v)) for k, v in vars(o).items()))
        d[a] = entry
    return d


def refusing_call(mg, name, pay):
    """Make a call that must be refused; returns ('refused' | 'accepted', how)."""
    throw = bool(pay[-1])
    call = {"ptype_bad": lambda: mg.set_pipe_type(pay[0], throw=throw), "gtype_bad": lambda: mg.set_design_geometry_type(pay[0], throw=throw),
            "fluid_bad": lambda: mg.set_fluid(pay[0], 0.0, throw=throw), "design_bad": lambda: mg.set_design(pay[0], pay[1], throw=throw)}[name]
    try:
        rc = call()
    except ValueError:
        return "refused", "raised ValueError"
    return ("refused", "returned 1") if rc != 0 else ("accepted", "returned 0")


def do_step(managers, step, rec):
    """Execute one history step on the real managers; return (op token for the model, outcome)."""
    from ghedesigner.manager import GHEManager

    name = step[0]
    if name == "new":
        managers.append(GHEManager())
        return "new", "ok"
    m = step[1]
    mg = managers[m]
    pay = step[2] if len(step) > 2 else None
    if name in ("ptype_bad", "gtype_bad", "fluid_bad", "design_bad"):
        before = dump_state(mg)
        verdict, how = refusing_call(mg, name, pay)
        after = dump_state(mg)
        changed = {a: [before[a], after[a]] for a in SLOT_ATTRS if before[a] != after[a]}
        rec.refused.append({"call": name, "args": [str(x) for x in pay], "m": m, "verdict": verdict, "how": how, "changed": changed})
        token = {"ptype_bad": f"ptype:{m}:-", "gtype_bad": f"gtype:{m}:NOSUCHGEOMETRY", "fluid_bad": f"fluid:{m}:BAD{tok('F', pay[0])}",
                 "design_bad": f"design:{m}:{core.rs(pay[0]) if name == 'design_bad' else 0}:SIDEWAYS"}[name]
        return token, "refused" if verdict == "refused" else "ok"
    try:
        if name == "ptype":
            mg.set_pipe_type(pay)
            return f"ptype:{m}:{pay}", "ok"
        if name == "gtype":
            mg.set_design_geometry_type(pay)
            return f"gtype:{m}:{pay}", "ok"
        if name == "fluid":
            mg.set_fluid(pay[0], pay[1])
            return f"fluid:{m}:{tok('F', pay)}", "ok"
        if name == "grout":
            mg.set_grout(*pay)
            return f"grout:{m}:{tok('G', pay)}", "ok"
        if name == "soil":
            mg.set_soil(*pay)
            return f"soil:{m}:{tok('S', pay)}", "ok"
        if name == "pipe":
            kind, k, rcp, dia = pay
            dia = 0.14 if dia is None else dia
            ghelib.set_pipe(mg, kind, {"pipe_k": k, "pipe_rho_cp": rcp}, dia)
            return f"pipe:{m}:{kind}:{tok('P', pay)}", "ok"
        if name == "bh":
            mg.set_borehole(*pay)
            return f"bh:{m}:{core.rs(pay[0])}:{core.rs(pay[1])}:{core.rs(pay[2])}", "ok"
        if name == "sim":
            mg.set_simulation_parameters(*pay)
            mo, a, b, c, d, mb, ct = pay
            return f"sim:{m}:{mo}:{core.rs(a)}:{core.rs(b)}:{core.rs(c)}:{core.rs(d)}:{'-' if mb is None else mb}:{1 if ct else 0}", "ok"
        if name == "loads":
            mg.set_ground_loads_from_hourly_list(load_list(*pay))
            return f"loads:{m}:{tok('L', pay)}:8760", "ok"
        if name == "geom":
            ghelib.set_geometry(mg, pay)
            return f"geom:{m}:{pay[0]}:{tok('Q', pay)}", "ok"
        if name == "design":
            mg.set_design(pay[0], pay[1])
            return f"design:{m}:{core.rs(pay[0])}:{pay[1]}", "ok"
        if name == "find":
            rec.script = []
            before = dump_state(mg)
            try:
                mg.find_design()
            except ValueError:
                if not rec.script:   # refused by find_design's own test, before any search: nothing may have changed
                    after = dump_state(mg)
                    changed = {a: [before[a], after[a]] for a in SLOT_ATTRS if before[a] != after[a]}
                    rec.refused.append({"call": "find_design", "args": [], "m": m, "verdict": "refused", "how": "raised ValueError", "changed": changed})
                raise
            return f"find:{m}", "ok"
    except Exception as e:
        if name == "design":
            return f"design:{m}:{core.rs(pay[0])}:{pay[1]}", "raise:" + type(e).__name__
        if name == "find":
            return f"find:{m}", "raise:" + type(e).__name__
        raise
    raise ValueError(step)


def static_key_mgr(cfg, flow, ft):
    p = cfg["phys"]
    mo, a, b, c, d, mb, ct = (cfg["months"], cfg["max_eft"], cfg["min_eft"], cfg["max_h"], cfg["min_h"], cfg.get("max_boreholes"), cfg.get("cont", False))
    return "|".join([tok("F", p["fluid"]), tok("P", pipe_pay(cfg)), tok("G", p["grout"]), tok("S", p["soil"]), cfg["pipe"],
                     tok("L", (cfg["load_kind"], cfg["load_scale"])), "8760", str(mo), core.rs(a), core.rs(b), core.rs(c), core.rs(d), "-" if mb is None else str(mb),
                     "1" if ct else "0", core.rs(flow), "B" if ft == "BOREHOLE" else "S"])


def cfg_key(cfg, flow, ft):
    p = cfg["phys"]
    return "|".join([static_key_mgr(cfg, flow, ft), cfg["geom"][0], tok("Q", cfg["geom"]), core.rs(p["borehole"][1]), core.rs(p["borehole"][2] / 2.0)])


def result_of(mg, tmp, tag):
    """Observable result of a finished find_design: field, height, temperatures, output files."""
    s = mg._search
    with ghelib.quiet():
        mg.prepare_results("C13", "note", "author", "iter")
        d = Path(tmp) / tag
        mg.write_output_files(d)
    files = {}
    for f in sorted(d.iterdir()):
        data = f.read_text()
        if f.name.endswith(".json"):
            j = json.loads(data)
            j.pop("simulation_time_stamp", None)
            j.pop("simulation_runtime", None)
            data = json.dumps(j, sort_keys=True)
        elif f.name.endswith(".txt"):
            data = "\n".join(l for l in data.splitlines() if "Simulated On:" not in l and "Calculation Time" not in l)
        files[f.name] = hashlib.sha1(data.encode()).hexdigest()
    g = s.ghe
    return {"coords": [[float(x), float(y)] for x, y in s.selected_coordinates], "H": repr(float(g.bhe.b.H)), "H_rs": core.rs(g.bhe.b.H),
            "hp_eft": hashlib.sha1(repr([float(x) for x in g.hp_eft]).encode()).hexdigest(), "max_min": [float(max(g.hp_eft)), float(min(g.hp_eft))],
            "files": files, "heights": ",".join(core.rs(x) for x in g.gFunction.g_lts), "table": table_mode(g.gFunction), "axis": axis_of(g)}


def mgr_worker(job):
    """Run one history on real managers (one process), recording script, trace and results."""
    os.environ["OMP_NUM_THREADS"] = "1"
    warnings.filterwarnings("ignore")
    rec = Rec()
    import io

    import ghedesigner.manager as _gm

    _gm.stderr = io.StringIO()   # the manager reports refused calls on stderr (process-local: this is a worker)
    managers, ops, finds, strats, brents = [], [], [], {}, {}
    cur = {}   # manager index -> (cfg, flow, ft) of the last set_design
    out = {"name": job["name"], "finds": finds}
    with tempfile.TemporaryDirectory(prefix="c13_") as tmp, instrument(rec), ghelib.quiet():
        for step in job["steps"]:
            name = step[0]
            if name == "design":
                cur[step[1]] = (step[3], step[2][0], step[2][1])
            if name == "find" and step[1] in cur:
                cfg, flow, ft = cur[step[1]]
                rec.static_key = static_key_mgr(cfg, flow, ft)
            n0 = len(rec.trace)
            optok, outcome = do_step(managers, step, rec)
            ops.append(optok)
            if name == "find":
                cfg, flow, ft = cur.get(step[1], (None, None, None))
                key = cfg_key(cfg, flow, ft) if cfg else "?"
                script = list(rec.script)
                fr = {"m": step[1], "outcome": outcome, "script": script, "cfg_key": key, "target": bool(step[2]) if len(step) > 2 else False,
                      "trace": [{k: v for k, v in t.items() if k != "id"} for t in rec.trace[n0:]], "fields": len(rec.fields)}
                if key in strats and strats[key] != script:
                    fr["strategy_conflict"] = [strats[key], script]
                strats.setdefault(key, script)
                if outcome == "ok":
                    mg = managers[step[1]]
                    brents.update(brent_table(rec, mg._search.ghe.sim_params))
                    fr["result"] = result_of(mg, tmp, f"f{len(finds)}")
                    fr["field_id"] = rec.fid(mg._search.selected_coordinates)
                    gg = mg._search.ghe
                    mine = [t for t in rec.trace if t["id"] == id(gg)]
                    fr["last"] = {k: v for k, v in mine[-1].items() if k != "id"} if mine else None
                rec.brents["pending"] = []
                finds.append(fr)
    import ghedesigner

    out.update({"ops": ops, "strats": strats, "brents": brents, "trace": [{k: v for k, v in t.items() if k != "id"} for t in rec.trace],
                "bad": job.get("bad", []), "module": ghedesigner.__file__, "refused": rec.refused})
    return out


def full_run(m, cfg, order=None, junk=None, flow=None, ft=None, target=False):
    """Steps: all component setters of cfg on manager m (in `order`), set_design, find_design."""
    st = setters_of(cfg)
    idx = order if order is not None else list(range(len(st)))
    steps = []
    for i in idx:
        n, pay = st[i]
        if junk and n in junk:
            steps.append((n, m, junk[n]))
        steps.append((n, m, pay))
    flow = cfg["flow"] if flow is None else flow
    ft = cfg.get("flow_type", "BOREHOLE") if ft is None else ft
    steps.append(("design", m, (flow, ft), cfg))
    steps.append(("find", m, target))
    return steps


def variants(cfg, other, rng, n_perm, tier):
    jobs = [{"name": "baseline", "steps": [("new",)] + full_run(0, cfg, target=True)}]
    jobs.append({"name": "same-manager-find-twice", "steps": [("new",)] + full_run(0, cfg, target=True) + [("find", 0, True)]})
    jobs.append({"name": "same-manager-find-twice-redesign", "steps": [("new",)] + full_run(0, cfg, target=True) + [("find", 0, True),
                 ("design", 0, (cfg["flow"], cfg.get("flow_type", "BOREHOLE")), cfg), ("find", 0, True)]})
    jobs.append({"name": "rebuilt-manager", "steps": [("new",)] + full_run(0, cfg) + [("new",)] + full_run(1, cfg, target=True)})
    for k in range(n_perm):
        order = list(range(8))
        rng.shuffle(order)
        junk = {}
        if rng.random() < 0.7:
            junk["soil"] = (round(rng.uniform(1.0, 3.0), 2), 2.1e6, round(rng.uniform(10, 20), 1))
        if rng.random() < 0.5:
            junk["grout"] = (round(rng.uniform(0.7, 2.0), 2), 3.5e6)
        if rng.random() < 0.5:
            junk["bh"] = (round(rng.uniform(10, 400), 1), round(rng.uniform(1, 4), 1), 0.15)
        jobs.append({"name": f"permuted-setters-{k}", "steps": [("new",)] + full_run(0, cfg, order=order, junk=junk, target=True), "order": order})
    jobs.append({"name": "other-design-first-same-manager", "steps": [("new",)] + full_run(0, other) + full_run(0, cfg, target=True)})
    jobs.append({"name": "other-design-first-other-manager", "steps": [("new",)] + full_run(0, other) + [("new",)] + full_run(1, cfg, target=True)})
    # refused calls interleaved between the accepted ones, before and after set_design; find_design on a manager that is not ready
    for k in range(1 if tier == "quick" else 2):
        steps = [("new",)]
        for st in full_run(0, cfg, target=True):
            if st[0] == "design":
                steps += [("design_bad", 0, (cfg["flow"], "SIDEWAYS", rng.random() < 0.5)), ("new",), ("find", 1, False)]
            if st[0] == "find":
                steps += [("design_bad", 0, (cfg["flow"], "SIDEWAYS", rng.random() < 0.5)), ("ptype_bad", 0, ("coax", rng.random() < 0.5))]
            steps.append(st)
            if st[0] == "pipe":
                steps += [("ptype", 0, cfg["pipe"]), ("ptype_bad", 0, (rng.choice(["DOUBLE_U_TUBE_PARALLEL", "SINGLE U-TUBE", "", "None"]), rng.random() < 0.5))]
            if st[0] == "geom":
                steps += [("gtype", 0, cfg["geom"][0]), ("gtype_bad", 0, (rng.choice(["HEXAGON", "near-square", ""]), rng.random() < 0.5))]
            if st[0] == "fluid":
                steps += [("fluid_bad", 0, (rng.choice(["Mercury", "water ", "Glycol"]), rng.random() < 0.5))]
        jobs.append({"name": f"refused-calls-interleaved-{k}", "steps": steps})
    for nom in ([1.0, 500.0] if tier == "quick" else [1.0, 500.0, 96.0, 1e-3]):
        c2 = dict(cfg, nominal_height=nom)
        jobs.append({"name": f"nominal-height-{nom:g}", "steps": [("new",)] + full_run(0, c2, target=True)})
    return jobs


def reuse_jobs(tier):
    """Histories on ONE manager: [full configuration A; set_design; find_design (may raise)] then only a SUBSET of
    the setters (loads / geometry / both) re-applied — simulation parameters, borehole, pipe, fluid, grout, soil
    untouched — set_design; find_design.  Each is compared with a fresh manager in a fresh process holding the same
    final slots.  A and B are chosen so that B needs a larger (or smaller) field than A's domain offers, with and
    without max_boreholes, with and without continue_if_design_unmet, and with first runs that raise ValueError."""
    phys = ghelib.default_physics()

    def mk(geom, scale, **kw):
        c = {"phys": dict(phys), "pipe": "SINGLEUTUBE", "load_kind": "atlanta", "load_scale": scale, "months": 12, "max_eft": 35.0, "min_eft": 5.0,
             "max_h": 135.0, "min_h": 60.0, "geom": geom, "flow": 0.5, "flow_type": "BOREHOLE"}
        c.update(kw)
        return c

    ns_small, ns_large = ("NEARSQUARE", 5.0, 10.0), ("NEARSQUARE", 5.0, 50.0)       # up to 3x3 / 11x11 boreholes
    bi = ("BIRECTANGLE", 40.0, 30.0, 4.0, 10.0, 10.0)
    pairs = [
        ("grow-loads+geometry", mk(ns_small, 0.03), {"load_scale": 0.5, "geom": ns_large}),
        ("grow-loads+geometry-continue", mk(ns_small, 0.03, cont=True), {"load_scale": 0.5, "geom": ns_large}),
        ("grow-geometry-after-ValueError", mk(ns_small, 0.5), {"geom": ns_large}),
        ("loads-after-ValueError-capped", mk(bi, 50.0, max_boreholes=30), {"load_scale": 1.0}),
    ]
    if tier == "thorough":
        lot = [[0.0, 0.0], [30.0, 0.0], [30.0, 20.0], [0.0, 20.0]]
        pairs += [
            ("shrink-loads", mk(ns_large, 0.5), {"load_scale": 0.03}),
            ("shrink-geometry-continue", mk(ns_large, 0.5, cont=True), {"geom": ns_small}),
            ("shrink-geometry-ValueError-second", mk(ns_large, 0.5), {"geom": ns_small}),
            ("grow-loads+geometry-capped", mk(ns_small, 0.03, max_boreholes=40), {"load_scale": 0.5, "geom": ns_large}),
            ("grow-loads+geometry-cap-binds", mk(ns_small, 0.03, max_boreholes=20), {"load_scale": 0.5, "geom": ns_large}),
            ("grow-loads-only", mk(ns_large, 0.03), {"load_scale": 0.5}),
            ("loads-after-ValueError-capped-continue", mk(bi, 50.0, max_boreholes=30, cont=True), {"load_scale": 1.0}),
            ("loads-after-ValueError-uncapped", mk(bi, 50.0), {"load_scale": 0.6}),
            ("rectangle-grow-loads+geometry", mk(("RECTANGLE", 12.0, 10.0, 4.0, 8.0), 0.03), {"load_scale": 0.4, "geom": ("RECTANGLE", 60.0, 45.0, 4.0, 9.0)}),
            ("constrained-grow-loads+geometry", mk(("BIRECTANGLECONSTRAINED", 5.0, 10.0, 12.0, lot, []), 0.03),
             {"load_scale": 0.3, "geom": ("BIRECTANGLECONSTRAINED", 5.0, 10.0, 12.0, [[0.0, 0.0], [55.0, 0.0], [55.0, 40.0], [0.0, 40.0]], [])}),
            ("bizoned-after-ValueError-grow-loads", mk(("BIZONEDRECTANGLE", 50.0, 40.0, 4.0, 9.0, 10.0), 0.001), {"load_scale": 0.4}),
        ]
    jobs = []
    for name, a, over in pairs:
        final = dict(a)
        final.update(over)
        subset = {"loads"} if "load_scale" in over or "load_kind" in over else set()
        if "geom" in over:
            subset.add("geom")
        steps = [("new",)] + full_run(0, a) + [(n, 0, pay) for n, pay in setters_of(final) if n in subset]
        steps += [("design", 0, (final["flow"], final["flow_type"]), final), ("find", 0, True)]
        cname = "reuse:" + name
        jobs.append({"name": "baseline", "config": cname, "steps": [("new",)] + full_run(0, final, target=True)})
        jobs.append({"name": "reused-manager-" + "+".join(sorted(subset)), "config": cname, "steps": steps, "reuse": name})
    return jobs


def oneinput_mgr_jobs(rng, tier):
    """Manager level: design X, then directly afterwards in the same process X' (one physical input changed) on a NEW manager,
    or on the SAME manager through the one setter; compared with X' in a fresh process."""
    phys = ghelib.default_physics()
    base = {"phys": dict(phys), "pipe": "SINGLEUTUBE", "load_kind": "atlanta", "load_scale": 0.1, "months": 12, "max_eft": 35.0, "min_eft": 5.0,
            "max_h": 135.0, "min_h": 60.0, "geom": ("NEARSQUARE", 5.0, 30.0), "flow": 0.5, "flow_type": "BOREHOLE"}
    var = {"grout_rho_cp": ("grout", {"grout": (1.0, 3000000.0)}), "soil_rho_cp": ("soil", {"soil": (2.0, 2000000.0, 18.3)}),
           "pipe_rho_cp": ("pipe", {"pipe_rho_cp": 1800000.0}), "fluid_concentration": ("fluid", {"fluid": ("PropyleneGlycol", 20.0)}),
           "borehole_radius": ("bh", {"borehole": (96.0, 2.0, 0.15)}), "burial_depth": ("bh", {"borehole": (96.0, 4.0, 0.14)}),
           "grout_k": ("grout", {"grout": (1.3, 3901000.0)}), "soil_k": ("soil", {"soil": (2.6, 2343493.0, 18.3)}),
           "undisturbed_temp": ("soil", {"soil": (2.0, 2343493.0, 16.0)}), "pipe_k": ("pipe", {"pipe_k": 0.45})}
    plan = [("grout_rho_cp", "same"), ("soil_rho_cp", "new")] if tier == "quick" else [(n, w) for n in var for w in ("same", "new")]
    jobs = []
    for n, where in plan:
        setter, over = var[n]
        final = dict(base, phys=dict(phys, **over))
        cname = f"one-input:{n}:{where}"
        jobs.append({"name": "baseline", "config": cname, "steps": [("new",)] + full_run(0, final, target=True)})
        if where == "new":
            steps = [("new",)] + full_run(0, base) + [("new",)] + full_run(1, final, target=True)
        else:
            steps = [("new",)] + full_run(0, base) + [(s_, 0, pay) for s_, pay in setters_of(final) if s_ == setter]
            steps += [("design", 0, (final["flow"], final["flow_type"]), final), ("find", 0, True)]
        jobs.append({"name": f"one-input-after-X-{where}-manager", "config": cname, "steps": steps, "one_input": n})
    return jobs


def model_line(res):
    sims, _ = sims_table(res["trace"])
    return " ".join(["apirun"] + res["ops"] + ["--"] + [f"{k}={a}:{b}" for k, (a, b) in sims.items()] + ["--"] +
                    [f"{k}=>{','.join(v)}" for k, v in res["brents"].items()] + ["--"] +
                    [f"{k}=>{','.join(v)}" for k, v in res["strats"].items()] + ["--"] + [core.rs(x) for x in res["bad"]])


def parse_find(line):
    """`find:m ok field=.. H=.. heights=.. table=.. axis=.. last=.. trace=a b c`"""
    head, _, trace = line.partition(" trace=")
    parts = head.split(" ")
    d = {"m": int(parts[0].split(":")[1]), "outcome": parts[1], "trace": [x for x in trace.split(" ") if x]}
    for p in parts[2:]:
        if "=" in p:
            k, _, v = p.partition("=")
            d[k] = v
    d["none"] = len(parts) > 2 and parts[2] == "none"
    return d


def script_is_safe(script):
    """The recorded search path meets `Safe`: after constructor builds (c.*) an e./i. comes before any z / r."""
    explicit = False
    for s in script:
        if s[0] == "c":
            if explicit:
                pass
            continue
        if s[0] in "ei":
            explicit = True
        elif s[0] in "zr" and not explicit:
            return False
    return True


def check_variant(ctx, cname, base, res, model_out):
    name = f"{cname}/{res['name']}"
    tfinds = [f for f in res["finds"] if f["target"]]
    for f in res["finds"]:
        ctx.count("find_design_calls")
        ctx.count("find_outcome:" + f["outcome"])
        ctx.count("script_safe" if script_is_safe(f["script"]) else "script_unsafe")
        ctx.count("script_steps", len(f["script"]))
        for s in f["script"]:
            ctx.count("script_op:" + s[0])
        if not script_is_safe(f["script"]):
            ctx.broken.append("safe-hypothesis: a recorded search path returns or sizes the constructor's GHE")
        if "strategy_conflict" in f:
            ctx.finding("search-path-not-a-function-of-config", f"{name}: two find_design calls with the same configuration took different search paths",
                        {"variant": res["name"], "paths": f["strategy_conflict"]})
    for rf in res.get("refused", []):
        ctx.count("refused_call:" + rf["call"] + ":" + rf["how"].replace(" ", "_"))
        if rf["verdict"] != "refused":
            ctx.disagreements_checked += 1
            if "api-correspondence" not in ctx.broken:
                ctx.broken.append("api-correspondence")
                ctx.extra["api_first_disagreement"] = {"variant": name, "what": "a call the model refuses was accepted", "detail": rf}
        if rf["changed"]:
            ctx.finding(f"refused-call-changed-state:{rf['call']}",
                        f"{name}: {rf['call']}({', '.join(repr(x) for x in rf['args'])}) was refused ({rf['how']}) but changed " +
                        ", ".join(f"{a}: {v[0] if isinstance(v[0], str) else '<object>'} -> {v[1] if isinstance(v[1], str) else '<other object/content>'}" for a, v in rf["changed"].items()),
                        {"variant": res["name"], "call": rf["call"], "args": rf["args"], "how": rf["how"], "changed": rf["changed"], "steps": res["ops"]})
    _, conflicts = sims_table(res["trace"])
    if conflicts:
        ctx.finding("simulate-not-a-function-of-arguments", f"{name}: same (configuration, field, heights, height) simulated to two temperature pairs {conflicts[0]}",
                    {"variant": res["name"], "conflict": conflicts[0]})
    # ---- correspondence with the model
    def disagree(what, detail):
        ctx.disagreements_checked += 1
        if "api-correspondence" not in ctx.broken:
            ctx.broken.append("api-correspondence")
            ctx.extra["api_first_disagreement"] = {"variant": name, "what": what, "detail": detail}

    if model_out is not None:
        # refused setter calls print `raise:<Error>`, refused set_design calls `design:m raise:<Error>`
        m_ref = sum(1 for l in model_out.split(" ## ") if l.startswith("raise:")) + sum(1 for l in model_out.split(" ## ") if l.startswith("design:") and " raise:" in l)
        i_ref = sum(1 for rf in res.get("refused", []) if rf["call"] != "find_design" and rf["verdict"] == "refused")
        if m_ref != i_ref:
            disagree("refused calls", {"model": m_ref, "impl": i_ref})
        lines = [l for l in model_out.split(" ## ") if l.startswith("find:")]
        if len(lines) != len(res["finds"]):
            disagree("number of finds", model_out[:400])
        else:
            for l, f in zip(lines, res["finds"]):
                d = parse_find(l)
                if (d["outcome"] == "ok") != (f["outcome"] == "ok"):
                    disagree("outcome", {"model": d["outcome"], "impl": f["outcome"]})
                    continue
                if f["outcome"] != "ok":
                    continue
                r = f["result"]
                got = [d.get("field"), d.get("H"), d.get("heights"), d.get("table"), d.get("axis")]
                want = [str(f["field_id"]), r["H_rs"], r["heights"], r["table"], r["axis"]]
                if got != want:
                    disagree("result", {"model": got, "impl": want})
                    continue
                why = show_args_cmp(d.get("last", "-"), f["last"]) if f["last"] else "no reported simulation"
                if why:
                    disagree("reported simulation", why)
                    continue
                if len(d["trace"]) != len(f["trace"]):
                    disagree("trace length", {"model": len(d["trace"]), "impl": len(f["trace"])})
                    continue
                for a, b in zip(d["trace"], f["trace"]):
                    why = show_args_cmp(a, b)
                    if why:
                        disagree("trace", why)
                        break
                ctx.count("api_trace_simulations_compared", len(f["trace"]))
    # ---- predicate: every target find equals the baseline of a fresh process
    b = base["finds"][-1]
    for f in tfinds:
        ctx.count("target_finds_vs_baseline")
        if f["outcome"] != b["outcome"]:
            ctx.finding(f"history-dependent-outcome:{res['name'].rstrip('0123456789.-')}", f"{name}: find_design {f['outcome']} but {b['outcome']} in a fresh process",
                        {"config": cname, "variant": res["name"], "steps": res["ops"]})
            continue
        if f["outcome"] != "ok":
            continue
        r, rb = f["result"], b["result"]
        diffs = [k for k in ("coords", "H", "hp_eft") if r[k] != rb[k]] + [n for n in rb["files"] if r["files"].get(n) != rb["files"][n]]
        if diffs:
            ctx.finding(f"history-dependent-result:{res['name'].rstrip('0123456789.-')}",
                        f"{name}: differs from the fresh-process baseline in {diffs}: H {r['H']} vs {rb['H']}, {len(r['coords'])} vs {len(rb['coords'])} boreholes, EFT {r['max_min']} vs {rb['max_min']}",
                        {"config": cname, "variant": res["name"], "steps": res["ops"], "differs": diffs, "result": {k: r[k] for k in ("H", "max_min")}, "baseline": {k: rb[k] for k in ("H", "max_min")}})


def base_configs(rng, tier):
    phys = ghelib.default_physics()
    def mk(geom, pipe="SINGLEUTUBE", scale=None, kind="atlanta", **kw):
        c = {"phys": dict(phys), "pipe": pipe, "load_kind": kind, "load_scale": scale, "months": 12, "max_eft": 35.0, "min_eft": 5.0,
             "max_h": 135.0, "min_h": 60.0, "geom": geom, "flow": 0.5, "flow_type": "BOREHOLE"}
        c.update(kw)
        return c
    s = lambda a, b: round(rng.uniform(a, b), 4)
    lot = [[0.0, 0.0], [55.0, 0.0], [55.0, 40.0], [0.0, 40.0]]
    nogo = [[[20.0, 15.0], [30.0, 15.0], [30.0, 25.0], [20.0, 25.0]]]
    cfgs = {
        "near-square": mk(("NEARSQUARE", 5.0, 155.0), scale=s(0.15, 0.6)),
        "rectangle": mk(("RECTANGLE", 60.0, 45.0, 4.0, 9.0), scale=s(0.2, 0.5), pipe="DOUBLEUTUBEPARALLEL", flow_type="SYSTEM", flow=s(8.0, 14.0)),
        "bi-rectangle-constrained": mk(("BIRECTANGLECONSTRAINED", 5.0, 10.0, 12.0, lot, nogo), scale=s(0.15, 0.4)),
    }
    if tier == "thorough":
        cfgs["bi-rectangle"] = mk(("BIRECTANGLE", 50.0, 40.0, 4.0, 9.0, 10.0), scale=s(0.2, 0.5), kind="atlanta_neg")
        cfgs["bi-zoned"] = mk(("BIZONEDRECTANGLE", 50.0, 40.0, 4.0, 9.0, 10.0), scale=s(0.2, 0.5), pipe="COAXIAL")
        cfgs["row-wise"] = mk(("ROWWISE", 0.8, 10.0, 5.0, 0.5, 0.0, -90.0, 45.0, [[0.0, 0.0], [42.0, 3.0], [40.0, 31.0], [2.0, 28.0]], []), scale=s(0.05, 0.25))
        cfgs["near-square-unmet"] = mk(("NEARSQUARE", 5.0, 20.0), scale=s(1.0, 2.0), cont=True)
    others = [mk(("RECTANGLE", 40.0, 30.0, 5.0, 8.0), scale=s(0.1, 0.3), kind="atlanta_neg", pipe="DOUBLEUTUBESERIES"),
              mk(("NEARSQUARE", 6.0, 100.0), scale=s(0.1, 0.3), months=24)]
    return cfgs, others


# ============================================================================ run
def run(ctx: core.Ctx):
    ctx.rule = ("GHE level: a case = one call sequence (setH / simulate HYBRID|HOURLY / size / compute_g_functions / assigning another g-function table; random of length <= 6, plus sequences that repeat a height and method around each state-changing operation) on one real GHE "
                "(pipe kind, field size, 1 or 3 stored heights); distinct = distinct (pipe, boreholes, curves, operation sequence); every simulate/size is "
                "non-trivial (compared with the same call on a GHE rebuilt from scratch).  Manager level: a case = one history variant of one configuration "
                "(find twice, redesign, rebuilt manager, permuted/repeated setters, another design first on the same/another manager, nominal height, refused calls (unknown pipe/geometry/fluid/flow type, find_design when not ready) interleaved with full state dumps before/after, a manager re-used with only loads and/or geometry re-set after a first design that may raise, a design run directly after one that differs in exactly one physical input). One-input family, GHE level: a case = (input, direction, pipe kind), X then X' on new objects in one process vs X' in a fresh process; "
                "non-trivial when the target find_design ran a search (>= 3 excess evaluations)")
    ctx.trusted_base += [
        "translator plug-in translate/gen_api.py (slot lists of set_design/find_design, writers of .H, keep_contour defaults, simulate's use of self.times)",
        "hand-written model Model/Api.lean, tied to the code by argument-trace correspondence on real call sequences and real histories",
        "bit-determinism of numpy / scipy / pygfunction for equal arguments (checked by the byte comparisons, not proved)",
        "the instrumentation wrappers in harness/c13.py (record arguments, do not alter them)",
    ]
    ctx.assumptions += [
        "numerical kernels (everything below GHE.simulate, pygfunction, brentq) are pure functions of the arguments the model passes them; measured: no (configuration, field, heights, height, method) key simulated to two different temperature pairs",
        "Safe: a search routine builds objects at the borehole's current height only in its constructor, which must not raise there (nominal height 0 raises ZeroDivisionError: corpus case), and never returns or sizes that object; checked on every recorded search path",
        "simulate_pure needs no hypothesis on the heights since fix 5ab5ff6 (table rebuilt when built for another kind/fill mode; pinned by source_shape_gfunction); heights outside the stored ones are generated and compared with new objects",
        "a ValueError raised by a numerical kernel inside BisectionZD.search_successive would be swallowed by its `except ValueError`; the model lets kernel errors propagate",
        "component setters after set_design are outside the documented call order (the design keeps the captured objects; Lean example)",
    ]
    ctx.lean_prepare()
    rng = ctx.rng
    quick = ctx.tier == "quick"

    # ------------------------------------------------------------------ corpus + generated GHE sequences
    specs = []
    cdir = core.CORPUS / "C13"
    mgr_corpus = []
    if cdir.exists():
        for f in sorted(cdir.glob("*.json")):
            j = json.loads(f.read_text())
            j["name"] = "corpus:" + f.stem
            (specs if j.get("kind") == "ghe" else mgr_corpus).append(j)
    specs += gen_repeat_specs(rng, 1 if quick else 6)
    specs += gen_ghe_specs(rng, 10 if quick else 80, ctx.tier)
    import time as _t
    t0 = _t.time()
    results = fresh_pool_map(ghe_worker, specs)
    ctx.extra["ghe_level_s"] = round(_t.time() - t0, 1)
    ctx.log(f"GHE level: {len(specs)} sequences in {ctx.extra['ghe_level_s']} s")
    lines, speclines = [], []
    for sp, rs_ in zip(specs, results):
        lines.append(ghe_model_line(sp, rs_))
        speclines.append(ghe_model_line(sp, rs_, "apispec"))
    mo = ctx.driver(lines + speclines)
    for i, (sp, rs_) in enumerate(zip(specs, results)):
        check_ghe(ctx, sp, rs_, mo[i] if mo else None, mo[len(specs) + i] if mo else None)
    ctx.count("ghe_sequences", len(specs))

    # ------------------------------------------------------------------ one input at a time, GHE level
    t0 = _t.time()
    oj = oneinput_jobs(rng, ctx.tier)
    check_oneinput(ctx, oj, fresh_pool_map(oneinput_worker, oj))
    ctx.extra["one_input_ghe_s"] = round(_t.time() - t0, 1)
    ctx.log(f"one input at a time (GHE level): {len(oj) // 2} pairs in {ctx.extra['one_input_ghe_s']} s")

    # ------------------------------------------------------------------ manager histories
    cfgs, others = base_configs(rng, ctx.tier)
    jobs = []
    # quick tier: one pool round (16 histories); thorough: every variant of every configuration
    quick_plan = {
        "near-square": ["baseline", "same-manager-find-twice-redesign", "rebuilt-manager", "permuted-setters-0", "other-design-first-same-manager",
                        "nominal-height-1", "nominal-height-500", "refused-calls-interleaved-0"],
        "rectangle": ["baseline", "permuted-setters-0", "other-design-first-other-manager", "nominal-height-500", "refused-calls-interleaved-0"],
        "bi-rectangle-constrained": ["baseline", "same-manager-find-twice", "permuted-setters-0", "rebuilt-manager"],
    }
    for cname, cfg in cfgs.items():
        for j in variants(cfg, rng.choice(others), rng, 1 if quick else 6, ctx.tier):
            if quick and j["name"] not in quick_plan.get(cname, []):
                continue
            j["config"] = cname
            jobs.append(j)
    jobs += reuse_jobs(ctx.tier)
    jobs += oneinput_mgr_jobs(rng, ctx.tier)
    jobs.sort(key=lambda j: -sum(1 for st in j["steps"] if st[0] == "find"))
    # boundary: nominal height 0 (constructor raises at the height it finds)
    c0 = dict(cfgs["near-square"], nominal_height=0.0)
    jobs.append({"name": "nominal-height-0", "config": "near-square", "steps": [("new",)] + full_run(0, c0, target=True), "bad": [0.0], "expect_raise": True})
    t0 = _t.time()
    res = fresh_pool_map(mgr_worker, jobs)
    ctx.extra["manager_level_s"] = round(_t.time() - t0, 1)
    ctx.log(f"manager level: {len(jobs)} histories in {ctx.extra['manager_level_s']} s")
    ctx.extra["implementation_module"] = res[0]["module"] if res else None
    mo = ctx.driver([model_line(r) for r in res])
    base = {}
    for j, r in zip(jobs, res):
        if j["name"] == "baseline":
            base[j["config"]] = r
    for i, (j, r) in enumerate(zip(jobs, res)):
        tf = [f for f in r["finds"] if f["target"]]
        nontrivial = any(sum(1 for s in f["script"] if s[0] == "e") >= 3 for f in tf)
        ctx.case(("history", j["config"], j["name"], tuple(j.get("order", []))), nontrivial,
                 {"config": j["config"], "variant": j["name"], "finds": len(r["finds"]), "boreholes": len(tf[-1]["result"]["coords"]) if tf and "result" in tf[-1] else None,
                  "H": tf[-1]["result"]["H"] if tf and "result" in tf[-1] else None})
        ctx.count("variant:" + j["name"].rstrip("0123456789.-"))
        ctx.count("config:" + j["config"])
        if j.get("one_input"):
            ctx.count("one_input_manager:" + j["one_input"])
        if j.get("reuse"):
            ctx.count("reuse:" + j["reuse"] + ":first=" + r["finds"][0]["outcome"] + ",second=" + r["finds"][-1]["outcome"])
        if j.get("expect_raise"):
            # boundary of the Safe hypothesis: both sides must raise, nothing else is compared
            ok = all(f["outcome"] != "ok" for f in r["finds"]) and (mo is None or "find:0 raise" in mo[i])
            ctx.count("nominal_height_0_raises" if ok else "nominal_height_0_unexpected")
            if not ok and "api-correspondence" not in ctx.broken:
                ctx.broken.append("api-correspondence")
                ctx.extra["api_first_disagreement"] = {"variant": j["name"], "impl": [f["outcome"] for f in r["finds"]], "model": mo[i][:200] if mo else None}
            continue
        check_variant(ctx, j["config"], base[j["config"]], r, mo[i] if mo else None)
    for cname, b in base.items():
        f = b["finds"][-1]
        ctx.extra.setdefault("baselines", {})[cname] = {"outcome": f["outcome"], "boreholes": len(f["result"]["coords"]) if "result" in f else None,
                                                        "H": f["result"]["H"] if "result" in f else None, "search_path": f["script"][:40],
                                                        "simulations": len(f["trace"])}
    ctx.programs = 2
    ctx.exhaustive = False
    if ctx.tier == "thorough":
        ctx.leanchecker(["GHEVerif.Props.C13", "GHEVerif.Lemmas.Api", "GHEVerif.Model.Api"])
