"""Shared helpers of the C17 / C18 checks: token encoding of JSON values for the Lean driver,
wrappers that run the real GHEDesigner code (API setters, write_input_file, validate_input_file,
the command-line worker with the design run stubbed out), generators of API configurations and
of corrupted input files, and an independent jsonschema oracle.
"""
from __future__ import annotations

import contextlib
import copy
import io
import json
import math
import os
import sys
import tempfile
from fractions import Fraction
from pathlib import Path

import core
import ghelib  # noqa: F401  (puts VERIF_REPO first on sys.path)

REPO = core.REPO
SCHEMAS = REPO / "ghedesigner" / "schemas"
DEMOS = REPO / "demos"
MODEL_ERRS = {"KeyError", "TypeError", "ValueError", "IndexError", "ZeroDivisionError"}


# ----------------------------------------------------------------------------- token encoding
class Rep:
    """An array of `n` copies of `v` (sent to the model as `r n v`)."""

    def __init__(self, n, v):
        self.n, self.v = n, v

    def expand(self):
        return [self.v] * self.n


_SAFE = set("abcdefghijklmnopqrstuvwxyzABCDEFGHIJKLMNOPQRSTUVWXYZ0123456789_.-")


def esc(s: str) -> str:
    if s == "":
        return "%"
    out = []
    for ch in s:
        if ch in _SAFE:
            out.append(ch)
        else:
            b = ord(ch)
            if b > 255:
                raise ValueError("non-latin character in a name sent to the model")
            out.append("%%%02x" % b)
    return "".join(out)


def unesc(s: str) -> str:
    if s == "%":
        return ""
    out, i = [], 0
    while i < len(s):
        if s[i] == "%":
            out.append(chr(int(s[i + 1:i + 3], 16)))
            i += 3
        else:
            out.append(s[i])
            i += 1
    return "".join(out)


def enc(v, out=None):
    """Python value -> token list."""
    top = out is None
    if top:
        out = []
    if v is None:
        out.append("z")
    elif v is True:
        out.append("t")
    elif v is False:
        out.append("f")
    elif isinstance(v, (int, float, Fraction)):
        out += ["n", core.rs(v)]
    elif isinstance(v, str):
        out += ["s", esc(v)]
    elif isinstance(v, Rep):
        out += ["r", str(v.n)]
        enc(v.v, out)
    elif isinstance(v, (list, tuple)):
        out += ["a", str(len(v))]
        for x in v:
            enc(x, out)
    elif isinstance(v, dict):
        out += ["o", str(len(v))]
        for k, x in v.items():
            out.append(esc(str(k)))
            enc(x, out)
    else:
        raise TypeError(f"cannot encode {type(v)}")
    return out


def dec(toks, i=0):
    """token list -> (value with Fractions, next index)"""
    t = toks[i]
    if t == "z":
        return None, i + 1
    if t == "t":
        return True, i + 1
    if t == "f":
        return False, i + 1
    if t == "n":
        return core.pr(toks[i + 1]), i + 2
    if t == "s":
        return unesc(toks[i + 1]), i + 2
    if t == "a":
        n = int(toks[i + 1])
        i += 2
        out = []
        for _ in range(n):
            v, i = dec(toks, i)
            out.append(v)
        return out, i
    if t == "o":
        n = int(toks[i + 1])
        i += 2
        d = {}
        for _ in range(n):
            k = unesc(toks[i])
            v, i = dec(toks, i + 1)
            d[k] = v
        return d, i
    raise ValueError(f"bad token {t!r}")


def model_reply(line: str):
    """'ok <tokens>' -> ('ok', value) ; 'raise X' -> ('raise', 'X') ; else ('bad', line)"""
    toks = line.split()
    if not toks:
        return "bad", line
    if toks[0] == "raise":
        return "raise", toks[1]
    if toks[0] == "ok":
        try:
            v, j = dec(toks, 1)
        except (ValueError, IndexError):
            return "bad", line
        return "ok", v
    return "bad", line


def exact(v):
    """Python JSON-like value -> same shape with every number an exact Fraction (bools kept)."""
    if isinstance(v, bool) or v is None or isinstance(v, str):
        return v
    if isinstance(v, (int, float)):
        if isinstance(v, float) and not math.isfinite(v):
            return repr(v)
        return Fraction(v)
    if isinstance(v, Fraction):
        return v
    if isinstance(v, Rep):
        return [exact(v.v)] * v.n
    if isinstance(v, (list, tuple)):
        return [exact(x) for x in v]
    if isinstance(v, dict):
        return {str(k): exact(x) for k, x in v.items()}
    return repr(v)


def first_diff(a, b, path="", approx=()):
    """First difference between two exact() values; numbers on a path ending in one of `approx`
    are compared to 1e-12 relative (values the model computes with a rational stand-in for pi)."""
    if isinstance(a, dict) and isinstance(b, dict):
        for k in sorted(set(a) | set(b)):
            if k not in a or k not in b:
                return f"{path}/{k}: only on one side"
            d = first_diff(a[k], b[k], f"{path}/{k}", approx)
            if d:
                return d
        return None
    if isinstance(a, list) and isinstance(b, list):
        if len(a) != len(b):
            return f"{path}: lengths {len(a)} vs {len(b)}"
        for i, (x, y) in enumerate(zip(a, b)):
            d = first_diff(x, y, f"{path}[{i}]", approx)
            if d:
                return d
        return None
    if isinstance(a, Fraction) and isinstance(b, Fraction) and not isinstance(a, bool):
        if a == b:
            return None
        if any(path.endswith(s) for s in approx) and abs(a - b) <= Fraction(1, 10 ** 12) * max(1, abs(b)):
            return None
        return f"{path}: {float(a)!r} vs {float(b)!r}"
    if type(a) is not type(b) or a != b:
        return f"{path}: {a!r} vs {b!r}"
    return None


# ----------------------------------------------------------------------------- the real code
def err_name(e: BaseException) -> str:
    n = type(e).__name__
    return n if n in MODEL_ERRS else "Exception"


@contextlib.contextmanager
def silent():
    out, err = io.StringIO(), io.StringIO()
    with contextlib.redirect_stdout(out), contextlib.redirect_stderr(err):
        yield out, err


def real_build(calls):
    """Run API calls [(setter, kwargs)] on a fresh GHEManager."""
    from ghedesigner.manager import GHEManager

    m = GHEManager()
    for setter, kw in calls:
        kw = {k: (v.expand() if isinstance(v, Rep) else v) for k, v in kw.items()}
        getattr(m, setter)(**kw)
    return m


def try_build(calls):
    """('ok', manager) or ('rejected', setter, exception name, message): the API did not accept the call."""
    from ghedesigner.manager import GHEManager

    m = GHEManager()
    for setter, kw in calls:
        kw = {k: (v.expand() if isinstance(v, Rep) else v) for k, v in kw.items()}
        try:
            with silent():
                getattr(m, setter)(**kw)
        except Exception as e:  # noqa: BLE001
            return ("rejected", setter, type(e).__name__, str(e)[:120])
    return ("ok", m)


def dump_state(m):
    """The slots write_input_file reads, under the attribute names the model's Mgr.toJson uses."""
    def g(o, f):
        return None if o is None else f(o)

    def geom(o):
        d = {"class": type(o).__name__}
        for a in ("b", "length", "width", "b_min", "b_max_x", "b_max_y", "perimeter_spacing_ratio", "min_spacing", "max_spacing",
                  "spacing_step", "min_rotation", "max_rotation", "rotate_step", "property_boundary", "no_go_boundaries",
                  "min_rotation_deg", "max_rotation_deg"):
            if hasattr(o, a):
                d[a] = getattr(o, a)
        return d

    return {
        "fluid": g(m._fluid, lambda f: {"fluid_type": f.fluid_type.name, "concentration_percent": f.concentration_percent, "temperature": f.temperature}),
        "grout": g(m._grout, lambda t: {"k": t.k, "rhoCp": t.rhoCp}),
        "soil": g(m._soil, lambda s: {"k": s.k, "rhoCp": s.rhoCp, "ugt": s.ugt}),
        "pipe": g(m._pipe, lambda p: {"r_in": p.r_in, "r_out": p.r_out, "s": p.s, "k": p.k, "roughness": p.roughness, "rhoCp": p.rhoCp}),
        "pipe_type": g(m.pipe_type, lambda t: t.name),
        "borehole": g(m._borehole, lambda b: {"H": b.H, "D": b.D, "r_b": b.r_b}),
        "sim": g(m._simulation_parameters, lambda p: {"end_month": p.end_month, "max_EFT_allowable": p.max_EFT_allowable,
                                                      "min_EFT_allowable": p.min_EFT_allowable, "max_height": p.max_height, "min_height": p.min_height,
                                                      "max_boreholes": p.max_boreholes, "continue_if_design_unmet": p.continue_if_design_unmet}),
        "loads": g(m._ground_loads, list),
        "geom_type": g(m.geom_type, lambda t: t.name),
        "geom": g(m._geometric_constraints, geom),
        "design": g(m._design, lambda d: {"class": type(d).__name__, "V_flow": d.V_flow, "flow_type": d.flow_type.name}),
    }


APPROX = ("/min_rotation", "/max_rotation")


class Captured(Exception):
    pass


@contextlib.contextmanager
def stubbed_run(record):
    """Replace the design run of the worker: find_design records the manager and stops nothing."""
    from ghedesigner.manager import GHEManager

    saved = (GHEManager.find_design, GHEManager.prepare_results, GHEManager.write_output_files)

    def find_design(self, throw=True):
        record["manager"] = self
        record["steps"].append("find_design")
        return 0

    def prepare_results(self, *a, **k):
        record["steps"].append("prepare_results")

    def write_output_files(self, *a, **k):
        record["steps"].append("write_output_files")

    GHEManager.find_design, GHEManager.prepare_results, GHEManager.write_output_files = find_design, prepare_results, write_output_files
    try:
        yield
    finally:
        GHEManager.find_design, GHEManager.prepare_results, GHEManager.write_output_files = saved


def real_validate(path: Path):
    """('ok', n) or ('raise', name); stderr text third."""
    from ghedesigner.validate import validate_input_file

    with silent() as (_, err):
        try:
            r = ("ok", int(validate_input_file(path)))
        except Exception as e:  # noqa: BLE001
            r = ("raise", err_name(e))
    return r + (err.getvalue(),)


def real_load(path: Path, outdir: Path):
    """Worker with the design run stubbed: ('ok', ret, manager-or-None, steps) or ('raise', name)."""
    from ghedesigner import manager as mgr

    rec = {"manager": None, "steps": []}
    with stubbed_run(rec), silent():
        try:
            ret = mgr._run_manager_from_cli_worker(path, outdir)
        except Exception as e:  # noqa: BLE001
            return ("raise", err_name(e), rec["manager"], rec["steps"])
    return ("ok", ret, rec["manager"], rec["steps"])


# ----------------------------------------------------------------------------- independent schema oracle
_schema_cache = {}


def schema(name):
    if name not in _schema_cache:
        _schema_cache[name] = json.loads((SCHEMAS / name).read_text())
    return _schema_cache[name]


PIPE_SCHEMA = {"SINGLEUTUBE": "pipe_single_double_u_tube.schema.json", "DOUBLEUTUBESERIES": "pipe_single_double_u_tube.schema.json",
               "DOUBLEUTUBEPARALLEL": "pipe_single_double_u_tube.schema.json", "COAXIAL": "pipe_coaxial.schema.json"}
GEOM_SCHEMA = {"BIRECTANGLE": "geometric_bi_rectangle.schema.json", "BIRECTANGLECONSTRAINED": "geometric_bi_rectangle_constrained.schema.json",
               "BIZONEDRECTANGLE": "geometric_bi_zoned_rectangle.schema.json", "NEARSQUARE": "geometric_near_square.schema.json",
               "RECTANGLE": "geometric_rectangle.schema.json", "ROWWISE": "geometric_rowwise.schema.json"}
SECTION_SCHEMA = {"fluid": "fluid.schema.json", "grout": "grout.schema.json", "soil": "soil.schema.json", "borehole": "borehole.schema.json",
                  "simulation": "simulation.schema.json", "design": "design.schema.json", "loads": "loads.schema.json"}
CASE_FREE = {"fluid": "fluid_name", "pipe": "arrangement", "simulation": "timestep", "geometric_constraints": "method", "design": "flow_type"}
SECTIONS = ["fluid", "grout", "soil", "pipe", "borehole", "simulation", "geometric_constraints", "design", "loads"]


def oracle_sections(doc):
    """Per-section verdict computed here with jsonschema directly (the property's reading of
    "every section satisfies its schema, whatever the letter case of the five names"):
    {section: True/False} plus "file_structure".  `None` for a section that is absent or not an
    object (the tool's verdict is then an exception or an error, either way "not valid")."""
    import jsonschema

    def ok(sname, inst):
        try:
            jsonschema.Draft4Validator(schema(sname)).validate(inst)
            return True
        except jsonschema.ValidationError:
            return False

    res = {"file_structure": ok("file_structure.schema.json", doc)}
    if not isinstance(doc, dict):
        return {**res, **{s: None for s in SECTIONS}}
    for s in SECTIONS:
        inst = doc.get(s)
        if not isinstance(inst, dict):
            res[s] = None
            continue
        inst = copy.deepcopy(inst)
        k = CASE_FREE.get(s)
        if k is not None and isinstance(inst.get(k), str):
            inst[k] = inst[k].upper()
        if s == "pipe":
            sch = PIPE_SCHEMA.get(inst.get("arrangement")) if isinstance(inst.get("arrangement"), str) else None
        elif s == "geometric_constraints":
            sch = GEOM_SCHEMA.get(inst.get("method")) if isinstance(inst.get("method"), str) else None
        else:
            sch = SECTION_SCHEMA[s]
        if s == "loads":
            # written out by hand (cheaper than jsonschema on 8760 items, and shares nothing with it): an object with a
            # `ground_loads` array of exactly 8760 JSON numbers; `heat_pump_loads`, when present, the same
            def hourly(v):
                return isinstance(v, list) and len(v) == 8760 and all(isinstance(x, (int, float)) and not isinstance(x, bool) for x in v)
            res[s] = "ground_loads" in inst and hourly(inst["ground_loads"]) and ("heat_pump_loads" not in inst or hourly(inst["heat_pump_loads"]))
            continue
        # a name that must be upper-cased but is missing makes the section invalid
        if k is not None and k not in inst and s != "simulation":
            res[s] = False
            continue
        res[s] = False if sch is None else ok(sch, inst)
    return res


def oracle_valid(doc) -> bool:
    r = oracle_sections(doc)
    return all(v is True for v in r.values())


# ----------------------------------------------------------------------------- generators
FLUIDS = ["Water", "EthylAlcohol", "EthyleneGlycol", "MethylAlcohol", "PropyleneGlycol"]
PIPES = ["single", "doublePar", "doubleSer", "coaxial"]
GEOMS = ["NEARSQUARE", "RECTANGLE", "BIRECTANGLE", "BIZONEDRECTANGLE", "BIRECTANGLECONSTRAINED", "ROWWISE", "ROWWISE_NORATIO"]


def recase(rng, s):
    k = rng.randrange(4)
    if k == 0:
        return s.upper()
    if k == 1:
        return s.lower()
    if k == 2:
        return s
    return "".join(ch.upper() if rng.random() < 0.5 else ch.lower() for ch in s)


def awkward(rng, lo, hi, allow_int=True):
    """A number in [lo, hi]: awkward decimals, integers, floats with many digits, the bounds."""
    k = rng.randrange(8)
    if k == 0 and allow_int:
        return rng.randint(math.ceil(lo), math.floor(hi)) if math.ceil(lo) <= math.floor(hi) else lo
    if k == 1:
        return round(rng.uniform(lo, hi), rng.randint(1, 3))
    if k == 2:
        return rng.choice([lo, hi])
    if k == 3:
        return min(hi, float(rng.choice([0.1, 0.2, 0.3, 0.7, 0.57, 0.999, 1e-3, 1 / 3])) * (hi - lo) + lo)
    if k == 4:
        return math.nextafter(rng.uniform(lo, hi), math.inf)
    return rng.uniform(lo, hi)


def polygon(rng, n=None, closed=False):
    """A star-shaped outline; `closed`: given as a closed ring (first vertex repeated at the end, the GIS export form)."""
    if closed:
        pts = polygon(rng, n)
        return pts + [list(pts[0])]
    n = n or rng.randint(3, 7)
    cx, cy, r = rng.uniform(30, 60), rng.uniform(30, 60), rng.uniform(10, 30)
    angs = sorted(rng.uniform(0, 2 * math.pi) for _ in range(n))
    pts = [[max(0.0, cx + r * math.cos(a)), max(0.0, cy + r * math.sin(a))] for a in angs]
    if rng.random() < 0.3:
        pts = [[float(round(x)), float(round(y))] for x, y in pts]
    if rng.random() < 0.2:
        pts = [[int(round(x)), int(round(y))] for x, y in pts]
    return pts


def gen_config(rng, geom=None, pipe=None, fluid=None, cap=None, cont=None, loads=None, flow=None, rotations=None, polyshape=None):
    """A configuration in the documented domain, as the list of API calls [(setter, kwargs)] plus a
    descriptor.  `loads` is a list of 8760 numbers or a Rep."""
    geom = geom or rng.choice(GEOMS)
    pipe = pipe or rng.choice(PIPES)
    fluid = fluid or rng.choice(FLUIDS)
    cap = rng.random() < 0.5 if cap is None else cap
    cont = rng.random() < 0.5 if cont is None else cont
    calls = []
    pc = 0.0 if fluid == "Water" and rng.random() < 0.7 else awkward(rng, 0, 60)
    calls.append(("set_fluid", {"fluid_name": recase(rng, fluid), "concentration_percent": pc, "temperature": awkward(rng, -5, 45)}))
    calls.append(("set_grout", {"conductivity": awkward(rng, 0.4, 3), "rho_cp": awkward(rng, 1e6, 5e6)}))
    calls.append(("set_soil", {"conductivity": awkward(rng, 0.5, 5), "rho_cp": awkward(rng, 1e6, 4e6), "undisturbed_temp": awkward(rng, -2, 30)}))
    if pipe == "coaxial":
        a = awkward(rng, 0.03, 0.05, False)
        b = a + awkward(rng, 0.003, 0.01, False)
        c = b + awkward(rng, 0.02, 0.05, False)
        d = c + awkward(rng, 0.005, 0.02, False)
        calls.append(("set_coaxial_pipe", {"inner_pipe_d_in": a, "inner_pipe_d_out": b, "outer_pipe_d_in": c, "outer_pipe_d_out": d,
                                           "roughness": rng.choice([1.0e-6, 0.0, 1.5e-5]), "conductivity_inner": awkward(rng, 0.2, 0.6),
                                           "conductivity_outer": awkward(rng, 0.2, 0.6), "rho_cp": awkward(rng, 1e6, 2e6)}))
    else:
        setter = {"single": "set_single_u_tube_pipe", "doublePar": "set_double_u_tube_pipe_parallel", "doubleSer": "set_double_u_tube_pipe_series"}[pipe]
        din = awkward(rng, 0.02, 0.04, False)
        calls.append((setter, {"inner_diameter": din, "outer_diameter": din + awkward(rng, 0.004, 0.01, False), "shank_spacing": awkward(rng, 0.0, 0.05, False),
                               "roughness": rng.choice([1.0e-6, 0.0, 1.5e-5]), "conductivity": awkward(rng, 0.2, 0.6), "rho_cp": awkward(rng, 1e6, 2e6)}))
    min_h = awkward(rng, 20, 80)
    max_h = min_h + awkward(rng, 10, 300)
    calls.append(("set_borehole", {"height": awkward(rng, 20, 400), "buried_depth": awkward(rng, 0, 6), "diameter": awkward(rng, 0.09, 0.25, False)}))
    sim = {"num_months": rng.choice([1, 12, 24, 120, 240, 360]), "max_eft": awkward(rng, 25, 45), "min_eft": awkward(rng, -5, 10),
           "max_height": max_h, "min_height": min_h}
    if cap:
        sim["max_boreholes"] = rng.randint(1, 500)
    if cont:
        sim["continue_if_design_unmet"] = True
    elif rng.random() < 0.3:
        sim["continue_if_design_unmet"] = False
    calls.append(("set_simulation_parameters", sim))
    if loads is None:
        loads = Rep(8760, awkward(rng, -5e4, 5e4))
    calls.append(("set_ground_loads_from_hourly_list", {"hourly_ground_loads": loads}))
    bmin = awkward(rng, 2, 6)
    if geom == "NEARSQUARE":
        calls.append(("set_geometry_constraints_near_square", {"b": bmin, "length": awkward(rng, 20, 200)}))
    elif geom == "RECTANGLE":
        calls.append(("set_geometry_constraints_rectangle", {"length": awkward(rng, 20, 200), "width": awkward(rng, 20, 200), "b_min": bmin, "b_max": bmin + awkward(rng, 0, 10)}))
    elif geom in ("BIRECTANGLE", "BIZONEDRECTANGLE"):
        setter = "set_geometry_constraints_bi_rectangle" if geom == "BIRECTANGLE" else "set_geometry_constraints_bi_zoned_rectangle"
        hi = 200 if geom == "BIRECTANGLE" else 70
        calls.append((setter, {"length": awkward(rng, 20, hi), "width": awkward(rng, 20, hi), "b_min": bmin,
                               "b_max_x": bmin + awkward(rng, 0, 10), "b_max_y": bmin + awkward(rng, 0, 10)}))
    elif geom == "BIRECTANGLECONSTRAINED":
        # outline forms: flat or nested property boundary, none / one flat / several no-go zones, each open or a closed ring
        shape = rng.randrange(4) if polyshape is None else polyshape
        ring_p = rng.random() < 0.4 if polyshape is None else polyshape in (1, 2)
        ring_n = rng.random() < 0.4 if polyshape is None else polyshape in (1, 2)
        pb = polygon(rng, closed=ring_p)
        ng = [polygon(rng, rng.choice([3, 4, 5]), closed=ring_n) for _ in range(rng.randint(0, 2) if polyshape is None else (2 if polyshape == 1 else (1 if polyshape in (0, 2) else 0)))]
        if shape == 1:
            pb = [pb]                       # already a list of polygons
        if shape == 2 and ng:
            ng = ng[0]                      # a single flat no-go polygon: the constructor wraps it
        calls.append(("set_geometry_constraints_bi_rectangle_constrained", {"b_min": bmin, "b_max_x": bmin + awkward(rng, 0, 10),
                                                                            "b_max_y": bmin + awkward(rng, 0, 10), "property_boundary": pb, "no_go_boundaries": ng}))
    else:
        lo = rng.choice([-90, -90.0, -60, -45.5, -30, 0, rng.randrange(-180, 1) / 2])
        hi = rng.choice([90, 90.0, 60.0, 45.5, 30, 0, rng.randrange(0, 181) / 2])
        if rotations is not None:
            lo, hi = rotations
        calls.append(("set_geometry_constraints_rowwise", {
            "perimeter_spacing_ratio": None if geom == "ROWWISE_NORATIO" else awkward(rng, 0.2, 1.2), "max_spacing": bmin + awkward(rng, 0, 10),
            "min_spacing": bmin, "spacing_step": awkward(rng, 0.05, 1), "max_rotation": hi, "min_rotation": lo, "rotate_step": awkward(rng, 0.5, 15),
            "property_boundary": polygon(rng, closed=rng.random() < 0.3),
            "no_go_boundaries": [polygon(rng, 3, closed=rng.random() < 0.3) for _ in range(rng.randint(0, 2))]}))
    calls.append(("set_design", {"flow_rate": awkward(rng, 0.05, 2.0), "flow_type_str": recase(rng, flow or rng.choice(["BOREHOLE", "SYSTEM"]))}))
    desc = {"geom": geom, "pipe": pipe, "fluid": fluid, "cap": cap, "cont": cont, "flow": calls[-1][1]["flow_type_str"].upper()}
    return calls, desc


def calls_for_model(calls):
    return [[s, kw] for s, kw in calls]


def calls_jsonable(calls):
    out = []
    for s, kw in calls:
        kw2 = {}
        for k, v in kw.items():
            kw2[k] = {"__rep__": [v.n, v.v]} if isinstance(v, Rep) else v
        out.append([s, kw2])
    return out


def calls_from_jsonable(data):
    out = []
    for s, kw in data:
        kw2 = {}
        for k, v in kw.items():
            kw2[k] = Rep(v["__rep__"][0], v["__rep__"][1]) if isinstance(v, dict) and "__rep__" in v else v
        out.append((s, kw2))
    return out


def compress_loads(doc):
    """Replace a constant ground_loads list by a Rep (keeps the line to the model short)."""
    try:
        gl = doc["loads"]["ground_loads"]
    except (KeyError, TypeError):
        return doc
    if isinstance(gl, list) and len(gl) > 64 and all(type(x) is type(gl[0]) and x == gl[0] for x in gl):
        doc = dict(doc)
        doc["loads"] = dict(doc["loads"])
        doc["loads"]["ground_loads"] = Rep(len(gl), gl[0])
    return doc


# ----------------------------------------------------------------------------- corrupted input files (C18)
def base_documents():
    """Valid starting points: three demo files (near-square / single U-tube, RowWise, rectangle / coaxial)
    and the bi-rectangle-constrained demo, with a simulation section that carries the optional names."""
    names = ["find_design_near_square_single_u_tube.json", "find_design_rowwise_single_u_tube.json",
             "find_design_rectangle_coaxial.json", "find_design_bi_rectangle_constrained_single_u_tube.json"]
    docs = []
    for n in names:
        d = json.loads((DEMOS / n).read_text())
        # a constant load list keeps the lines to the Lean driver short (the validators only look at length and element type)
        d["loads"]["ground_loads"] = [float(d["loads"]["ground_loads"][100])] * len(d["loads"]["ground_loads"])
        docs.append((n.replace("find_design_", "").replace(".json", ""), d))
    docs[0][1]["simulation"]["timestep"] = "HYBRID"
    docs[0][1]["simulation"]["start_month"] = "JANUARY"
    docs[0][1]["design"]["max_boreholes"] = 300
    docs[0][1]["design"]["continue_if_design_unmet"] = True
    return docs


def _schema_for(section, inst):
    if section == "pipe":
        a = inst.get("arrangement")
        return schema(PIPE_SCHEMA.get(a.upper(), "pipe_coaxial.schema.json")) if isinstance(a, str) else None
    if section == "geometric_constraints":
        a = inst.get("method")
        return schema(GEOM_SCHEMA[a.upper()]) if isinstance(a, str) and a.upper() in GEOM_SCHEMA else None
    return schema(SECTION_SCHEMA[section])


def mutants(doc, rng):
    """(label, mutated document) for every single-field corruption of a valid document."""
    def put(section, key, value):
        d = copy.copy(doc)
        d[section] = dict(doc[section])
        d[section][key] = value
        return d

    out = []
    for k in list(doc):
        d = dict(doc)
        del d[k]
        out.append((f"del-section:{k}", d))
        for lab, v in (("null", None), ("list", []), ("string", "x"), ("number", 3)):
            if k == "version" and lab == "string":
                continue
            d = dict(doc)
            d[k] = v
            out.append((f"section-{lab}:{k}", d))
    d = dict(doc)
    d["extra_section"] = {"a": 1}
    out.append(("extra-section", d))
    for section in SECTIONS:
        inst = doc[section]
        sch = _schema_for(section, inst) or {}
        props = sch.get("properties", {})
        for key, val in inst.items():
            d = copy.copy(doc)
            d[section] = {k: v for k, v in inst.items() if k != key}
            out.append((f"del:{section}.{key}", d))
            ps = props.get(key, {})
            if isinstance(val, bool):
                for lab, v in (("string", "true"), ("int", 1), ("null", None)):
                    out.append((f"type-{lab}:{section}.{key}", put(section, key, v)))
            elif isinstance(val, (int, float)):
                for lab, v in (("string", str(val)), ("bool", True), ("null", None), ("list", [val]), ("object", {"v": val})):
                    out.append((f"type-{lab}:{section}.{key}", put(section, key, v)))
                if "minimum" in ps:
                    m = ps["minimum"]
                    out.append((f"below-min:{section}.{key}", put(section, key, m - 1)))
                    out.append((f"just-below-min:{section}.{key}", put(section, key, math.nextafter(float(m), -math.inf))))
                    out.append((f"at-min:{section}.{key}", put(section, key, m)))
                if "maximum" in ps:
                    m = ps["maximum"]
                    out.append((f"above-max:{section}.{key}", put(section, key, m + 0.5)))
                    out.append((f"just-above-max:{section}.{key}", put(section, key, math.nextafter(float(m), math.inf))))
                    out.append((f"at-max:{section}.{key}", put(section, key, m)))
                out.append((f"negative:{section}.{key}", put(section, key, -abs(val) - 1)))
                out.append((f"larger:{section}.{key}", put(section, key, abs(val) * 2 + 10)))
                out.append((f"int-for-float:{section}.{key}", put(section, key, int(val) if val == int(val) else int(val) + 1)))
            elif isinstance(val, str):
                for lab, v in (("number", 5), ("null", None), ("bool", False), ("list", [val])):
                    out.append((f"type-{lab}:{section}.{key}", put(section, key, v)))
                out.append((f"unknown-enum:{section}.{key}", put(section, key, "XYZ")))
                out.append((f"empty-string:{section}.{key}", put(section, key, "")))
                out.append((f"lower-case:{section}.{key}", put(section, key, val.lower())))
                out.append((f"mixed-case:{section}.{key}", put(section, key, "".join(c.upper() if i % 2 else c.lower() for i, c in enumerate(val)))))
                out.append((f"padded:{section}.{key}", put(section, key, " " + val)))
                if key in ("method", "arrangement"):
                    other = {"method": ["NEARSQUARE", "RECTANGLE", "ROWWISE", "BIRECTANGLE"], "arrangement": ["COAXIAL", "SINGLEUTUBE", "DOUBLEUTUBESERIES"]}[key]
                    for o in other:
                        if o != val.upper():
                            out.append((f"other-{o}:{section}.{key}", put(section, key, o)))
            elif isinstance(val, list) and key != "ground_loads":
                out.append((f"type-string:{section}.{key}", put(section, key, "x")))
                out.append((f"type-object:{section}.{key}", put(section, key, {})))
                out.append((f"type-null:{section}.{key}", put(section, key, None)))
                out.append((f"empty-list:{section}.{key}", put(section, key, [])))
                flat = val if val and isinstance(val[0][0], (int, float)) else (val[0] if val else [])
                if flat:
                    neg = [list(p) for p in flat]
                    neg[0][0] = -1.0
                    three = [list(p) for p in flat]
                    three[0] = three[0] + [0.0]
                    strp = [list(p) for p in flat]
                    strp[0][1] = "1"
                    wrap = (lambda q: q) if (val and isinstance(val[0][0], (int, float))) else (lambda q: [q])
                    out.append((f"negative-coordinate:{section}.{key}", put(section, key, wrap(neg))))
                    out.append((f"three-coordinates:{section}.{key}", put(section, key, wrap(three))))
                    out.append((f"string-coordinate:{section}.{key}", put(section, key, wrap(strp))))
                    out.append((f"other-nesting:{section}.{key}", put(section, key, [val] if wrap([1]) == [1] else flat)))
        out.append((f"extra-key:{section}", put(section, "zz_extra", 1)))
    gl = doc["loads"]["ground_loads"]
    for lab, v in (("8759", gl[:-1]), ("8761", gl + [0.0]), ("100", gl[:100]), ("empty", []), ("string-element", gl[:5] + ["1"] + gl[6:]),
                   ("bool-element", gl[:5] + [True] + gl[6:]), ("null-element", gl[:5] + [None] + gl[6:]), ("ints", [int(x) for x in gl]),
                   ("type-object", {}), ("type-string", "x")):
        out.append((f"loads-{lab}", put("loads", "ground_loads", v)))
    out.append(("heat-pump-loads-short", put("loads", "heat_pump_loads", [0.0] * 10)))
    out.append(("valid-unchanged", copy.copy(doc)))
    return out


# ----------------------------------------------------------------------------- the configuration handed to the setters
PIPE_SETTERS = {"set_single_u_tube_pipe": "SINGLEUTUBE", "set_double_u_tube_pipe_parallel": "DOUBLEUTUBEPARALLEL",
                "set_double_u_tube_pipe_series": "DOUBLEUTUBESERIES", "set_coaxial_pipe": "COAXIAL"}
GEOM_SETTERS = {"set_geometry_constraints_near_square": "NEARSQUARE", "set_geometry_constraints_rectangle": "RECTANGLE",
                "set_geometry_constraints_bi_rectangle": "BIRECTANGLE", "set_geometry_constraints_bi_zoned_rectangle": "BIZONEDRECTANGLE",
                "set_geometry_constraints_bi_rectangle_constrained": "BIRECTANGLECONSTRAINED", "set_geometry_constraints_rowwise": "ROWWISE"}


def _nested(polys):
    """The documented reading of a constrained-geometry boundary argument: one polygon or a list of polygons."""
    if len(polys) > 0 and isinstance(polys[0][0], (int, float)) and not isinstance(polys[0][0], bool):
        return [polys]
    return polys


def api_config_file(calls):
    """What the input file of this configuration has to say, computed from the harness's own record of every setter
    argument (the last call of each kind wins) and the documented meaning of the file's fields — no tool code, no
    manager state.  The `version` entry is left out."""
    last = {}
    for s, kw in calls:
        kw = {k: (v.expand() if isinstance(v, Rep) else v) for k, v in kw.items()}
        if s in PIPE_SETTERS:
            last["pipe"] = (s, kw)
        elif s in GEOM_SETTERS:
            last["geom"] = (s, kw)
        else:
            last[s] = kw
    f, gr, so, bh = last["set_fluid"], last["set_grout"], last["set_soil"], last["set_borehole"]
    sim, des = last["set_simulation_parameters"], last["set_design"]
    ps, pk = last["pipe"]
    pipe = {k: v for k, v in pk.items()}
    pipe["arrangement"] = PIPE_SETTERS[ps]
    gs, gk = last["geom"]
    geo = {k: v for k, v in gk.items()}
    geo["method"] = GEOM_SETTERS[gs]
    if gs == "set_geometry_constraints_bi_rectangle_constrained":
        geo["property_boundary"] = _nested(gk["property_boundary"])
        geo["no_go_boundaries"] = _nested(gk["no_go_boundaries"])
    if gs == "set_geometry_constraints_rowwise" and gk.get("perimeter_spacing_ratio") is None:
        geo.pop("perimeter_spacing_ratio", None)
    geo["max_height"], geo["min_height"] = sim["max_height"], sim["min_height"]
    design = {"flow_rate": des["flow_rate"], "flow_type": des["flow_type_str"].upper(), "max_eft": sim["max_eft"], "min_eft": sim["min_eft"]}
    if sim.get("max_boreholes") is not None:
        design["max_boreholes"] = sim["max_boreholes"]
    if sim.get("continue_if_design_unmet") is True:
        design["continue_if_design_unmet"] = True
    return {
        "fluid": {"fluid_name": f["fluid_name"].upper(), "concentration_percent": f["concentration_percent"], "temperature": f["temperature"]},
        "grout": {"conductivity": gr["conductivity"], "rho_cp": gr["rho_cp"]},
        "soil": {"conductivity": so["conductivity"], "rho_cp": so["rho_cp"], "undisturbed_temp": so["undisturbed_temp"]},
        "pipe": pipe,
        "borehole": {"buried_depth": bh["buried_depth"], "diameter": bh["diameter"]},
        "simulation": {"num_months": sim["num_months"]},
        "geometric_constraints": geo,
        "design": design,
        "loads": {"ground_loads": list(last["set_ground_loads_from_hourly_list"]["hourly_ground_loads"])},
    }


def api_config_state(calls):
    """The same record as the attributes a manager holding this configuration must show (subset of dump_state:
    everything that has one documented value; radii are the given diameters halved)."""
    f = api_config_file(calls)
    p, g, d = f["pipe"], f["geometric_constraints"], f["design"]
    if p["arrangement"] == "COAXIAL":
        pipe = {"r_in": [p["inner_pipe_d_in"] / 2.0, p["inner_pipe_d_out"] / 2.0], "r_out": [p["outer_pipe_d_in"] / 2.0, p["outer_pipe_d_out"] / 2.0],
                "k": [p["conductivity_inner"], p["conductivity_outer"]], "roughness": p["roughness"], "rhoCp": p["rho_cp"]}
    else:
        pipe = {"r_in": p["inner_diameter"] / 2.0, "r_out": p["outer_diameter"] / 2.0, "s": p["shank_spacing"], "k": p["conductivity"],
                "roughness": p["roughness"], "rhoCp": p["rho_cp"]}
    geom = {}
    ren = {"b_max": "b_max_x", "min_rotation": "min_rotation_deg", "max_rotation": "max_rotation_deg"}
    for k, v in g.items():
        if k in ("method", "max_height", "min_height"):
            continue
        geom[ren.get(k, k)] = v
    if g["method"] == "ROWWISE" and "perimeter_spacing_ratio" not in g:
        geom["perimeter_spacing_ratio"] = None
    return {
        "fluid": {"fluid_type": f["fluid"]["fluid_name"], "concentration_percent": f["fluid"]["concentration_percent"], "temperature": f["fluid"]["temperature"]},
        "grout": {"k": f["grout"]["conductivity"], "rhoCp": f["grout"]["rho_cp"]},
        "soil": {"k": f["soil"]["conductivity"], "rhoCp": f["soil"]["rho_cp"], "ugt": f["soil"]["undisturbed_temp"]},
        "pipe": pipe,
        "pipe_type": p["arrangement"],
        "borehole": {"D": f["borehole"]["buried_depth"], "r_b": f["borehole"]["diameter"] / 2.0},
        "sim": {"end_month": f["simulation"]["num_months"], "max_EFT_allowable": d["max_eft"], "min_EFT_allowable": d["min_eft"],
                "max_height": g["max_height"], "min_height": g["min_height"], "max_boreholes": d.get("max_boreholes"),
                "continue_if_design_unmet": bool(d.get("continue_if_design_unmet", False))},
        "loads": f["loads"]["ground_loads"],
        "geom": geom,
        "design": {"V_flow": d["flow_rate"], "flow_type": d["flow_type"]},
    }


def first_diff_subset(want, got, path=""):
    """first_diff restricted to the keys of `want` (dicts) — `got` may carry more."""
    if isinstance(want, dict) and isinstance(got, dict):
        for k in sorted(want):
            if k not in got:
                return f"{path}/{k}: missing"
            d = first_diff_subset(want[k], got[k], f"{path}/{k}")
            if d:
                return d
        return None
    return first_diff(want, got, path)
