"""Builders for real GHEDesigner objects, shared by the per-property harness modules.

Everything here calls the implementation under /repo in-process (the repo is an
editable install of /venv).  Random choices come from the `random.Random` passed in.
"""
from __future__ import annotations

import contextlib
import io
import math
import os
import sys
from pathlib import Path

os.environ.setdefault("OMP_NUM_THREADS", "1")

REPO = Path(os.environ.get("VERIF_REPO", "/repo"))
if str(REPO) not in sys.path:
    sys.path.insert(0, str(REPO))

ATLANTA = REPO / "ghedesigner" / "tests" / "test_data" / "Atlanta_Office_Building_Loads.csv"

_atl = None


def atlanta_loads():
    global _atl
    if _atl is None:
        rows = ATLANTA.read_text().splitlines()
        _atl = [float(r.split(",")[0]) for r in rows[1:] if r.strip()]
        assert len(_atl) == 8760, len(_atl)
    return list(_atl)


@contextlib.contextmanager
def quiet():
    """Silence the implementation's print() chatter."""
    buf = io.StringIO()
    with contextlib.redirect_stdout(buf):
        yield buf


# ----------------------------------------------------------------------------- load profiles
def month_starts():
    days = [31, 28, 31, 30, 31, 30, 31, 31, 30, 31, 30, 31]
    s, out = 0, []
    for d in days:
        out.append(s)
        s += 24 * d
    return out, days


def make_profile(rng, kind=None, scale=None):
    """8760 hourly ground loads in W (extraction positive, rejection negative)."""
    kind = kind or rng.choice(["atlanta", "atlanta_neg", "balanced", "spiky", "constant", "heating_only", "cooling_only"])
    if kind == "atlanta":
        base = atlanta_loads()
    elif kind == "atlanta_neg":
        base = [-x for x in atlanta_loads()]
    elif kind == "balanced":
        ph = rng.uniform(0, 2 * math.pi)
        amp = 60000.0
        base = [amp * math.sin(2 * math.pi * h / 8760 + ph) + 0.2 * amp * math.sin(2 * math.pi * h / 24) + rng.gauss(0, 0.05 * amp) for h in range(8760)]
    elif kind == "spiky":
        base = [rng.uniform(-8000, 8000) for _ in range(8760)]
        for _ in range(rng.randint(3, 12)):
            base[rng.randrange(8760)] = rng.choice([-1, 1]) * rng.uniform(200000, 400000)
    elif kind == "constant":
        v = rng.choice([-1, 1]) * rng.uniform(20000, 60000)
        base = [v] * 8760
    elif kind == "heating_only":
        base = [abs(x) * 0.5 + 1000.0 for x in atlanta_loads()]
    elif kind == "cooling_only":
        base = [-abs(x) * 0.5 - 1000.0 for x in atlanta_loads()]
    elif kind == "cooling_seasonal":
        # a plant that is OFF (exactly zero load) from October to April
        base = [(-abs(x) * 0.6 - 500.0) if 2880 <= h < 6552 else 0.0 for h, x in enumerate(atlanta_loads())]
    elif kind == "heating_seasonal":
        # a plant that is OFF (exactly zero load) from May to September
        base = [(abs(x) * 0.6 + 500.0) if not (2880 <= h < 6552) else 0.0 for h, x in enumerate(atlanta_loads())]
    else:
        raise ValueError(kind)
    if scale is None:
        scale = 10 ** rng.uniform(-1.0, 0.6)
    return kind, scale, [x * scale for x in base]


# ----------------------------------------------------------------------------- physical objects
PIPE_KINDS = ["SINGLEUTUBE", "DOUBLEUTUBEPARALLEL", "DOUBLEUTUBESERIES", "COAXIAL"]


def random_physics(rng):
    """A dict of physical parameters inside the ranges the properties quantify over."""
    return {
        "fluid": rng.choice([("Water", 0.0), ("Water", 0.0), ("PropyleneGlycol", 20.0), ("EthyleneGlycol", 25.0), ("MethylAlcohol", 15.0), ("EthylAlcohol", 20.0)]),
        "grout": (round(rng.uniform(0.6, 2.5), 3), round(rng.uniform(2.0e6, 4.2e6), 0)),
        "soil": (round(rng.uniform(0.8, 4.0), 3), round(rng.uniform(1.5e6, 3.5e6), 0), round(rng.uniform(8.0, 22.0), 2)),
        "pipe_k": round(rng.uniform(0.3, 0.6), 3),
        "pipe_rho_cp": 1542000.0,
        "borehole": (round(rng.uniform(60, 140), 1), round(rng.uniform(1.0, 4.0), 2), rng.choice([0.11, 0.127, 0.14, 0.15, 0.2])),
        "flow": round(rng.uniform(0.15, 0.8), 3),
    }


def default_physics():
    return {
        "fluid": ("Water", 0.0),
        "grout": (1.0, 3901000.0),
        "soil": (2.0, 2343493.0, 18.3),
        "pipe_k": 0.4,
        "pipe_rho_cp": 1542000.0,
        "borehole": (96.0, 2.0, 0.14),
        "flow": 0.5,
    }


def set_pipe(m, kind, phys, dia):
    k, rcp = phys["pipe_k"], phys["pipe_rho_cp"]
    s = phys.get("shank", 0.01856)
    if kind == "SINGLEUTUBE":
        m.set_single_u_tube_pipe(0.03404, 0.04216, s, 1.0e-6, k, rcp)
    elif kind == "DOUBLEUTUBEPARALLEL":
        m.set_double_u_tube_pipe_parallel(0.03404, 0.04216, s, 1.0e-6, k, rcp)
    elif kind == "DOUBLEUTUBESERIES":
        m.set_double_u_tube_pipe_series(0.03404, 0.04216, s, 1.0e-6, k, rcp)
    elif kind == "COAXIAL":
        # scale the standard coaxial geometry so that it fits the borehole
        f = min(1.0, dia / 0.14)
        m.set_coaxial_pipe(0.0442 * f, 0.050 * f, 0.0974 * f, 0.110 * f, 1.0e-6, k, k, rcp)
    else:
        raise ValueError(kind)


def build_manager(cfg):
    """cfg: dict with keys phys, pipe, loads, months, max_eft, min_eft, max_h, min_h,
    max_boreholes, cont, geom (tuple), flow_type.  Returns a GHEManager ready for find_design."""
    from ghedesigner.manager import GHEManager

    m = GHEManager()
    configure(m, cfg)
    return m


def configure(m, cfg):
    """Every setter of the manager, in the order a user script calls them (also used to RE-configure
    a manager that has already produced a design)."""
    phys = cfg["phys"]
    if "fluid_temp" in phys:
        m.set_fluid(phys["fluid"][0], phys["fluid"][1], phys["fluid_temp"])
    else:
        m.set_fluid(phys["fluid"][0], phys["fluid"][1])
    m.set_grout(*phys["grout"])
    m.set_soil(*phys["soil"])
    h, d, dia = phys["borehole"]
    set_pipe(m, cfg["pipe"], phys, dia)
    m.set_borehole(cfg.get("nominal_height", h), d, dia)
    m.set_simulation_parameters(cfg["months"], cfg["max_eft"], cfg["min_eft"], cfg["max_h"], cfg["min_h"],
                                cfg.get("max_boreholes"), cfg.get("cont", False))
    m.set_ground_loads_from_hourly_list(cfg["loads"])
    set_geometry(m, cfg["geom"])
    m.set_design(cfg["flow"], cfg.get("flow_type", "BOREHOLE"))


def set_geometry(m, geom):
    kind = geom[0]
    if kind == "NEARSQUARE":
        m.set_geometry_constraints_near_square(b=geom[1], length=geom[2])
    elif kind == "RECTANGLE":
        m.set_geometry_constraints_rectangle(length=geom[1], width=geom[2], b_min=geom[3], b_max=geom[4])
    elif kind == "BIRECTANGLE":
        m.set_geometry_constraints_bi_rectangle(length=geom[1], width=geom[2], b_min=geom[3], b_max_x=geom[4], b_max_y=geom[5])
    elif kind == "BIZONEDRECTANGLE":
        m.set_geometry_constraints_bi_zoned_rectangle(length=geom[1], width=geom[2], b_min=geom[3], b_max_x=geom[4], b_max_y=geom[5])
    elif kind == "BIRECTANGLECONSTRAINED":
        m.set_geometry_constraints_bi_rectangle_constrained(b_min=geom[1], b_max_x=geom[2], b_max_y=geom[3], property_boundary=geom[4], no_go_boundaries=geom[5])
    elif kind == "ROWWISE":
        m.set_geometry_constraints_rowwise(perimeter_spacing_ratio=geom[1], max_spacing=geom[2], min_spacing=geom[3], spacing_step=geom[4],
                                           max_rotation=geom[5], min_rotation=geom[6], rotate_step=geom[7], property_boundary=geom[8], no_go_boundaries=geom[9])
    else:
        raise ValueError(kind)


FLUID_CODES = {"WATER": "WATER", "PROPYLENEGLYCOL": "MPG", "ETHYLENEGLYCOL": "MEG", "METHYLALCOHOL": "MMA", "ETHYLALCOHOL": "MEA"}


def independent_fluid(phys):
    """The fluid the user asked for, built WITHOUT the package's GHEFluid: pygfunction's Fluid with the
    mixture code of pygfunction's own documentation (MPG, MEG, MMA = methanol, MEA = ethanol)."""
    from pygfunction.media import Fluid

    f = Fluid(FLUID_CODES[phys["fluid"][0].upper()], phys["fluid"][1], phys.get("fluid_temp", 20.0))
    # the labels the package's own fluid class carries (no physics in them), so that code which reads them keeps working
    try:
        from ghedesigner.enums import FluidType

        f.fluid_type = FluidType[phys["fluid"][0].upper()]
    except Exception:  # noqa: BLE001
        f.fluid_type = phys["fluid"][0].upper()
    f.concentration_percent = phys["fluid"][1]
    f.temperature = phys.get("fluid_temp", 20.0)
    return f


def media(phys, pipe_kind="SINGLEUTUBE"):
    """(fluid, pipe, grout, soil, borehole, bhe_type) real objects without a manager."""
    from ghedesigner.borehole import GHEBorehole
    from ghedesigner.enums import BHPipeType
    from ghedesigner.media import GHEFluid, Grout, Pipe, Soil

    fluid = GHEFluid(fluid_str=phys["fluid"][0], percent=phys["fluid"][1], temperature=phys.get("fluid_temp", 20.0))
    grout = Grout(*phys["grout"])
    soil = Soil(*phys["soil"])
    h, d, dia = phys["borehole"]
    borehole = GHEBorehole(h, d, dia / 2.0, x=0.0, y=0.0)
    k, rcp = phys["pipe_k"], phys["pipe_rho_cp"]
    if pipe_kind == "SINGLEUTUBE":
        pipe = Pipe(Pipe.place_pipes(0.01856, 0.04216 / 2, 1), 0.03404 / 2, 0.04216 / 2, 0.01856, 1.0e-6, k, rcp)
    elif pipe_kind in ("DOUBLEUTUBEPARALLEL", "DOUBLEUTUBESERIES"):
        pipe = Pipe(Pipe.place_pipes(0.01856, 0.04216 / 2, 2), 0.03404 / 2, 0.04216 / 2, 0.01856, 1.0e-6, k, rcp)
    else:
        f = min(1.0, dia / 0.14)
        pipe = Pipe((0, 0), [0.0442 * f / 2, 0.050 * f / 2], [0.0974 * f / 2, 0.110 * f / 2], 0, 1.0e-6, [k, k], rcp)
    return fluid, pipe, grout, soil, borehole, BHPipeType[pipe_kind]


def build_ghe(phys, pipe_kind, coords, loads, months, max_eft=35.0, min_eft=5.0, max_h=135.0, min_h=60.0,
              heights=None, flow_type="BOREHOLE", b=5.0):
    """A real GHE on `coords` with a pygfunction long-time g-function at `heights`."""
    from ghedesigner.gfunction import calc_g_func_for_multiple_lengths
    from ghedesigner.ground_heat_exchangers import GHE
    from ghedesigner.simulation import SimulationParameters
    from ghedesigner.utilities import eskilson_log_times

    fluid, pipe, grout, soil, borehole, bhe_type = media(phys, pipe_kind)
    sim = SimulationParameters(1, months, max_eft, min_eft, max_h, min_h)
    v = phys["flow"]
    n = len(coords)
    if flow_type == "BOREHOLE":
        v_sys, m_bh = v * n, v / 1000.0 * fluid.rho
    else:
        v_sys, m_bh = v, v / n / 1000.0 * fluid.rho
    heights = heights or [borehole.H]
    with quiet():
        g = calc_g_func_for_multiple_lengths(b, heights, borehole.r_b, borehole.D, m_bh, bhe_type, eskilson_log_times(),
                                             coords, fluid, pipe, grout, soil)
        ghe = GHE(v_sys, b, bhe_type, fluid, borehole, pipe, grout, soil, g, sim, loads)
    return ghe
