"""C08 — Hybrid time axis covers the horizon exactly and is ordered.

Proof: lean/GHEVerif/Props/C08.lean — closed forms of the *translated* calendar helpers for every
month (`monthdays_closed_form`, `last_month_hour_closed_form`, `first_eq_prev_last_plus_one`,
`month_end_spacing`), `replicate_month`, and for arbitrary monthly arrays and any horizon
`axis_starts_at_zero`, `month_end_breakpoints`, `axis_ends_at_horizon` (incl. non-multiples of 12),
`strictly_increasing` under the decidable `windowsClear`; witness `clamped_axis_differs`.

Tie to the code: same correspondence as C06 (whole constructor and process_month_loads vs the Lean
model, translated calendar vs the real functions), here with every horizon of 1..36 and
{59, 60, 61, 119, 120, 240, 359, 360} for each profile.
Predicate on the implementation's own arrays with a datetime calendar: first hours 0, every month
end a breakpoint in order, last hour = Σ month hours, monthly[m+12] == monthly[m] on the object,
strict increase whenever `windowsClear` (re-implemented here from the reported days/durations) holds.
History stream (every tier): call sequences of HybridLoad objects with years [2019] / [2020] (leap,
8784-hour profile) / [2021], different horizons and direct calendar-helper calls, each sequence in one
fresh interpreter; every object must meet the axis predicate of its own calendar year, equal the same
object built alone, and agree with the (memoryless) model.
Glue streams (every tier): real GHE objects whose last-month peak runs past the end of the horizon,
axis re-checked after simulate(HYBRID)/size and compared bitwise with the freshly built object;
GHEManager call histories (set_simulation_parameters several times, horizons 1..14 and longer, then
set_design + find_design) judged against the last requested horizon.
"""
from __future__ import annotations

import math
from fractions import Fraction

import core
import hybridlib as H

PROPERTY = "C08"
LEVEL = "proof"
MANIFEST = {
    "text": "The hybrid time axis starts at 0, has a breakpoint at every month end, ends at the horizon and increases strictly when the peak windows are clear",
    "note": "calendar closed forms proved on the translated source for every month; sequence theorems for arbitrary monthly arrays",
    "technique": "Lean 4 proof over a Rat model + differential run against the real HybridLoad + datetime oracle",
    "design_ref": "DESIGN.md §5 C08",
}


def windows_clear(rec, i, start=1, year=2019):
    """The decidable hypothesis of theorem strictly_increasing for retained month i, from the
    implementation's reported (pcl, phl, dayc, dayh, dcl, dhl) — exact arithmetic on the doubles."""
    pcl, phl, dayc, dayh, dcl, dhl = rec
    if not all(math.isfinite(v) for v in (pcl, phl, dcl, dhl)):
        return False
    prev = Fraction(H.oracle_month_end(i - 1, year))
    lm = Fraction(H.oracle_month_end(i, year))
    fmh = prev + 1
    nc = fmh + 24 * dayc + 12
    nh = fmh + 24 * dayh + 12
    dcl, dhl = Fraction(dcl), Fraction(dhl)
    same = dayc == dayh
    c = (nc - dcl, nc) if same else (nc - dcl / 2, nc + dcl / 2)
    h = (nh, nh + dhl) if same else (nh - dhl / 2, nh + dhl / 2)
    ok = True
    if pcl > 0:
        ok = ok and prev < c[0] < c[1] < lm
    if phl > 0:
        ok = ok and prev < h[0] < h[1] < lm
    if pcl > 0 and phl > 0:
        if dayc < dayh:
            ok = ok and c[1] < h[0]
        if dayh < dayc:
            ok = ok and h[1] < c[0]
    if same and phl > 0:
        ok = ok and dhl <= 2 * nh
    return ok


def axis_predicate(ctx, label, load, hour, recs12, start, end, replay, year=2019, key_prefix=""):
    """Returns the number of retained months whose windows are not clear."""
    bad = None
    if not (hour[0] == 0.0 and load[0] == 0.0 and load[1] == 0.0 and hour[1] == float(H.oracle_month_end(start - 1, year))):
        bad = ("axis-start", f"first entries are (load, hour) = {list(zip(load[:2], hour[:2]))}, expected (0, 0), (0, {H.oracle_month_end(start - 1, year)})")
    # month ends present, in order
    j = 2
    for i in range(start, end + 1):
        e = float(H.oracle_month_end(i, year))
        while j < len(hour) and hour[j] != e:
            j += 1
        if j >= len(hour):
            bad = bad or ("month-end-missing", f"last hour of month {i} ({e}) is not a breakpoint (in order) of the hour array")
            break
        j += 1
    want_last = float(H.oracle_month_end(end, year)) if end >= start else float(H.oracle_month_end(start - 1, year))
    if hour[-1] != want_last:
        bad = bad or ("axis-end", f"last breakpoint {hour[-1]} but the horizon of {end} months ends at hour {want_last}")
    not_clear = 0
    for i in range(start, end + 1):
        if H.ipf(i, start, end):
            r = recs12[(i - 1) % 12]
            if not windows_clear(r, i, start, year):
                not_clear += 1
    if not_clear == 0 and bad is None:
        hs = hour[2:]
        k = next((k for k in range(len(hs) - 1) if not hs[k] < hs[k + 1]), None)
        if hs and not hour[1] < hs[0]:
            k = -1
        if k is not None:
            bad = ("axis-order", f"all retained windows are clear but breakpoints {hs[max(k,0)]} , {hs[k+1]} (positions {k+2},{k+3}) do not increase")
    if bad:
        ctx.finding(key_prefix + bad[0], f"{label}: {bad[1]}", replay)
    return not_clear


def history_stream(ctx, phys, n_seq):
    """Sequences of HybridLoad constructions with different `years` ([2019], [2020] leap with an
    8784-hour profile, [2021]) and horizons, interleaved with direct calls of the calendar helpers,
    each sequence executed in order inside one fresh interpreter.  Every object must (a) satisfy the
    axis predicate for ITS OWN calendar year (datetime oracle), (b) be bit-identical to the same object
    built alone in a fresh interpreter, (c) agree with the Lean model (which has no memory).
    The replay of a finding is the call sequence up to and including the failing call."""
    from concurrent.futures import ThreadPoolExecutor
    import json

    seqs = H.gen_histories(ctx.rng, n_seq)
    # the same objects, each alone in a fresh interpreter
    distinct = {}
    for seq in seqs:
        for it in seq:
            if it["op"] == "hybrid":
                distinct.setdefault(json.dumps(it, sort_keys=True), it)
    keys = list(distinct)
    with ThreadPoolExecutor(8) as ex:
        seq_out = list(ex.map(lambda q: H.history_subprocess(q, phys), seqs))
        ref_out = list(ex.map(lambda k: H.history_subprocess([distinct[k]], phys), keys))
    ref = {}
    for k, o in zip(keys, ref_out):
        if "error" in o:
            ctx.infra("history reference run failed: " + o["error"][-200:])
            return
        ref[k] = o["results"][0]
    # the model on every distinct object
    lines = []
    for k in keys:
        it = distinct[k]
        lines.append(H.full_line(dict(it["case"], ends=[it["months"]]), phys))
    mouts = H.drive(ctx, lines)
    model = {}
    if mouts is not None:
        for k, o in zip(keys, mouts):
            model[k] = H.parse_full(o, [distinct[k]["months"]])
    for q, (seq, o) in enumerate(zip(seqs, seq_out)):
        if "error" in o:
            ctx.infra("history run failed: " + o["error"][-200:])
            continue
        for pos, (it, res) in enumerate(zip(seq, o["results"])):
            replay = {"call_sequence_in_one_process": seq[:pos + 1], "failing_call": pos, "phys": phys,
                      "how": "hybridlib.history_run(call_sequence, phys) in a fresh interpreter (python harness/hybridlib.py --history)"}
            if it["op"] == "cal":
                ctx.count("history:helper-call")
                m, y = it["month"], it["year"]
                want = [H.oracle_month_hours(m, y) // 24, H.oracle_month_end(m - 1, y) + 1, H.oracle_month_end(m, y)]
                ctx.case(("history-cal", q, pos, m, y), True)
                if res["cal"] != want:
                    ctx.finding("history-calendar-helper", f"call {pos} of sequence {q}: (monthdays, first_month_hour, last_month_hour)({m}, [{y}]) = {res['cal']} "
                                f"after {pos} earlier call(s); the {y} calendar says {want}", replay)
                continue
            y, n = it["years"][0], it["months"]
            k = json.dumps(it, sort_keys=True)
            label = f"history sequence {q}, call {pos}: HybridLoad(years=[{y}], {n} months, {it['case']['kind']})"
            ctx.count(f"history:object-years-{y}")
            ctx.count("history:position-" + ("first" if pos == 0 else "later"))
            ctx.case(("history", q, pos, y, n, it["case"]["kind"], it["case"]["pseed"]), True,
                     {"sequence": [(c.get("years"), c.get("months")) if c["op"] == "hybrid" else ("cal", c["month"], c["year"]) for c in seq]} if q < 2 and pos == len(seq) - 1 else None)
            if "raise" in res:
                if res != ref[k]:
                    ctx.finding("history-dependence", f"{label} raises {res['raise']} but the same object built alone does not", replay)
                continue
            recs12 = [(r[2], r[3], r[6], r[7], r[8], r[9]) for r in res["monthly"]]
            axis_predicate(ctx, label, res["load"], res["hour"], recs12, 1, n, replay, year=y, key_prefix="history-")
            if res != ref[k]:
                r0 = ref[k]
                what = "raises" if "raise" in r0 else next((f"{f}[{j}] = {a} vs {b} alone" for f in ("hour", "load") for j, (a, b) in
                                                            enumerate(zip(res[f], r0[f])) if a != b and not (a != a and b != b)), None) \
                    or ("monthly arrays differ" if res["monthly"] != r0["monthly"] else None)
                if what:
                    ctx.finding("history-dependence", f"{label} differs from the same object built alone in a fresh interpreter: {what}", replay)
            mo = model.get(k)
            if mo and "runs" in mo and not mo.get("nan") and n in mo["runs"]:
                dd = H.compare_seq({"load": res["load"], "hour": res["hour"]}, mo["runs"][n])
                if dd is None and not H.degenerate_dirs(mo["monthly"]):
                    dd = H.compare_monthly(res["monthly"], mo["monthly"])
                if dd is not None:
                    H._disagree(ctx, "hybrid-history-correspondence", {"sequence": q, "call": pos, "item": it}, dd)
    ctx.count("history:sequences", len(seqs))


def multiyear_stream(ctx, phys):
    """Axis of HybridLoad objects built with multi-year `years` lists: starts at 0, a breakpoint at the
    end of every calendar month of the load years (in order), ends at the last hour of the last load year.
    With a leap year in the list the calendar helpers are off (known finding multi-year-leap-calendar)."""
    jobs = H.multiyear_jobs(ctx.rng, phys)
    outs = core.pool_map(H.run_multiyear, jobs)
    for a, o in zip(jobs, outs):
        years = a["years"]
        n = 12 * len(years)
        label = f"HybridLoad(years={years}, {n} months)"
        replay = {"builder": "hybridlib.run_multiyear", "args": {k: v for k, v in a.items() if k != "phys"}, "phys": a["phys"]}
        ctx.count("multi-year:" + ("with-leap-year" if H.has_leap(years) else "ordinary-years"))
        if "raise" in o:
            ctx.case(("multi-year", tuple(years), a["seed"]), False)
            ctx.finding("multi-year-raise", f"{label} raised {o['raise']}", replay)
            continue
        ctx.case(("multi-year", tuple(years), a["seed"]), True)
        hour = o["snap"]["hour"]
        bad = None
        if hour[0] != 0.0 or hour[1] != 0.0:
            bad = f"starts at {hour[:2]}"
        j = 2
        for i in range(1, n + 1):
            e = float(H.oracle_month_end(i, years))
            while j < len(hour) and hour[j] != e:
                j += 1
            if j >= len(hour):
                bad = bad or f"the last hour of month {i} ({e}) is not a breakpoint (in order)"
                break
            j += 1
        if hour[-1] != float(H.oracle_month_end(n, years)):
            bad = (bad + "; " if bad else "") + f"the axis ends at hour {hour[-1]}, the {len(years)} load years end at hour {H.oracle_month_end(n, years)}"
        if bad:
            ctx.finding("multi-year-leap-calendar" if H.has_leap(years) else "multi-year-axis", f"{label}: {bad}", replay)


def glue_streams(ctx, phys, quick):
    """(1) The C06 GHE call history (real GHE objects, start months 1/2/4/7/12, leap load years) with
    profiles whose last-month peak lies on the last day of the horizon and runs past its end: the axis
    predicate after construction and after every simulate(HYBRID)/size, arrays bitwise unchanged.
    (2) GHEManager call histories: set_simulation_parameters several times (the last horizon counts,
    horizons 1..14 and longer), then set_design + find_design; the axis of `_search.ghe.hybrid_load`
    is judged against the LAST requested horizon."""
    jobs = H.ghe_history_jobs(ctx.rng, 8 if quick else 40, phys, "end_plateau") + H.ghe_history_jobs(ctx.rng, 3 if quick else 10, phys, "wave")
    outs = core.pool_map(H.run_ghe_history, jobs)
    for a, o in zip(jobs, outs):
        label0 = f"GHE(start_month={a['start']}, end_month={a['end']}, load_years={a['years']}, {a['hours']}-hour {a['profile']} profile)"
        replay = {"builder": "hybridlib.run_ghe_history", "args": {k: v for k, v in a.items() if k != "phys"}, "phys": a["phys"],
                  "calls": "GHE(...); then simulate(HYBRID), simulate(HYBRID), size(HYBRID) on the same object; hybrid_load inspected after each"}
        ctx.count(f"ghe-history:{a['profile']}/start-{a['start']}/years-{a['years'][0]}")
        if "raise" in o:
            ctx.case(("ghe-history", a["start"], a["end"], a["years"][0], a["seed"]), False)
            ctx.finding("ghe-history-raise", f"{label0} raised {o['raise']}", replay)
            continue
        first = o["steps"][0][1]
        for k, (name, snap) in enumerate(o["steps"]):
            label = f"{label0} after {[n for n, _ in o['steps'][1:k + 1]] or 'construction'}"
            ctx.case(("ghe-history", a["start"], a["end"], a["years"][0], a["seed"], k), True,
                     {"ghe_history": label0, "steps": [n for n, _ in o["steps"]], "last_hours": snap["hour"][-3:]} if k == 0 and len(ctx.samples) < 6 else None)
            mt = H.month_table(snap["monthly"])
            recs12 = [(r["pcl"], r["phl"], r["dayc"], r["dayh"], r["dcl"], r["dhl"]) for r in mt][:12]
            if k == 0 and a["profile"] == "end_plateau":
                past = len(snap["hour"]) > 2 and snap["hour"][-2] >= snap["hour"][-1]
                ctx.count("ghe-history:last-pulse-" + ("runs-past-the-horizon" if past else "inside-the-horizon"))
            if not all(math.isfinite(x) for x in snap["hour"] + snap["load"]):
                ctx.count("ghe-history:nonfinite-skipped")
                break
            axis_predicate(ctx, label, snap["load"], snap["hour"], recs12, a["start"], a["end"], dict(replay, step=k), year=a["years"][0],
                           key_prefix="ghe-history-")
            if k > 0 and (snap["hour"] != first["hour"] or snap["load"] != first["load"]):
                j = next((j for j, (x, y) in enumerate(zip(snap["hour"], first["hour"])) if x != y), None)
                ctx.finding("ghe-history-axis-changed", f"{label}: hybrid_load.hour/load are no longer those of the freshly built object"
                            + (f" (hour[{j}] = {snap['hour'][j]!r} was {first['hour'][j]!r})" if j is not None else ""), dict(replay, step=k))
                break
    # ---- manager-level histories
    hist = [[12, 30], [36, 7], [24, 24], [1], [7], [11], [12], [13], [14], [240, 11], [5, 13, 2]]
    if not quick:
        hist += [[ctx.rng.choice([1, 3, 6, 12, 25, 60]) for _ in range(ctx.rng.randint(1, 3))] for _ in range(20)]
    jobs = [{"phys": phys, "seed": ctx.rng.randrange(1 << 30), "years": [2019], "hours": 8760, "horizons": h, "profile": "wave"} for h in hist]
    outs = core.pool_map(H.run_manager_history, jobs)
    for a, o in zip(jobs, outs):
        n = a["horizons"][-1]
        label = f"GHEManager: set_simulation_parameters(num_months) called with {a['horizons']}, then set_design + find_design: axis of _search.ghe.hybrid_load"
        replay = {"builder": "hybridlib.run_manager_history", "args": {k: v for k, v in a.items() if k != "phys"}, "phys": a["phys"]}
        ctx.count("manager-history:" + ("single-call" if len(a["horizons"]) == 1 else "repeated-calls") + ("/short-horizon" if n < 12 else ""))
        if "raise" in o:
            ctx.case(("manager-history", tuple(a["horizons"])), False)
            ctx.finding("manager-history-raise", f"{label}: raised {o['raise']}", replay)
            continue
        snap = o["returned"]
        ctx.case(("manager-history", tuple(a["horizons"]), a["seed"]), True,
                 {"manager_history": a["horizons"], "last_hour": snap["hour"][-1]} if len(ctx.samples) < 6 else None)
        mt = H.month_table(snap["monthly"])
        recs12 = [(r["pcl"], r["phl"], r["dayc"], r["dayh"], r["dcl"], r["dhl"]) for r in mt][:12]
        axis_predicate(ctx, label, snap["load"], snap["hour"], recs12, 1, n, replay, key_prefix="manager-history-")


def run(ctx: core.Ctx):
    ctx.rule = ("case = (hourly profile | arbitrary monthly arrays, parameter set, horizon); every profile is run at every horizon of 1..36 and "
                "{59,60,61,119,120,240,359,360}; profiles of the 14 kinds of C06; arbitrary monthly arrays also with start_month 2..13; "
                "distinct = distinct (kind, seed, parameter set, horizon); non-trivial = horizon has at least one retained pulse")
    ctx.trusted_base += [
        "translator translate/gen.py + gen_hybrid.py (monthdays/first_month_hour/last_month_hour translated as functions)",
        "hand-written model Model/Hybrid.lean (single-year path, start_month >= 1), tied to the code by differential runs",
        "CPython/numpy float rounding within 1e-9 relative",
    ]
    ctx.assumptions += [
        "years=[2019] (the only value the tool passes): non-leap 8760-hour years",
        "strict increase is claimed only under windowsClear (pulse windows of positive length strictly inside the month, disjoint in day order, "
        "no clamped start on a shared peak day); the number of retained months where it does not hold is reported in the histogram",
    ]
    ctx.lean_prepare()
    quick = ctx.tier == "quick"
    n_phys = 5 if quick else 40
    physs = H.phys_sets(ctx.rng, n_phys)

    bad = H.calendar_correspondence(ctx, 420 if quick else 2400)
    if bad:
        ctx.finding("calendar", f"month {bad[0]}: (monthdays, first_month_hour, last_month_hour) = {bad[1]} but the calendar says {bad[2]}",
                    {"month": bad[0], "impl": bad[1], "oracle": bad[2]})

    corpus = H.load_corpus("C08")
    n_prof = 42 if quick else 700
    gen = []
    for j in range(n_prof):
        gen.append({"kind": H.KINDS[j % len(H.KINDS)], "pseed": ctx.rng.randrange(1 << 30), "phys_id": ctx.rng.randrange(n_phys),
                    "ends": list(H.HORIZONS)})
    for c in corpus:
        c["ends"] = sorted(set(c["ends"]) | {1, 11, 12, 13, 23, 24, 25, 36, 61, 360})
    cases = corpus + gen
    results = H.explore(ctx, cases, physs)
    for res in results:
        c, im = res["case"], res["impl"]
        kind = c.get("kind", "corpus:" + c.get("corpus", "spec"))
        ctx.count("kind:" + kind)
        if im["monthly"] is None:
            for e in c["ends"]:
                ctx.case((kind, c.get("pseed"), c.get("phys_id"), e), False)
            ctx.count("outcome:raise-" + str(im["runs"][c["ends"][0]].get("raise")))
            continue
        mt = H.month_table(im["monthly"])
        recs12 = [(r["pcl"], r["phl"], r["dayc"], r["dayh"], r["dcl"], r["dhl"]) for r in mt]
        for e in c["ends"]:
            run_ = im["runs"][e]
            if "raise" in run_:
                ctx.case((kind, c.get("pseed"), c.get("phys_id"), e), False)
                ctx.count("outcome:raise-" + run_["raise"])
                continue
            replay = {"case": {k: v for k, v in c.items() if k not in ("raw", "ends")}, "end": e, "phys": res["phys"],
                      "how": "hybridlib.raw_of_case(case) -> HybridLoad(raw, bhe_eq, radial_numerical, SimulationParameters(1, end, …)).hour"}
            nc = axis_predicate(ctx, f"{kind} end={e}", run_["load"], run_["hour"], recs12, 1, e, replay)
            if not run_["replicated_ok"]:
                ctx.finding("replication", f"{kind} end={e}: monthly arrays on the object are not 12-periodic / have the wrong length", replay)
            pulses = any(r[0] > 0 or r[1] > 0 for r in recs12)
            ctx.case((kind, c.get("pseed"), c.get("phys_id"), e), pulses,
                     {"kind": kind, "end": e, "entries": len(run_["hour"]), "last_hour": run_["hour"][-1]} if len(ctx.samples) < 6 else None)
            ctx.count("horizon:" + ("1-11" if e < 12 else "12-36" if e <= 36 else "59-120" if e <= 120 else "240-360"))
            ctx.count("windows:" + ("all-clear" if nc == 0 else "some-not-clear"))
            ctx.count("retained-months-not-clear", nc)
            if run_["neg_warn"]:
                ctx.count("runs-with-negative-time-step-warning")
                if nc == 0:
                    ctx.finding("warning-with-clear-windows", f"{kind} end={e}: the implementation warned about a negative time step although all windows are clear", replay)

    # ------------------------------------------------------------------ call history: several objects / helper calls in ONE process
    history_stream(ctx, physs[0], 8 if quick else 40)

    # ------------------------------------------------------------------ the glue: GHE simulate/size histories, GHEManager histories
    glue_streams(ctx, physs[0], quick)
    multiyear_stream(ctx, physs[0])

    # ------------------------------------------------------------------ arbitrary monthly arrays (incl. start_month > 1)
    arr = H.explore_process_only(ctx, 300 if quick else 6000)
    for a in arr:
        ok = "load" in a["impl"]
        ctx.case(("arrays", a["style"], a["start"], a["end"], repr(a["recs"][0])), ok)
        if not ok:
            continue
        recs12 = [(r[2], r[3], r[4], r[5], r[6], r[7]) for r in a["recs"]]
        nc = axis_predicate(ctx, f"arrays({a['style']}) start={a['start']} end={a['end']}", a["impl"]["load"], a["impl"]["hour"], recs12,
                            a["start"], a["end"], {"recs": a["recs"], "start": a["start"], "end": a["end"],
                                                   "how": "hybridlib.run_process_only((recs, start, end))"})
        ctx.count("arrays-windows:" + ("all-clear" if nc == 0 else "some-not-clear"))
    ctx.programs = 3
    ctx.exhaustive = False
    ctx.extra["profiles"] = len(cases)
    ctx.extra["horizons"] = list(H.HORIZONS)
    if not quick:
        ctx.leanchecker(["GHEVerif.Props.C08", "GHEVerif.Lemmas.HybridAxis", "GHEVerif.Lemmas.HybridEnergy", "GHEVerif.Lemmas.HybridSplit",
                         "GHEVerif.Lemmas.HybridProc", "GHEVerif.Lemmas.HybridSeq", "GHEVerif.Lemmas.HybridCal", "GHEVerif.Model.Hybrid"])
