"""C08 — Hybrid time axis covers the horizon exactly and is ordered.

Proof: lean/GHEVerif/Props/C08.lean — closed forms of the *translated* calendar helpers for every
month (`monthdays_closed_form`, `last_month_hour_closed_form`, `first_eq_prev_last_plus_one`,
`month_end_spacing`), `replicate_month`, and for arbitrary monthly arrays and any horizon
`axis_starts_at_zero`, `month_end_breakpoints`, `axis_ends_at_horizon` (incl. non-multiples of 12),
`strictly_increasing` under the decidable `windowsClear`; witness `clamped_axis_differs`.

Tie to the code: same correspondence as C06 (whole constructor and process_month_loads vs the Lean
model, translated calendar vs the real functions), here with every horizon of 1..36 and
{59, 60, 61, 119, 120, 240, 359, 360} for each profile.
Predicate on the implementation's own arrays with a datetime calendar: first hours 0, every month
end a breakpoint in order, last hour = Σ month hours, monthly[m+12] == monthly[m] on the object,
strict increase whenever `windowsClear` (re-implemented here from the reported days/durations) holds.
"""
from __future__ import annotations

import math
from fractions import Fraction

import core
import hybridlib as H

PROPERTY = "C08"
LEVEL = "proof"
MANIFEST = {
    "text": "The hybrid time axis starts at 0, has a breakpoint at every month end, ends at the horizon and increases strictly when the peak windows are clear",
    "note": "calendar closed forms proved on the translated source for every month; sequence theorems for arbitrary monthly arrays",
    "technique": "Lean 4 proof over a Rat model + differential run against the real HybridLoad + datetime oracle",
    "design_ref": "DESIGN.md §5 C08",
}


def windows_clear(rec, i, start=1):
    """The decidable hypothesis of theorem strictly_increasing for retained month i, from the
    implementation's reported (pcl, phl, dayc, dayh, dcl, dhl) — exact arithmetic on the doubles."""
    pcl, phl, dayc, dayh, dcl, dhl = rec
    if not all(math.isfinite(v) for v in (pcl, phl, dcl, dhl)):
        return False
    prev = Fraction(H.oracle_month_end(i - 1))
    lm = Fraction(H.oracle_month_end(i))
    fmh = prev + 1
    nc = fmh + 24 * dayc + 12
    nh = fmh + 24 * dayh + 12
    dcl, dhl = Fraction(dcl), Fraction(dhl)
    same = dayc == dayh
    c = (nc - dcl, nc) if same else (nc - dcl / 2, nc + dcl / 2)
    h = (nh, nh + dhl) if same else (nh - dhl / 2, nh + dhl / 2)
    ok = True
    if pcl > 0:
        ok = ok and prev < c[0] < c[1] < lm
    if phl > 0:
        ok = ok and prev < h[0] < h[1] < lm
    if pcl > 0 and phl > 0:
        if dayc < dayh:
            ok = ok and c[1] < h[0]
        if dayh < dayc:
            ok = ok and h[1] < c[0]
    if same and phl > 0:
        ok = ok and dhl <= 2 * nh
    return ok


def axis_predicate(ctx, label, load, hour, recs12, start, end, replay):
    """Returns the number of retained months whose windows are not clear."""
    bad = None
    if not (hour[0] == 0.0 and load[0] == 0.0 and load[1] == 0.0 and hour[1] == float(H.oracle_month_end(start - 1))):
        bad = ("axis-start", f"first entries are (load, hour) = {list(zip(load[:2], hour[:2]))}, expected (0, 0), (0, {H.oracle_month_end(start - 1)})")
    # month ends present, in order
    j = 2
    for i in range(start, end + 1):
        e = float(H.oracle_month_end(i))
        while j < len(hour) and hour[j] != e:
            j += 1
        if j >= len(hour):
            bad = bad or ("month-end-missing", f"last hour of month {i} ({e}) is not a breakpoint (in order) of the hour array")
            break
        j += 1
    want_last = float(H.oracle_month_end(end)) if end >= start else float(H.oracle_month_end(start - 1))
    if hour[-1] != want_last:
        bad = bad or ("axis-end", f"last breakpoint {hour[-1]} but the horizon of {end} months ends at hour {want_last}")
    not_clear = 0
    for i in range(start, end + 1):
        if H.ipf(i, start, end):
            r = recs12[(i - 1) % 12]
            if not windows_clear(r, i, start):
                not_clear += 1
    if not_clear == 0 and bad is None:
        hs = hour[2:]
        k = next((k for k in range(len(hs) - 1) if not hs[k] < hs[k + 1]), None)
        if hs and not hour[1] < hs[0]:
            k = -1
        if k is not None:
            bad = ("axis-order", f"all retained windows are clear but breakpoints {hs[max(k,0)]} , {hs[k+1]} (positions {k+2},{k+3}) do not increase")
    if bad:
        ctx.finding(bad[0], f"{label}: {bad[1]}", replay)
    return not_clear


def run(ctx: core.Ctx):
    ctx.rule = ("case = (hourly profile | arbitrary monthly arrays, parameter set, horizon); every profile is run at every horizon of 1..36 and "
                "{59,60,61,119,120,240,359,360}; profiles of the 14 kinds of C06; arbitrary monthly arrays also with start_month 2..13; "
                "distinct = distinct (kind, seed, parameter set, horizon); non-trivial = horizon has at least one retained pulse")
    ctx.trusted_base += [
        "translator translate/gen.py + gen_hybrid.py (monthdays/first_month_hour/last_month_hour translated as functions)",
        "hand-written model Model/Hybrid.lean (single-year path, start_month >= 1), tied to the code by differential runs",
        "CPython/numpy float rounding within 1e-9 relative",
    ]
    ctx.assumptions += [
        "years=[2019] (the only value the tool passes): non-leap 8760-hour years",
        "strict increase is claimed only under windowsClear (pulse windows of positive length strictly inside the month, disjoint in day order, "
        "no clamped start on a shared peak day); the number of retained months where it does not hold is reported in the histogram",
    ]
    ctx.lean_prepare()
    quick = ctx.tier == "quick"
    n_phys = 5 if quick else 40
    physs = H.phys_sets(ctx.rng, n_phys)

    bad = H.calendar_correspondence(ctx, 420 if quick else 2400)
    if bad:
        ctx.finding("calendar", f"month {bad[0]}: (monthdays, first_month_hour, last_month_hour) = {bad[1]} but the calendar says {bad[2]}",
                    {"month": bad[0], "impl": bad[1], "oracle": bad[2]})

    corpus = H.load_corpus("C08")
    n_prof = 42 if quick else 700
    gen = []
    for j in range(n_prof):
        gen.append({"kind": H.KINDS[j % len(H.KINDS)], "pseed": ctx.rng.randrange(1 << 30), "phys_id": ctx.rng.randrange(n_phys),
                    "ends": list(H.HORIZONS)})
    for c in corpus:
        c["ends"] = sorted(set(c["ends"]) | {1, 11, 12, 13, 23, 24, 25, 36, 61, 360})
    cases = corpus + gen
    results = H.explore(ctx, cases, physs)
    for res in results:
        c, im = res["case"], res["impl"]
        kind = c.get("kind", "corpus:" + c.get("corpus", "spec"))
        ctx.count("kind:" + kind)
        if im["monthly"] is None:
            for e in c["ends"]:
                ctx.case((kind, c.get("pseed"), c.get("phys_id"), e), False)
            ctx.count("outcome:raise-" + str(im["runs"][c["ends"][0]].get("raise")))
            continue
        mt = H.month_table(im["monthly"])
        recs12 = [(r["pcl"], r["phl"], r["dayc"], r["dayh"], r["dcl"], r["dhl"]) for r in mt]
        for e in c["ends"]:
            run_ = im["runs"][e]
            if "raise" in run_:
                ctx.case((kind, c.get("pseed"), c.get("phys_id"), e), False)
                ctx.count("outcome:raise-" + run_["raise"])
                continue
            replay = {"case": {k: v for k, v in c.items() if k not in ("raw", "ends")}, "end": e, "phys": res["phys"],
                      "how": "hybridlib.raw_of_case(case) -> HybridLoad(raw, bhe_eq, radial_numerical, SimulationParameters(1, end, …)).hour"}
            nc = axis_predicate(ctx, f"{kind} end={e}", run_["load"], run_["hour"], recs12, 1, e, replay)
            if not run_["replicated_ok"]:
                ctx.finding("replication", f"{kind} end={e}: monthly arrays on the object are not 12-periodic / have the wrong length", replay)
            pulses = any(r[0] > 0 or r[1] > 0 for r in recs12)
            ctx.case((kind, c.get("pseed"), c.get("phys_id"), e), pulses,
                     {"kind": kind, "end": e, "entries": len(run_["hour"]), "last_hour": run_["hour"][-1]} if len(ctx.samples) < 6 else None)
            ctx.count("horizon:" + ("1-11" if e < 12 else "12-36" if e <= 36 else "59-120" if e <= 120 else "240-360"))
            ctx.count("windows:" + ("all-clear" if nc == 0 else "some-not-clear"))
            ctx.count("retained-months-not-clear", nc)
            if run_["neg_warn"]:
                ctx.count("runs-with-negative-time-step-warning")
                if nc == 0:
                    ctx.finding("warning-with-clear-windows", f"{kind} end={e}: the implementation warned about a negative time step although all windows are clear", replay)

    # ------------------------------------------------------------------ arbitrary monthly arrays (incl. start_month > 1)
    arr = H.explore_process_only(ctx, 300 if quick else 6000)
    for a in arr:
        ok = "load" in a["impl"]
        ctx.case(("arrays", a["style"], a["start"], a["end"], repr(a["recs"][0])), ok)
        if not ok:
            continue
        recs12 = [(r[2], r[3], r[4], r[5], r[6], r[7]) for r in a["recs"]]
        nc = axis_predicate(ctx, f"arrays({a['style']}) start={a['start']} end={a['end']}", a["impl"]["load"], a["impl"]["hour"], recs12,
                            a["start"], a["end"], {"recs": a["recs"], "start": a["start"], "end": a["end"],
                                                   "how": "hybridlib.run_process_only((recs, start, end))"})
        ctx.count("arrays-windows:" + ("all-clear" if nc == 0 else "some-not-clear"))
    ctx.programs = 3
    ctx.exhaustive = False
    ctx.extra["profiles"] = len(cases)
    ctx.extra["horizons"] = list(H.HORIZONS)
    if not quick:
        ctx.leanchecker(["GHEVerif.Props.C08", "GHEVerif.Lemmas.HybridAxis", "GHEVerif.Lemmas.HybridEnergy", "GHEVerif.Lemmas.HybridSplit",
                         "GHEVerif.Lemmas.HybridProc", "GHEVerif.Lemmas.HybridSeq", "GHEVerif.Lemmas.HybridCal", "GHEVerif.Model.Hybrid"])
