"""Re-evaluate every kept seeded change (and the harmless rewrites) against the CURRENT checks and
record the result in its meta.json.   seeded_sweep.py [-j N] [name-prefix ...]"""
import json
import subprocess
import sys
from concurrent.futures import ThreadPoolExecutor
from pathlib import Path

VERIF = Path(__file__).resolve().parent.parent


def one(d):
    meta = json.loads((d / "meta.json").read_text())
    if d.name.startswith("harmless"):
        r = subprocess.run(["/venv/bin/python", str(VERIF / "harness" / "harmless_eval.py"), str(d)], capture_output=True, text=True)
        try:
            res = json.loads(r.stdout.strip().splitlines()[-1])
        except Exception:  # noqa: BLE001
            return d.name, "error " + (r.stdout + r.stderr)[-200:]
        return d.name, "no alarm" if not res.get("alarms") else "alarms: " + ",".join(sorted(res["alarms"]))
    r = subprocess.run(["/venv/bin/python", str(VERIF / "harness" / "seeded_eval.py"), str(d)], capture_output=True, text=True)
    try:
        res = json.loads(r.stdout.strip().splitlines()[-1])
    except Exception:  # noqa: BLE001
        return d.name, "error " + (r.stdout + r.stderr)[-200:]
    meta = json.loads((d / "meta.json").read_text())
    ev = meta.setdefault("evaluation", {})
    if res.get("apply_error"):
        # the patch was made against an earlier HEAD and touches lines a later fix: commit changed: keep the
        # evaluation recorded when it was kept
        ev["applies_to_current_head"] = False
        (d / "meta.json").write_text(json.dumps(meta, indent=1))
        return d.name, "patch no longer applies to the current HEAD (earlier evaluation kept)"
    ev["applies_to_current_head"] = True
    ev.update({"demo_unchanged_rc": res.get("demo_unchanged_rc"), "demo_changed_rc": res.get("demo_changed_rc"), "caught": res.get("caught"),
               "checks": {c: {"exit": v["rc"], "first_lines": v["violations"][:4]} for c, v in res.get("checks", {}).items()}})
    (d / "meta.json").write_text(json.dumps(meta, indent=1))
    return d.name, {c: v["rc"] for c, v in res.get("checks", {}).items()}


def main():
    args = sys.argv[1:]
    j = 6
    if "-j" in args:
        k = args.index("-j")
        j = int(args[k + 1])
        del args[k:k + 2]
    dirs = [d for d in sorted((VERIF / "seeded").iterdir()) if (d / "meta.json").exists() and (not args or any(d.name.startswith(a) for a in args))]
    with ThreadPoolExecutor(j) as ex:
        for name, res in ex.map(one, dirs):
            print(name, res, flush=True)


if __name__ == "__main__":
    main()
