"""Regenerate the property-theorem table of DESIGN.md §11.4 from lean/GHEVerif/Props/*.lean."""
import glob
import os
import re
from pathlib import Path

VERIF = Path(__file__).resolve().parent.parent


def loc(pat):
    return sum(sum(1 for _ in open(f)) for f in glob.glob(str(VERIF / pat)))


def main():
    rows, tot = [], 0
    for f in sorted(glob.glob(str(VERIF / "lean/GHEVerif/Props/C*.lean"))):
        names = re.findall(r"^theorem\s+([A-Za-z0-9_']+)", open(f).read(), flags=re.M)
        tot += len(names)
        rows.append(f"| {os.path.basename(f)[:-5]} | {len(names)} | {', '.join('`' + n + '`' for n in names)} |")
    block = ("<!-- THEOREMS-BEGIN -->\n| property | theorems | names (`lean/GHEVerif/Props/Cxx.lean`) |\n|---|---|---|\n" + "\n".join(rows)
             + f"\n\n{tot} property theorems; Lean sources: Model {loc('lean/GHEVerif/Model/*.lean')} lines, Gen (regenerated) {loc('lean/GHEVerif/Gen/*.lean')}, "
             f"Lemmas {loc('lean/GHEVerif/Lemmas/*.lean')}, Props {loc('lean/GHEVerif/Props/*.lean')}.\n<!-- THEOREMS-END -->")
    p = VERIF / "DESIGN.md"
    s = p.read_text()
    a, b = s.index("<!-- THEOREMS-BEGIN -->"), s.index("<!-- THEOREMS-END -->") + len("<!-- THEOREMS-END -->")
    p.write_text(s[:a] + block + s[b:])
    print(tot, "theorems")


if __name__ == "__main__":
    main()
