"""C01 — Returned design keeps entering fluid temperature within the limits.

Proof (lean/GHEVerif/Props/C01.lean): for every candidate list, excess function and configuration the
field selected by Bisection1D / Bisection2D / BisectionZD / the RowWise search is feasible at maximum
height (or bracketed on the smallest field) unless it is a continue_if_design_unmet escape; the sizing
step after a feasible selection can only clamp low or return a Brent root, so the excess at the
returned height is <= c*tol (size_after_feasible_selection).
Tie to the code: real full design runs are recorded (every calculate_excess, every solve_root) and the
Lean model is replayed on the recorded oracle: outcome, selection and evaluation trace must agree.
Predicate: the returned design is re-simulated from fresh objects and checked against the limits.
"""
from __future__ import annotations

import core
import designlib
import searchlib

PROPERTY = "C01"
LEVEL = "proof"
MANIFEST = {
    "text": "Lean theorems over the search/sizing model for all candidate lists, sign patterns and configurations (feasible selection in all four search classes; no both-positive clamp after a feasible selection; |excess| <= c*tol at a Brent root; GHEManager.find_design as its regenerated statement list: for every design method the returned object is the selected candidate, its temperatures are computed at its final height, the height is in the window and the excess there is <= c*tol; the searched fields get the requested flow). The model is replayed against recorded real design runs (trace, selection, outcome) and every returned design is re-simulated from fresh objects in a freshly spawned process (also after a sibling design in the same process, on re-used managers, near the window ends).",
    "note": "thermal simulation = arbitrary oracle E (checked by C09-C11); scipy brentq = BrentSpec; Lipschitz constant and the consistency of the 3-height interpolated objective with the 1-height search value are hypotheses measured on every run; oracle (a) reuses the implementation's simulation code on fresh objects in a fresh process, with the fluid built independently of the package",
    "technique": "Lean 4 proof about the search/sizing model + trace-level correspondence with real runs + fresh re-simulation",
    "design_ref": "DESIGN.md §3 C01",
}


def run(ctx: core.Ctx):
    ctx.rule = ("real GHEManager.find_design runs over 6 design methods x 4 pipe types x 2 flow types (covering), load profiles "
                "(atlanta, negated, balanced, spiky, constant, heating/cooling only) scaled over 4 decades, random soil/grout/fluid/borehole, "
                "horizons 12/13/24 months (quick) up to 240 (thorough), 5 height windows, caps, continue flag; distinct = distinct configuration; "
                "non-trivial = the run produced a design or a ValueError (not a harness error)")
    ctx.trusted_base += [
        "translator (sign, check_bracket, cost from the source)",
        "hand-written Model/Search.lean replayed on the oracle recorded from each real run (trace-level agreement required)",
        "oracle (a): fresh GHE built with the implementation's own simulation code (its correctness is C09-C11)",
    ]
    ctx.lean_prepare()
    synthetic_streams(ctx)
    # the real GHE.size on synthetic temperature curves (upper and lower limit each with its own
    # curve): the returned height must be where the LARGER of the two excesses is zero (clamped)
    for c in searchlib.size_cases(ctx.rng, 400 if ctx.tier == "quick" else 4000):
        res = searchlib.real_size(c)
        ctx.case(("size", repr(c)), True)
        ctx.count("size-curves:" + ("both-limits" if len(c) > 6 else "upper-limit-only"))
        searchlib.check_size_predicate(ctx, c, res)
    cfgs, recs, cached = designlib.get_runs(ctx)
    ctx.extra["runs_from_cache"] = cached
    rps = [designlib.replay_line(r) for r in recs]
    idx = [i for i, r in enumerate(rps) if r]
    outs = ctx.driver([rps[i]["line"] for i in idx]) if idx else []
    agree = {}
    if outs is not None:
        for i, o in zip(idx, outs):
            ok, detail = designlib.compare_replay(rps[i], o)
            agree[i] = ok
            ctx.programs += 1
            if not ok:
                ctx.disagreements_checked += 1
                if "search-replay-correspondence" not in ctx.broken:
                    ctx.broken.append("search-replay-correspondence")
                    ctx.extra["first_replay_disagreement"] = {"id": recs[i]["id"], "geom": recs[i]["cfg"]["geom"][0], **detail}
    lips, consist, brent_res = [], [], []
    for i, (cfg, r) in enumerate(zip(cfgs, recs)):
        g = cfg["geom"][0]
        ctx.count(f"outcome:{r['outcome'].split()[0]}")
        ctx.count(f"method:{g}")
        ctx.count(f"pipe:{cfg['pipe']}")
        ctx.count(f"flow:{cfg['flow_type']}")
        if r["outcome"] == "harness-error":
            ctx.infra(f"run {r['id']}: {r.get('message')}")
            continue
        ctx.case((g, cfg["pipe"], cfg["flow_type"], r["loads_sha"], cfg["months"], repr(cfg["geom"][1:4])), True,
                 {"id": r["id"], "geom": g, "pipe": cfg["pipe"], "profile": cfg["profile"], "scale": cfg["scale"], "months": cfg["months"],
                  "outcome": r["outcome"], "nbh": r.get("nbh"), "H": r.get("H")} if i < 3 else None)
        if "boundary" in r:
            ctx.count(f"window-end-{r['boundary']['side']}")
        if r.get("twin_first"):
            ctx.count("preceded-by-sibling-design:" + str(r["twin_first"]).split()[0])
        # every field the search evaluated was simulated with the requested flow (both flow types)
        for e in r.get("evals", []):
            if "mflow" not in e or not e["nbh"]:
                continue
            want = (cfg["flow"] if cfg["flow_type"] == "BOREHOLE" else cfg["flow"] / e["nbh"]) / 1000.0 * e["rho"]
            want_sys = cfg["flow"] * e["nbh"] if cfg["flow_type"] == "BOREHOLE" else cfg["flow"]
            if abs(e["mflow"] - want) > 1e-9 * abs(want) or abs(e["vsys"] - want_sys) > 1e-9 * abs(want_sys):
                ctx.finding("search-flow-not-as-requested", f"{g}/{cfg['flow_type']}: a {e['nbh']}-borehole candidate was simulated with {e['mflow']:.6g} kg/s per borehole "
                            f"(system {e['vsys']:.6g} L/s); requested {want:.6g} kg/s (system {want_sys:.6g} L/s)",
                            {"cfg": r["cfg"], "evaluation": e, "requested_mass_flow_per_borehole": want})
                break
        # two DIFFERENT candidate fields at the same height cannot have the same excess to the last bit: the second was not simulated
        evs = [e for e in r.get("evals", []) if e.get("nbh")]
        for e1, e2 in zip(evs, evs[1:]):
            if e1["nbh"] != e2["nbh"] and e1["h"] == e2["h"] and e1["excess"] == e2["excess"] and e1.get("max_eft") == e2.get("max_eft") and abs(e1["excess"]) > 0:
                ctx.finding("candidate-not-simulated", f"{g}: consecutive evaluations of a {e1['nbh']}-borehole and a {e2['nbh']}-borehole field at H={e1['h']} logged the identical excess {e1['excess']!r} "
                            f"(descriptors {e1.get('spec')} / {e2.get('spec')}): the second field was not simulated",
                            {"cfg": r["cfg"], "loads": {"profile": cfg["profile"], "scale": cfg["scale"]}, "evaluations": [e1, e2]})
                break
        if r["outcome"] != "design":
            continue
        esc = designlib.is_escape(r)
        if "boundary" in r and r.get("roots"):
            fe = r["roots"][-1]["f_lower"] if r["boundary"]["side"] == "low" else r["roots"][-1]["f_upper"]
            ctx.count("window-end-excess:" + ("<=1e-3" if abs(fe) <= 1e-3 else "1e-3..1e-2" if abs(fe) <= 1e-2 else ">1e-2"))
        ctx.count("escape" if esc else "non-escape-design")
        ea = designlib.excess_of(cfg, *r["oracle_a"])
        eb = designlib.excess_of(cfg, *r["oracle_b"])
        root = r["roots"][-1] if r.get("roots") else None
        if root:
            kind = "bracketed" if root["f_lower"] * root["f_upper"] < 0 else ("clampedLow" if root["f_lower"] < 0 else "clampedHigh")
            ctx.count("root:" + kind)
            its = [(root["lower"], root["f_lower"]), (root["upper"], root["f_upper"])] + [tuple(x) for x in root["iters"]]
            its.sort()
            for (h1, f1), (h2, f2) in zip(its, its[1:]):
                if h2 > h1:
                    lips.append(abs(f2 - f1) / (h2 - h1))
            if kind == "bracketed" and root["iters"]:
                brent_res.append(min(abs(f) for _, f in root["iters"]))
            sel = [e for e in designlib.final_search_evals(r) if e["h"] == cfg["max_h"] and e["nbh"] == r["nbh"]]
            if sel:
                consist.append(abs(root["f_upper"] - sel[-1]["excess"]))
        if esc:
            continue
        if ea > 1e-3:
            ctx.finding(f"infeasible-design", f"{g}/{cfg['pipe']}/{cfg['flow_type']}: returned {r['nbh']} x {r['H']:.3f} m misses the limits by {ea:.4g} K when re-simulated (tool pipeline)",
                        {"cfg": r["cfg"], "loads": {"profile": cfg["profile"], "scale": cfg["scale"]}, "nbh": r["nbh"], "H": r["H"], "oracle_a": r["oracle_a"], "replay": rps[i]})
        elif eb > 1e-3:
            if eb <= 0.5:
                ctx.finding("F15-rebuilt-at-returned-height", f"{g}: {eb:.4g} K over the limit when hybrid load and g-function are rebuilt at the returned height (tool pipeline: {ea:.2g})",
                            {"cfg": r["cfg"], "oracle_a": r["oracle_a"], "oracle_b": r["oracle_b"]})
            else:
                ctx.finding("rebuilt-at-returned-height-large", f"{g}: {eb:.4g} K over the limit when rebuilt at the returned height",
                            {"cfg": r["cfg"], "oracle_a": r["oracle_a"], "oracle_b": r["oracle_b"]})
    # a second project on the SAME manager (partial: only loads and geometry re-applied; full: every
    # setter called again with another horizon, other limits, another grout): the design returned for
    # configuration B is judged for B from fresh objects
    by_id = {r["id"]: (c, r) for c, r in zip(cfgs, recs)}
    for cfg, r in zip(cfgs, recs):
        sec = r.get("second")
        cb, rb = by_id.get(sec["id"], (None, None)) if sec else (None, None)
        if not sec or cb is None or sec.get("outcome") != "design" or "oracle_a" not in sec:
            continue
        ctx.count(f"second-project:{sec.get('mode', 'partial')}")
        ctx.case(("second", r["id"], sec["id"]), True)
        same = rb["outcome"] == "design" and rb["nbh"] == sec["nbh"] and abs(rb["H"] - sec["H"]) <= 1e-6 * max(1.0, abs(rb["H"]))
        if not same:
            ctx.disagreements_checked += 1
            if "second-project-on-reused-manager-differs-from-fresh-manager" not in ctx.broken:
                ctx.broken.append("second-project-on-reused-manager-differs-from-fresh-manager")
                ctx.extra["first_history_disagreement"] = {"first": r["cfg"], "second": rb["cfg"], "reused": {k: sec.get(k) for k in ("nbh", "H", "mode")}, "fresh": {k: rb.get(k) for k in ("outcome", "nbh", "H")}}
        escape_possible = designlib.is_escape(sec) if sec.get("evals") else (bool(cb.get("cont")) and not (same and not designlib.is_escape(rb)))
        ea2 = designlib.excess_of(cb, *sec["oracle_a"])
        if not escape_possible and ea2 > 1e-3:
            ctx.finding("infeasible-design-on-reused-manager", f"{cb['geom'][0]}: the second project on a re-used manager ({sec.get('mode', 'partial')} re-configuration) returned {sec['nbh']} x {sec['H']:.3f} m, "
                        f"which misses project B's limits by {ea2:.4g} K over its {cb['months']}-month horizon (fresh manager: {rb.get('nbh')} x {rb.get('H')})",
                        {"first_project": r["cfg"], "second_project": rb["cfg"], "mode": sec.get("mode"), "reused_manager_result": {k: sec.get(k) for k in ("nbh", "H", "oracle_a")},
                         "fresh_manager_result": {k: rb.get(k) for k in ("outcome", "nbh", "H")}})
    ctx.extra["contracts_measured"] = {
        "lipschitz_max_K_per_m": max(lips) if lips else None,
        "consistency_max_abs_K(objective(maxH) vs search excess)": max(consist) if consist else None,
        "brent_best_residual_max_K": max(brent_res) if brent_res else None,
        "replays": len(idx), "replays_agree": sum(1 for v in agree.values() if v),
    }
    if ctx.tier == "thorough":
        ctx.leanchecker(["GHEVerif.Props.C01", "GHEVerif.Lemmas.Search", "GHEVerif.Lemmas.SearchNested", "GHEVerif.Lemmas.SearchRowWise", "GHEVerif.Lemmas.Pipeline", "GHEVerif.Model.Pipeline"])


def _real_nested(c):
    kind, a = c
    if kind == "b1d":
        return searchlib.real_b1d(*a)[:2]
    return searchlib.real_b2d(*a) if kind == "b2d" else searchlib.real_bzd(*a)


def _real_rw(c):
    start, stop, step, cont, mi, e1, seedspec, esub, per = c
    out, tr, table = searchlib.real_rw(start, stop, step, cont, mi, e1, searchlib.rw_oracle(*seedspec), esub, perimeter=per)
    return out, tr, searchlib.model_line_rw(start, stop, step, cont, mi, e1, table, esub), {core.rs(k): v for k, v in table.items()}


def synthetic_streams(ctx):
    """The real search classes on synthetic excess tables: is what they select feasible?  (Decided from the
    table, not from the model.)  Also compared with the model."""
    import c05

    rng = ctx.rng
    quick = ctx.tier == "quick"
    vals = [-2.0, -1.0, 1.0, 2.0, 0.5, -0.5]
    cases = []
    for _ in range(1500 if quick else 15000):
        n = rng.randint(1, 14)
        counts = sorted(rng.sample(range(1, 80), n))
        ehi = [rng.choice(vals) + 0.001 * i for i in range(n)]
        elo = [rng.choice(vals) + 0.001 * i for i in range(n)]
        cases.append(("b1d", (counts, elo, ehi, rng.choice([None, None, 5, 30]), rng.random() < 0.3, 15)))
    cases += searchlib.nested_cases(rng, 500 if quick else 5000)
    real = core.pool_map(_real_nested, cases, chunksize=64)
    model = ctx.driver([c05._model_line(c) for c in cases])
    for idx, (c, r) in enumerate(zip(cases, real)):
        kind, a = c
        out_r, tr_r = r
        ctx.case(("syn", kind, repr(a)), out_r.startswith("selected"))
        if model is not None:
            mo, path, mt = searchlib.split_model(model[idx])
            if mo != out_r or mt != tr_r:
                ctx.disagreements_checked += 1
                if "search-model-correspondence" not in ctx.broken:
                    ctx.broken.append("search-model-correspondence")
                    ctx.extra["first_disagreement"] = {"case": c, "real": r, "model": model[idx]}
        if kind == "b1d":
            searchlib.check_b1d_exchanger(ctx, a, out_r)
        if not out_r.startswith("selected"):
            continue
        ctx.count("synthetic:" + kind + ":selected")
        if kind == "b1d":
            counts, elo, ehi, cap, cont, mi = a
            _, k, hl = out_r.split()
            k = int(k)
            ok = (hl == "H" and ehi[k] < 0) or (k == 0 and hl == "H" and elo[0] * ehi[0] < 0) or cont
            if not ok:
                ctx.finding("b1d-infeasible-selection", f"Bisection1D returned field {k} at {hl} with excess {ehi[k] if hl == 'H' else elo[k]} without the continue flag",
                            {"counts": counts, "elo": elo, "ehi": ehi, "cap": cap, "cont": cont, "real": out_r, "trace": tr_r})
        else:
            searchlib.check_nested_predicate(ctx, kind, a, out_r, tr_r)
    rwc = []
    for _ in range(500 if quick else 5000):
        start, stop, step, cont, mi, e1, seedspec, esub = searchlib.rw_case_spec(rng)
        rwc.append((start, stop, step, cont, mi, e1, seedspec, esub, None if rng.random() < 0.5 else 0.8))
    rres = core.pool_map(_real_rw, rwc, chunksize=32)
    mres = ctx.driver([r[2] for r in rres])
    for c, r, m in zip(rwc, rres, mres or []):
        out_r, tr_r, _, table = r
        start, stop, step, cont, mi, e1, seedspec, esub, per = c
        ctx.case(("syn-rw", repr(c[:6]), repr(seedspec)), out_r.startswith("selected"))
        mo, _, mt = m.partition(" | ")
        if mo.strip() != out_r or mt.strip() != tr_r:
            ctx.disagreements_checked += 1
            if "rowwise-search-correspondence" not in ctx.broken:
                ctx.broken.append("rowwise-search-correspondence")
                ctx.extra["first_rw_disagreement"] = {"cfg": c[:6], "real": [out_r, tr_r], "model": m}
        if not out_r.startswith("selected") or out_r.endswith("escape"):
            continue
        ctx.count("synthetic:rw:selected")
        what = out_r.split()[1]
        if what == "single":
            e = e1
        elif what.startswith("sub"):
            e = esub[int(what[3:]) - 1]
        else:
            e = table[what[1:]][1]
        if e > 0:
            ctx.finding("rowwise-infeasible-selection", f"RowWise search returned {what} whose excess at max height is {e} (> 0) without being the continue fallback",
                        {"cfg": c, "real": out_r, "trace": tr_r})
