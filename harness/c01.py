"""C01 — Returned design keeps entering fluid temperature within the limits.

Proof (lean/GHEVerif/Props/C01.lean): for every candidate list, excess function and configuration the
field selected by Bisection1D / Bisection2D / BisectionZD / the RowWise search is feasible at maximum
height (or bracketed on the smallest field) unless it is a continue_if_design_unmet escape; the sizing
step after a feasible selection can only clamp low or return a Brent root, so the excess at the
returned height is <= c*tol (size_after_feasible_selection).
Tie to the code: real full design runs are recorded (every calculate_excess, every solve_root) and the
Lean model is replayed on the recorded oracle: outcome, selection and evaluation trace must agree.
Predicate: the returned design is re-simulated from fresh objects and checked against the limits.
"""
from __future__ import annotations

import core
import designlib

PROPERTY = "C01"
LEVEL = "proof"
MANIFEST = {
    "text": "Lean theorems over the search/sizing model for all candidate lists, sign patterns and configurations (feasible selection in all four search classes; no both-positive clamp after a feasible selection; |excess| <= c*tol at a Brent root). The model is replayed against recorded real design runs (trace, selection, outcome) and every returned design is re-simulated from fresh objects.",
    "note": "thermal simulation = arbitrary oracle E (checked by C09-C11); scipy brentq = BrentSpec; Lipschitz constant and the consistency of the 3-height interpolated objective with the 1-height search value are hypotheses measured on every run; oracle (a) reuses the implementation's simulation code on fresh objects",
    "technique": "Lean 4 proof about the search/sizing model + trace-level correspondence with real runs + fresh re-simulation",
    "design_ref": "DESIGN.md §3 C01",
}


def run(ctx: core.Ctx):
    ctx.rule = ("real GHEManager.find_design runs over 6 design methods x 4 pipe types x 2 flow types (covering), load profiles "
                "(atlanta, negated, balanced, spiky, constant, heating/cooling only) scaled over 4 decades, random soil/grout/fluid/borehole, "
                "horizons 12/13/24 months (quick) up to 240 (thorough), 5 height windows, caps, continue flag; distinct = distinct configuration; "
                "non-trivial = the run produced a design or a ValueError (not a harness error)")
    ctx.trusted_base += [
        "translator (sign, check_bracket, cost from the source)",
        "hand-written Model/Search.lean replayed on the oracle recorded from each real run (trace-level agreement required)",
        "oracle (a): fresh GHE built with the implementation's own simulation code (its correctness is C09-C11)",
    ]
    ctx.lean_prepare()
    cfgs, recs, cached = designlib.get_runs(ctx)
    ctx.extra["runs_from_cache"] = cached
    rps = [designlib.replay_line(r) for r in recs]
    idx = [i for i, r in enumerate(rps) if r]
    outs = ctx.driver([rps[i]["line"] for i in idx]) if idx else []
    agree = {}
    if outs is not None:
        for i, o in zip(idx, outs):
            ok, detail = designlib.compare_replay(rps[i], o)
            agree[i] = ok
            ctx.programs += 1
            if not ok:
                ctx.disagreements_checked += 1
                if "search-replay-correspondence" not in ctx.broken:
                    ctx.broken.append("search-replay-correspondence")
                    ctx.extra["first_replay_disagreement"] = {"id": recs[i]["id"], "geom": recs[i]["cfg"]["geom"][0], **detail}
    lips, consist, brent_res = [], [], []
    for i, (cfg, r) in enumerate(zip(cfgs, recs)):
        g = cfg["geom"][0]
        ctx.count(f"outcome:{r['outcome'].split()[0]}")
        ctx.count(f"method:{g}")
        ctx.count(f"pipe:{cfg['pipe']}")
        ctx.count(f"flow:{cfg['flow_type']}")
        if r["outcome"] == "harness-error":
            ctx.infra(f"run {r['id']}: {r.get('message')}")
            continue
        ctx.case((g, cfg["pipe"], cfg["flow_type"], r["loads_sha"], cfg["months"], repr(cfg["geom"][1:4])), True,
                 {"id": r["id"], "geom": g, "pipe": cfg["pipe"], "profile": cfg["profile"], "scale": cfg["scale"], "months": cfg["months"],
                  "outcome": r["outcome"], "nbh": r.get("nbh"), "H": r.get("H")} if i < 3 else None)
        if r["outcome"] != "design":
            continue
        esc = designlib.is_escape(r)
        ctx.count("escape" if esc else "non-escape-design")
        ea = designlib.excess_of(cfg, *r["oracle_a"])
        eb = designlib.excess_of(cfg, *r["oracle_b"])
        root = r["roots"][-1] if r.get("roots") else None
        if root:
            kind = "bracketed" if root["f_lower"] * root["f_upper"] < 0 else ("clampedLow" if root["f_lower"] < 0 else "clampedHigh")
            ctx.count("root:" + kind)
            its = [(root["lower"], root["f_lower"]), (root["upper"], root["f_upper"])] + [tuple(x) for x in root["iters"]]
            its.sort()
            for (h1, f1), (h2, f2) in zip(its, its[1:]):
                if h2 > h1:
                    lips.append(abs(f2 - f1) / (h2 - h1))
            if kind == "bracketed" and root["iters"]:
                brent_res.append(min(abs(f) for _, f in root["iters"]))
            sel = [e for e in designlib.final_search_evals(r) if e["h"] == cfg["max_h"] and e["nbh"] == r["nbh"]]
            if sel:
                consist.append(abs(root["f_upper"] - sel[-1]["excess"]))
        if esc:
            continue
        if ea > 1e-3:
            ctx.finding(f"infeasible-design", f"{g}/{cfg['pipe']}/{cfg['flow_type']}: returned {r['nbh']} x {r['H']:.3f} m misses the limits by {ea:.4g} K when re-simulated (tool pipeline)",
                        {"cfg": r["cfg"], "loads": {"profile": cfg["profile"], "scale": cfg["scale"]}, "nbh": r["nbh"], "H": r["H"], "oracle_a": r["oracle_a"], "replay": rps[i]})
        elif eb > 1e-3:
            if eb <= 0.1:
                ctx.finding("F15-rebuilt-at-returned-height", f"{g}: {eb:.4g} K over the limit when hybrid load and g-function are rebuilt at the returned height (tool pipeline: {ea:.2g})",
                            {"cfg": r["cfg"], "oracle_a": r["oracle_a"], "oracle_b": r["oracle_b"]})
            else:
                ctx.finding("rebuilt-at-returned-height-large", f"{g}: {eb:.4g} K over the limit when rebuilt at the returned height",
                            {"cfg": r["cfg"], "oracle_a": r["oracle_a"], "oracle_b": r["oracle_b"]})
    ctx.extra["contracts_measured"] = {
        "lipschitz_max_K_per_m": max(lips) if lips else None,
        "consistency_max_abs_K(objective(maxH) vs search excess)": max(consist) if consist else None,
        "brent_best_residual_max_K": max(brent_res) if brent_res else None,
        "replays": len(idx), "replays_agree": sum(1 for v in agree.values() if v),
    }
    if ctx.tier == "thorough":
        ctx.leanchecker(["GHEVerif.Props.C01", "GHEVerif.Lemmas.Search", "GHEVerif.Lemmas.SearchNested", "GHEVerif.Lemmas.SearchRowWise"])
