"""C17 — Input files written by the tool are schema-valid and round-trip.

Proof: lean/GHEVerif/Props/C17.lean — for every API configuration of the documented domain (six
geometry methods incl. RowWise with/without perimeter ratio, four pipe arrangements, five fluids in
any letter case, cap / continue flag present or absent, arbitrary rationals in range, any polygons,
any 8760 loads): the written file passes all ten validators (`written_valid`), the command-line
loading path rebuilds the same configuration up to the nominal height (`load_toInput`), writing
again gives the same JSON value (`toInput_fixpoint`, `write_load_write`), and every key the loader
subscripts is written (`keys_read_subset_written`).  The model interprets tables regenerated from
the sources on every run (translate/gen_config.py): schemas, to_input() rows, write_input_file,
the worker, setter signatures.

Here: (1) correspondence — the model's manager state, written JSON, dumps format, validation
verdict and reloaded state against the real setters / write_input_file / validate_input_file /
_run_manager_from_cli_worker (design run stubbed) on the same configurations; (2) the property on
the real code with oracles that share nothing with it: jsonschema called directly per section,
byte comparison of write -> load -> write, state comparison, the written file / the writing manager /
the reloaded manager against the harness's own record of every setter argument (`written-vs-api-config`),
the design actually run on both sides for a few configurations, and call histories
(write; find_design — succeeding, continuing unmet, raising; write again on the same manager: same file,
same configuration, caller's argument lists untouched).
"""
from __future__ import annotations

import json
import os
import shutil
import tempfile
from pathlib import Path

import configlib as cl
import core
import ghelib

PROPERTY = "C17"
LEVEL = "proof"
MANIFEST = {
    "technique": "Lean 4 proof about table interpreters regenerated from the sources + differential runs of the real write/validate/load path",
    "design_ref": "DESIGN.md ### C17",
}


def corpus_cases():
    out = []
    d = core.CORPUS / "C17"
    if d.is_dir():
        for p in sorted(d.glob("*.json")):
            data = json.loads(p.read_text())
            out.append((cl.calls_from_jsonable(data["calls"]), dict(data.get("desc", {}), corpus=p.name)))
    return out


def expected_reload(state):
    """What the property says the loader must rebuild: the same state, nominal height := max height,
    geom_type recorded (computed here from the original manager's dump, no tool code involved)."""
    import copy

    s = copy.deepcopy(state)
    s["borehole"]["H"] = s["sim"]["max_height"]
    cls = s["geom"]["class"]
    s["geom_type"] = {"GeometricConstraintsNearSquare": "NEARSQUARE", "GeometricConstraintsRectangle": "RECTANGLE",
                      "GeometricConstraintsBiRectangle": "BIRECTANGLE", "GeometricConstraintsBiZoned": "BIZONEDRECTANGLE",
                      "GeometricConstraintsBiRectangleConstrained": "BIRECTANGLECONSTRAINED",
                      "GeometricConstraintsRowWise": "ROWWISE"}[cls]
    return s


def _design_worker(job):
    """Run the design on the API-built manager and on the manager rebuilt from its written file."""
    calls_j, workdir = job
    import warnings

    warnings.filterwarnings("ignore")
    calls = cl.calls_from_jsonable(calls_j)
    wd = Path(workdir)
    wd.mkdir(parents=True, exist_ok=True)
    try:
        with cl.silent():
            m = cl.real_build(calls)
            p = wd / "in.json"
            m.write_input_file(p)
            m.find_design()
            a = (len(m._search.selected_coordinates), float(m._search.ghe.bhe.b.H))
        from ghedesigner import manager as mgr

        out = wd / "out"
        out.mkdir(exist_ok=True)
        with cl.silent():
            rc = mgr._run_manager_from_cli_worker(p, out)
        summ = json.loads((out / "SimulationSummary.json").read_text())
        b = (int(summ["ghe_system"]["number_of_boreholes"]), float(summ["ghe_system"]["active_borehole_length"]["value"]))
        return {"ok": True, "api": a, "cli": b, "rc": rc}
    except Exception as e:  # noqa: BLE001
        return {"ok": False, "err": f"{type(e).__name__}: {e}"[:300]}


def run(ctx: core.Ctx):
    import warnings

    warnings.filterwarnings("ignore")
    ctx.rule = ("one case = one API configuration (list of setter calls); covering array over 7 geometry variants (RowWise with and "
                "without perimeter ratio) x 4 pipe arrangements with fluid / cap / continue flag cycled, plus random configurations with "
                "awkward decimals, ints, bounds, all half-degree rotations, flat and nested polygons; distinct = distinct call lists; "
                "non-trivial = the API accepted the configuration and a file was written")
    ctx.trusted_base += [
        "translator translate/gen_config.py (schemas, to_input rows, write_input_file program, worker operations, setter signatures, enum members)",
        "hand-written parts of Model/Config.lean (setter bodies, meaning of the attribute expressions in the generated rows), tied to the code by the differential runs below",
        "jsonschema's Draft4Validator (modelled: type/minimum/maximum/enum/minItems/maxItems/items/required/properties; const ignored), json.dumps/json.loads round trip of finite floats",
        "IEEE: x/2.0*2.0 == x and x*2.0/2.0 == x away from under/overflow (hypothesis Arith.Exact of the theorems; measured on every case by the state comparison)",
    ]
    ctx.assumptions += [
        "'configuration the API accepts' = arguments in the documented domain (ApiValid: non-negative lengths/conductivities, 0..60 % concentration, "
        "rotations within +-90 deg, >= 1 month, 8760 finite loads, polygons of [x, y] points with non-negative coordinates): the setters check only the fluid / flow-type names",
        "names are ASCII (Python's str.upper additionally maps a few non-ASCII letters to ASCII)",
        "NaN / Infinity excluded (model numbers are rationals)",
        "theorems are stated for the API call order of harness/ghelib.build_manager; other orders and histories are C13's subject",
        "the constrained geometry is proved for already nested polygon lists; the flat-polygon wrapping branch is covered by the correspondence runs only",
    ]
    import ghedesigner

    ctx.extra["implementation"] = str(Path(ghedesigner.__file__).parent)
    ctx.lean_prepare()

    rng = ctx.rng
    n_random = 60 if ctx.tier == "quick" else 1200
    cases = corpus_cases()
    ctx.count("corpus_cases", len(cases))
    # covering array: every geometry variant x pipe arrangement, each geometry with both flow types (twice each), fluids /
    # cap / continue flag cycled; the RowWise rows carry the boundary rotations (+-90, 0) in every tier
    boundary_rot = {"ROWWISE": [(-90, 90), (0, 90.0), (-90.0, 0), (90, 90)], "ROWWISE_NORATIO": [(-90.0, 90.0), (0, 0), (-90, -90), (-60, 60)]}
    k = 0
    for g in cl.GEOMS:
        for pi, p in enumerate(cl.PIPES):
            cases.append(cl.gen_config(rng, geom=g, pipe=p, fluid=cl.FLUIDS[k % 5], cap=bool(k & 1), cont=bool(k & 2),
                                       flow=["BOREHOLE", "SYSTEM"][(pi + k // 4) % 2], rotations=boundary_rot.get(g, [None] * 4)[pi],
                                       polyshape=pi))
            k += 1
    for i in range(n_random):
        loads = None
        if i % 20 == 0:
            loads = [rng.uniform(-5e4, 5e4) if rng.random() < 0.9 else rng.randint(-50000, 50000) for _ in range(8760)]
        cases.append(cl.gen_config(rng, loads=loads))

    tmp = Path(tempfile.mkdtemp(prefix="c17_", dir=os.environ.get("TMPDIR", "/tmp")))
    try:
        import time
        t = time.time()
        _run_cases(ctx, cases, tmp)
        ctx.extra["roundtrip_s"] = round(time.time() - t, 1)
        t = time.time()
        _run_designs(ctx, cases, tmp)
        ctx.extra["design_runs_s"] = round(time.time() - t, 1)
        t = time.time()
        _run_history(ctx, tmp)
        ctx.extra["history_s"] = round(time.time() - t, 1)
    finally:
        shutil.rmtree(tmp, ignore_errors=True)
    ctx.programs = 4
    if ctx.tier == "thorough":
        ctx.leanchecker(["GHEVerif.Props.C17", "GHEVerif.Lemmas.Config", "GHEVerif.Model.Config"])


def _broken(ctx, name, info):
    ctx.disagreements_checked += 1
    if name not in ctx.broken:
        ctx.broken.append(name)
        ctx.extra[name + "_first"] = info
        ctx.log("correspondence differs:", name, json.dumps(info, default=str)[:600])


def _case_worker(job):
    """Everything that touches the real code for one configuration, in a worker process: API calls,
    write_input_file, validate_input_file, the jsonschema oracle, the worker with the design run stubbed,
    write again.  Returns plain data."""
    import warnings

    warnings.filterwarnings("ignore")
    idx, calls_j, workdir = job
    calls = cl.calls_from_jsonable(calls_j)
    wd = Path(workdir)
    res = {"idx": idx}
    r = cl.try_build(calls)
    # the caller's own argument objects (polygon lists, load list) after the setters and set_design
    after = json.loads(json.dumps(cl.calls_jsonable(calls)))
    before = json.loads(json.dumps(calls_j))
    if after != before:
        res["caller_args_changed"] = cl.first_diff(cl.exact(before), cl.exact(after))
    if r[0] != "ok":
        res["rejected"] = list(r[1:])
        return res
    m = r[1]
    p1 = wd / f"case{idx}.json"
    try:
        with cl.silent():
            res["rc"] = m.write_input_file(p1)
        res["text1"] = p1.read_text()
    except Exception as e:  # noqa: BLE001
        res["write_raises"] = f"{type(e).__name__}: {e}"[:200]
        return res
    res["state"] = cl.dump_state(m)
    doc = json.loads(res["text1"])
    rv = cl.real_validate(p1)
    res["validate"] = list(rv)
    res["oracle"] = cl.oracle_sections(doc)
    out = wd / f"out{idx}"
    rl = cl.real_load(p1, out)
    res["load"] = [rl[0], rl[1], rl[3]]
    if rl[2] is not None:
        res["state2"] = cl.dump_state(rl[2])
        p2 = wd / f"again{idx}.json"
        try:
            with cl.silent():
                rl[2].write_input_file(p2)
            t2 = p2.read_text()
            res["text2_same"] = t2 == res["text1"]
            if not res["text2_same"]:
                res["text2"] = t2
        except Exception as e:  # noqa: BLE001
            res["rewrite_raises"] = f"{type(e).__name__}: {e}"[:200]
        p2.unlink(missing_ok=True)
    p1.unlink(missing_ok=True)
    return res


def _run_cases(ctx, cases, tmp):
    jobs = [(idx, cl.calls_jsonable(calls), str(tmp)) for idx, (calls, desc) in enumerate(cases)]
    results = core.pool_map(_case_worker, jobs, workers=16, chunksize=2)
    live = []
    for (calls, desc), res in zip(cases, results):
        idx = res["idx"]
        sig = json.dumps(cl.calls_jsonable(calls), sort_keys=True, default=str)
        for key in ("geom", "pipe", "fluid"):
            ctx.count(f"{key}:{desc.get(key)}")
        flow = next((kw.get("flow_type_str", "").upper() for s_, kw in calls if s_ == "set_design"), "?")
        ctx.count(f"geom-x-flow:{str(desc.get('geom')).replace('_NORATIO', '')}:{flow}")
        ctx.count(f"cap:{desc.get('cap')}")
        ctx.count(f"continue:{desc.get('cont')}")
        if "caller_args_changed" in res:
            ctx.finding(f"caller-arguments-changed:{desc.get('geom')}:{res['caller_args_changed'].split(':')[0]}",
                        f"the API calls changed the caller's own argument objects ({desc.get('geom')}): {res['caller_args_changed']} (before vs after the setters and set_design)",
                        {"calls": cl.calls_jsonable(calls), "desc": desc})
        if "rejected" in res:
            ctx.count(f"api-rejected:{res['rejected'][0]}:{res['rejected'][1]}")
            ctx.case(hash(sig), False)
            continue
        if "write_raises" in res:
            ctx.finding(f"write-raises:{desc.get('geom')}:{res['write_raises'].split(':')[0]}",
                        f"write_input_file raised {res['write_raises']} for an accepted configuration", {"calls": cl.calls_jsonable(calls), "desc": desc})
            ctx.case(hash(sig), True)
            continue
        ctx.case(hash(sig), True, {"desc": desc, "file_bytes": len(res["text1"])} if idx % 37 == 0 else None)
        ctx.count(f"accepted-geom-x-flow:{str(desc.get('geom')).replace('_NORATIO', '')}:{flow}")
        res.update(calls=calls, desc=desc, doc=json.loads(res["text1"]))
        live.append(res)
    ctx.count("accepted", len(live))
    for g in ("NEARSQUARE", "RECTANGLE", "BIRECTANGLE", "BIZONEDRECTANGLE", "BIRECTANGLECONSTRAINED", "ROWWISE"):
        for fl in ("BOREHOLE", "SYSTEM"):
            if not ctx.hist.get(f"accepted-geom-x-flow:{g}:{fl}"):
                ctx.infra(f"no accepted configuration for {g} x {fl}: the covering array lost a cell")
    # ---- model, one batch
    lines = []
    for b in live:
        small = cl.enc(cl.compress_loads(b["doc"]))
        lines.append("cfg.api " + " ".join(cl.enc(cl.calls_for_model(b["calls"]))))
        lines.append("cfg.validate " + " ".join(small))
        lines.append("cfg.load " + " ".join(small))
    out = ctx.driver(lines) if lines else []
    model_ok = out is not None

    from ghedesigner import VERSION

    for i, b in enumerate(live):
        calls, desc, doc = b["calls"], b["desc"], b["doc"]
        replay = {"calls": cl.calls_jsonable(calls), "desc": desc}
        tag = f"{desc.get('geom')}:{desc.get('pipe')}"
        st = cl.exact(b["state"])
        # ------------------------------------------------ correspondence: state, written value, format
        if model_ok:
            kind, val = cl.model_reply(out[3 * i])
            if kind != "ok":
                _broken(ctx, "api-correspondence", {"replay": replay, "model": out[3 * i][:200], "impl": "accepted and written"})
            else:
                d = cl.first_diff(st, val["state"], approx=cl.APPROX)
                if d:
                    _broken(ctx, "state-correspondence", {"replay": replay, "diff": d})
                d = cl.first_diff(cl.exact(doc), val["input"])
                if d:
                    _broken(ctx, "written-correspondence", {"replay": replay, "diff": d})
                want = json.dumps(doc, sort_keys=bool(val["sort_keys"]), indent=int(val["indent"]) or None, separators=(",", ": "))
                if want != b["text1"] or int(val["ret"]) != b["rc"]:
                    _broken(ctx, "format-correspondence", {"replay": replay, "model_sort_keys": val["sort_keys"], "model_indent": str(val["indent"])})
        # ------------------------------------------------ predicate 0: the file (and both managers) say what was handed to the setters
        flow = cl.api_config_file(calls)["design"]["flow_type"]
        want_file = cl.exact(cl.api_config_file(calls))
        d = cl.first_diff(want_file, {k: v for k, v in cl.exact(doc).items() if k != "version"})
        if d:
            ctx.finding(f"written-vs-api-config:{tag}:{flow}:{d.split(':')[0]}",
                        f"the written file does not say what the API was given ({tag}, flow type {flow}): setter argument vs written value at {d}", replay)
        want_state = cl.exact(cl.api_config_state(calls))
        d = cl.first_diff_subset(want_state, st)
        if d:
            ctx.finding(f"manager-vs-api-config:{tag}:{flow}:{d.split(':')[0]}",
                        f"the manager does not hold what the setters were given ({tag}, flow type {flow}): setter argument vs attribute at {d}", replay)
        if "state2" in b:
            d = cl.first_diff_subset(want_state, cl.exact(b["state2"]))
            if d:
                ctx.finding(f"reloaded-vs-api-config:{tag}:{flow}:{d.split(':')[0]}",
                            f"the manager rebuilt from the written file does not hold the configuration the API was given ({tag}, flow type {flow}): "
                            f"setter argument vs reloaded attribute at {d}", replay)
        # ------------------------------------------------ predicate 1: the written file validates
        rv = tuple(b["validate"])
        sections = b["oracle"]
        oracle_ok = all(v is True for v in sections.values())
        if rv[:2] != ("ok", 0):
            bad = [s for s, v in sections.items() if v is not True]
            ctx.finding(f"written-invalid:{tag}:{','.join(bad) or rv[1]}",
                        f"write_input_file output fails validate_input_file ({rv[1]}; stderr {rv[2].strip()[:120]!r}) for an accepted {tag} configuration",
                        replay)
        elif not oracle_ok:
            bad = [s for s, v in sections.items() if v is not True]
            ctx.finding(f"validator-accepts-invalid:{tag}:{','.join(bad)}",
                        f"validate_input_file returned 0 but jsonschema rejects section(s) {bad} of the written file", replay)
        if doc.get("version") != VERSION:
            ctx.finding("written-version", f"written version {doc.get('version')!r} != VERSION {VERSION!r}", replay)
        if model_ok:
            toks = out[3 * i + 1].split()
            mv = ("ok", int(toks[1])) if toks[0] == "ok" else (toks[0], toks[1] if len(toks) > 1 else "")
            if mv != rv[:2]:
                _broken(ctx, "validate-correspondence", {"replay": replay, "impl": rv[:2], "model": out[3 * i + 1][:80]})
        # ------------------------------------------------ predicate 2: the loading path rebuilds the configuration
        rl = b["load"]
        if rl[0] != "ok" or rl[1] != 0 or "state2" not in b or rl[2] != ["find_design", "prepare_results", "write_output_files"]:
            ctx.finding(f"reload-fails:{tag}:{rl[1]}", f"the worker did not reach the design run on the written file: {rl[:2]} steps {rl[2]}", replay)
            continue
        st2 = cl.exact(b["state2"])
        d = cl.first_diff(cl.exact(expected_reload(b["state"])), st2)
        if d:
            ctx.finding(f"reload-state:{tag}:{d.split(':')[0]}", f"manager rebuilt from the written file differs from the written one: {d}", replay)
        if model_ok:
            kind, val = cl.model_reply(out[3 * i + 2])
            if kind != "ok" or val["ret"] != 0 or not val["reached_run"]:
                _broken(ctx, "load-correspondence", {"replay": replay, "model": out[3 * i + 2][:200], "impl": "ret 0, reached find_design"})
            else:
                d = cl.first_diff(st2, val["state"], approx=cl.APPROX)
                if d:
                    _broken(ctx, "load-state-correspondence", {"replay": replay, "diff": d})
        # ------------------------------------------------ predicate 3: write -> load -> write is the identity on the file
        if "rewrite_raises" in b:
            ctx.finding(f"rewrite-raises:{tag}:{b['rewrite_raises'].split(':')[0]}", f"writing the reloaded manager raised {b['rewrite_raises']}", replay)
            continue
        if not b.get("text2_same"):
            d = cl.first_diff(cl.exact(doc), cl.exact(json.loads(b["text2"])))
            ctx.finding(f"rewrite-differs:{tag}:{(d or 'bytes').split(':')[0]}", f"write -> load -> write changed the file: {d or 'same JSON value, different bytes'}", replay)
            continue
        ctx.count("roundtrip_ok")


def history_configs(tier):
    """Cheap 12-month configurations for the call history  set…; set_design; write; find_design; write :
    (label, calls, expected outcome) with max_boreholes and continue_if_design_unmet both given.  `fails`: loads far
    too large for the lot and the continue flag false, so the search raises; `continues`: the same with the flag true;
    `succeeds`: feasible loads."""
    atl = ghelib.atlanta_loads()
    sq = [[0.0, 0.0], [40.0, 0.0], [40.0, 40.0], [0.0, 40.0]]
    hole = [[15.0, 15.0], [20.0, 15.0], [20.0, 20.0], [15.0, 20.0]]
    geoms = {
        "NEARSQUARE": ("set_geometry_constraints_near_square", {"b": 5.0, "length": 40.0}),
        "RECTANGLE": ("set_geometry_constraints_rectangle", {"length": 40.0, "width": 30.0, "b_min": 4.0, "b_max": 8.0}),
        "BIRECTANGLE": ("set_geometry_constraints_bi_rectangle", {"length": 40.0, "width": 30.0, "b_min": 4.0, "b_max_x": 8.0, "b_max_y": 9.0}),
        "BIZONEDRECTANGLE": ("set_geometry_constraints_bi_zoned_rectangle", {"length": 40.0, "width": 30.0, "b_min": 4.0, "b_max_x": 8.0, "b_max_y": 9.0}),
        # closed rings (first vertex repeated), property boundary nested, two no-go zones
        "BIRECTANGLECONSTRAINED": ("set_geometry_constraints_bi_rectangle_constrained",
                                   {"b_min": 4.0, "b_max_x": 8.0, "b_max_y": 9.0, "property_boundary": [sq + [sq[0]]],
                                    "no_go_boundaries": [hole + [hole[0]], [[30.0, 30.0], [35.0, 30.0], [35.0, 35.0], [30.0, 30.0]]]}),
        "ROWWISE": ("set_geometry_constraints_rowwise", {"perimeter_spacing_ratio": 0.8, "max_spacing": 8.0, "min_spacing": 5.0, "spacing_step": 0.5,
                                                       "max_rotation": 0.0, "min_rotation": -90.0, "rotate_step": 45.0,
                                                       "property_boundary": [[5.0, 5.0], [47.0, 7.0], [43.0, 41.0], [6.0, 38.0]], "no_go_boundaries": [hole]}),
    }
    quick = [("BIRECTANGLE", "fails"), ("BIRECTANGLE", "succeeds"), ("BIZONEDRECTANGLE", "fails"), ("BIRECTANGLECONSTRAINED", "fails"),
             ("BIRECTANGLECONSTRAINED", "continues"), ("NEARSQUARE", "succeeds"), ("RECTANGLE", "continues")]
    plan = quick if tier == "quick" else [(g, o) for g in geoms for o in ("fails", "continues", "succeeds")]
    out = []
    for g, outcome in plan:
        scale = 0.25 if outcome == "succeeds" else 60.0
        calls = [
            ("set_fluid", {"fluid_name": "Water", "concentration_percent": 0.0, "temperature": 20.0}),
            ("set_grout", {"conductivity": 1.0, "rho_cp": 3901000.0}),
            ("set_soil", {"conductivity": 2.0, "rho_cp": 2343493.0, "undisturbed_temp": 18.3}),
            ("set_single_u_tube_pipe", {"inner_diameter": 0.03404, "outer_diameter": 0.04216, "shank_spacing": 0.01856, "roughness": 1.0e-6,
                                        "conductivity": 0.4, "rho_cp": 1542000.0}),
            ("set_borehole", {"height": 96.0, "buried_depth": 2.0, "diameter": 0.14}),
            ("set_simulation_parameters", {"num_months": 12, "max_eft": 35.0, "min_eft": 5.0, "max_height": 135.0, "min_height": 60.0,
                                           # the cap must not cut the nested searches' outer pass short when a design is wanted
                                           "max_boreholes": 400 if outcome == "succeeds" else 40, "continue_if_design_unmet": outcome == "continues"}),
            ("set_ground_loads_from_hourly_list", {"hourly_ground_loads": [x * scale for x in atl]}),
            (geoms[g][0], json.loads(json.dumps(geoms[g][1]))),
            ("set_design", {"flow_rate": 0.5, "flow_type_str": "BOREHOLE"}),
        ]
        out.append((f"{g}:{outcome}", calls, outcome))
    return out


def _history_worker(job):
    """set…; set_design; write A; find_design (may raise); write B on the same manager.  Plain data back."""
    import warnings

    warnings.filterwarnings("ignore")
    label, calls_j, workdir = job
    calls = cl.calls_from_jsonable(calls_j)
    wd = Path(workdir)
    res = {"label": label}
    r = cl.try_build(calls)
    if r[0] != "ok":
        res["rejected"] = list(r[1:])
        return res
    m = r[1]
    tag = label.replace(":", "_")
    pa, pb = wd / f"hist_{tag}_before.json", wd / f"hist_{tag}_after.json"
    try:
        with cl.silent():
            m.write_input_file(pa)
        res["before"] = pa.read_text()
        res["state_before"] = cl.dump_state(m)
        try:
            with cl.silent():
                m.find_design()
            res["find_design"] = "returned"
            res["result"] = [len(m._search.selected_coordinates), float(m._search.ghe.bhe.b.H)]
        except Exception as e:  # noqa: BLE001
            res["find_design"] = f"raised {type(e).__name__}: {e}"[:120]
        with cl.silent():
            m.write_input_file(pb)
        res["after"] = pb.read_text()
        res["state_after"] = cl.dump_state(m)
    except Exception as e:  # noqa: BLE001
        res["error"] = f"{type(e).__name__}: {e}"[:200]
    after = json.loads(json.dumps(cl.calls_jsonable(calls)))
    before = json.loads(json.dumps(calls_j))
    if after != before:
        res["caller_args_changed"] = cl.first_diff(cl.exact(before), cl.exact(after))
    return res


def _run_history(ctx, tmp):
    """A run must not change the configuration it was given: the input file written before find_design and the one
    written after it (whether it found a design, returned the best unmet one, or raised) are the same file and say
    what the setters were handed."""
    cfgs = history_configs(ctx.tier)
    res = core.pool_map(_history_worker, [(label, cl.calls_jsonable(calls), str(tmp)) for label, calls, _ in cfgs], workers=min(16, len(cfgs)))
    for (label, calls, outcome), r in zip(cfgs, res):
        replay = {"history": "setters; set_design; write_input_file (A); find_design; write_input_file (B)", "label": label,
                  "find_design": r.get("find_design"), "calls_without_loads": [c for c in cl.calls_jsonable(calls) if c[0] != "set_ground_loads_from_hourly_list"],
                  "loads": "Atlanta office hourly loads x " + ("0.25" if outcome == "succeeds" else "60")}
        ctx.case(("history", label), True, {"history": label, "find_design": r.get("find_design"), "result": r.get("result")} if outcome == "fails" else None)
        if "rejected" in r or "error" in r:
            ctx.count(f"history-not-run:{label}")
            ctx.infra(f"history configuration {label} did not run: {r.get('rejected') or r.get('error')}")
            continue
        fd = r["find_design"]
        ctx.count(f"history:{label.split(':')[0]}:{'raised' if fd.startswith('raised') else 'returned'}")
        if (outcome == "fails") != fd.startswith("raised"):
            ctx.count(f"history-unexpected-outcome:{label}")          # the configuration did not behave as planned; still checked
        want = cl.exact(cl.api_config_file(calls))
        for which in ("before", "after"):
            doc = json.loads(r[which])
            d = cl.first_diff(want, {k: v for k, v in cl.exact(doc).items() if k != "version"})
            if d:
                ctx.finding(f"history:written-vs-api-config:{label}:{which}-find_design:{d.split(':')[0]}",
                            f"{label}: the input file written {which} find_design ({fd}) does not say what the setters were given: {d}", replay)
        if r["before"] != r["after"]:
            d = cl.first_diff(cl.exact(json.loads(r["before"])), cl.exact(json.loads(r["after"])))
            ctx.finding(f"history:file-changed-by-find_design:{label}:{(d or 'bytes').split(':')[0]}",
                        f"{label}: write_input_file before and after find_design ({fd}) on the same manager differ: {d or 'same value, different bytes'} (before vs after)", replay)
        d = cl.first_diff_subset(cl.exact(cl.api_config_state(calls)), cl.exact(r["state_after"]))
        if d:
            ctx.finding(f"history:manager-vs-api-config:{label}:{d.split(':')[0]}", f"{label}: after find_design ({fd}) the manager no longer holds the configuration it was given: {d}", replay)
        if "caller_args_changed" in r:
            ctx.finding(f"history:caller-arguments-changed:{label}:{r['caller_args_changed'].split(':')[0]}",
                        f"{label}: the caller's own argument objects were changed by the API calls / the run: {r['caller_args_changed']}", replay)


def _run_designs(ctx, cases, tmp):
    """'running it produces the same design': really run both, on cheap configurations."""
    n = 4 if ctx.tier == "quick" else 24
    rng = ctx.rng
    jobs = []
    phys_loads = [x * 0.25 for x in ghelib.atlanta_loads()]
    for j in range(n):
        geom = ["NEARSQUARE", "RECTANGLE", "BIRECTANGLE", "NEARSQUARE"][j % 4]
        calls, desc = cl.gen_config(rng, geom=geom, pipe=cl.PIPES[j % 3], fluid="Water", cap=False, cont=False, loads=phys_loads)
        fixed = []
        for s, kw in calls:
            kw = dict(kw)
            if s == "set_fluid":
                kw.update(concentration_percent=0.0, temperature=20.0)
            if s == "set_grout":
                kw.update(conductivity=1.0, rho_cp=3901000.0)
            if s == "set_soil":
                kw.update(conductivity=2.0, rho_cp=2343493.0, undisturbed_temp=18.3)
            if s in ("set_single_u_tube_pipe", "set_double_u_tube_pipe_parallel", "set_double_u_tube_pipe_series"):
                kw.update(inner_diameter=0.03404, outer_diameter=0.04216, shank_spacing=0.01856, roughness=1.0e-6, conductivity=0.4, rho_cp=1542000.0)
            if s == "set_borehole":
                kw.update(height=rng.choice([50.0, 96.0, 200.0]), buried_depth=2.0, diameter=0.14)
            if s == "set_simulation_parameters":
                kw.update(num_months=12, max_eft=35.0, min_eft=5.0, max_height=135.0, min_height=60.0)
            if s == "set_geometry_constraints_near_square":
                kw.update(b=5.0 + j * 0.25, length=60.0)
            if s == "set_geometry_constraints_rectangle":
                kw.update(length=60.0, width=40.0, b_min=4.0, b_max=8.0)
            if s == "set_geometry_constraints_bi_rectangle":
                kw.update(length=60.0, width=40.0, b_min=4.0, b_max_x=8.0, b_max_y=9.0)
            if s == "set_design":
                kw.update(flow_rate=0.5, flow_type_str="BOREHOLE")
            fixed.append((s, kw))
        jobs.append((cl.calls_jsonable(fixed), str(tmp / f"design{j}")))
    res = core.pool_map(_design_worker, jobs, workers=min(16, len(jobs)))
    for (calls_j, _), r in zip(jobs, res):
        geom = next(s for s, _ in calls_j if s.startswith("set_geometry"))
        ctx.case(("design", json.dumps(calls_j[-2], default=str)[:200]), True, {"design_run": r} if len(ctx.samples) < 6 else None)
        if not r.get("ok"):
            ctx.count("design_run_error")
            ctx.extra.setdefault("design_run_errors", []).append(r.get("err"))
            continue
        ctx.count("design_runs_compared")
        if r["rc"] != 0 or r["api"][0] != r["cli"][0] or abs(r["api"][1] - r["cli"][1]) > 1e-9 * max(1.0, abs(r["api"][1])):
            ctx.finding(f"design-differs:{geom}", f"design from the API manager {r['api']} differs from the design the command-line path computes from its written file {r['cli']} (rc {r['rc']})",
                        {"calls": calls_j})
    if not any(r.get("ok") for r in res):
        ctx.infra("no design run completed in the C17 design comparison")
