"""C14 — RowWise on convex lots terminates, stays inside, keeps spacing, fills the lot.

Proof: lean/GHEVerif/Props/C14.lean about the executable model lean/GHEVerif/Model/RowWise.lean
(gen_borehole_config / line_intersect / vector_intersect / sort_intersections / point_intersect /
process_rows without no-go / distribute / remove_duplicates / field_optimization_fr over `Rat`, the
rotation as an exact pair (cos, sin)).

Tie to the code
  * constants regenerated from rowwise.py / shape.py (translate/gen_rowwise.py -> Gen/RowWise.lean);
  * correspondence: the real functions and the model on the same inputs
      gen   gen_borehole_config on convex / lattice / rectangle / axis-touching lots at rational rotations
      opt   field_optimization_fr on rotation windows k*theta (theta a Pythagorean angle, all k*theta rational)
      li    Shapes.line_intersect,  pin  Shapes.point_intersect
      sweep the choice of field_optimization_fr / _wp_space_fr at arbitrary windows (index trace) and the
            number of rotations tried;
  * predicate on the implementation's own output with an independent oracle (fractions.Fraction crossing
    number, distances, lattice, own duplicate filter): termination under a CPU-time guard, inside or on the
    outline, none inside a no-go zone, pairwise spacing, rectangle lattice, densest rotation, rigid translation.
"""
from __future__ import annotations

import json
import math
import os
import signal
from fractions import Fraction as F

import core
import ghelib  # noqa: F401  (puts the repository first on sys.path, honours VERIF_REPO)

PROPERTY = "C14"
LEVEL = "proof"
MANIFEST = {
    "text": "RowWise on convex lots terminates, stays inside, keeps spacing, fills the lot; densest rotation; rigid translation",
    "note": "proof about the Rat model (no no-go zones, no perimeter spacing, exact rotations); no-go / perimeter / "
            "irrational rotations are covered by the predicate on sampled inputs only",
    "technique": "lean4-proof + model/implementation correspondence + independent Fraction oracle",
    "design_ref": "DESIGN.md ### C14",
}

TOL = 1e-5          # intersection_tolerance used by field_optimization_fr
# CPU-time guards (ITIMER_PROF) are derived from the size of the case.  Measured on the unchanged code (rectangles 100..400 m,
# spacing 5..10 m, with / without no-go zone and perimeter): one generation of n boreholes costs 1.7e-7 n^2 + 1e-4 n + 0.005 s of CPU
# (the quadratic part is the duplicate filter).  The estimate below is above every measurement; the guard is GUARD_FACTOR times the
# estimate (at least GUARD_MIN), so the unchanged code needs < 5 % of it and an expiry on such a case is a finding "does not return".
# A case whose guard would exceed GUARD_CAP is "large": it runs under max(GUARD_CAP, 4 x estimate) and an expiry is only counted
# (`guard-expired-large-case`), never reported as a violation.
GUARD_MIN = 5.0
GUARD_FACTOR = 25.0
GUARD_CAP = 150.0


def poly_area(poly):
    return abs(sum(poly[i][0] * poly[(i + 1) % len(poly)][1] - poly[(i + 1) % len(poly)][0] * poly[i][1] for i in range(len(poly)))) / 2.0


def est_boreholes(case):
    return poly_area(case["poly"]) / (case["space"] ** 2) + 2.0 * math.sqrt(max(poly_area(case["poly"]), 1.0)) / case["space"] + 4 \
        if case.get("space") else 0.0


def n_rotations(case):
    if case.get("start") is None and case.get("stop") is None and case.get("step") is None:
        return 1
    start = case["start"] if case.get("start") is not None else -math.pi / 2
    stop = case["stop"] if case.get("stop") is not None else math.pi / 2
    return max(1, int(math.ceil((stop - start) / (case["step"] * math.pi / 180.0))) + 1)


def plan_guard(case):
    """Sets case['_est'] (estimated CPU seconds on the unchanged code), case['_guard'] and case['_large']."""
    kind = case["kind"]
    if kind in ("li", "pin"):
        case.update(_est=0.01, _guard=10.0, _large=False)
        return case
    n = est_boreholes(case)
    one = 2.5e-7 * n * n + 2.0e-4 * n + 0.01
    if case.get("perim") is not None:
        one *= 1.5
    if kind == "gen":
        g = 1
    elif kind == "translate":
        g = 2
    elif kind == "opt":
        g = 2 * n_rotations(case) + 1
    elif kind == "alias":
        g = 2 * (n_rotations(case) + 1) if case.get("sweep") else 3
    elif kind == "container":
        g = 8 * ((n_rotations(case) + 1) if case.get("sweep") else 1)
    else:
        g = 1
    est = g * one
    want = max(GUARD_MIN, GUARD_FACTOR * est, case.get("guard") or 0.0)
    large = GUARD_FACTOR * est > GUARD_CAP
    case.update(_est=round(est, 3), _guard=max(GUARD_CAP, 4 * est) if large else want, _large=large)
    return case


def cap_space(poly, space, nmax):
    """Spacing raised (if needed) so that the lot takes at most about nmax boreholes per generation."""
    return max(space, round(math.sqrt(poly_area(poly) / nmax), 1))
EPS_IN = 2e-5       # "inside or on the outline": intersection_tolerance 1e-5 times (|a| + |b|) <= sqrt 2 of a unit normal,
                    # the slack of theorem inside_convex (row/outline intersections are accepted within the tolerance box of an edge)
EPS_SP = 1e-6       # spacing slack

DEMO_OUTLINE = [[19.46202532, 108.8860759], [19.67827004, 94.46835443], [24.65189873, 75.3164557], [37.19409283, 56.59493671],
                [51.68248945, 45.83544304], [84.33544304, 38.94936709], [112.0147679, 38.94936709], [131.0443038, 35.50632911],
                [147.2626582, 28.83544304], [160.8860759, 18.07594937], [171.6983122, 18.29113924], [167.157173, 72.94936709],
                [169.1033755, 80.48101266], [177.3206751, 99.63291139], [182.2943038, 115.7721519], [182.2943038, 121.3670886],
                [155.0474684, 118.5696203], [53.19620253, 112.3291139]]
DEMO_NOGO = [[74.38818565, 80.69620253], [73.0907173, 53.36708861], [93.85021097, 52.50632911], [120.0158228, 53.15189873],
             [121.5295359, 62.18987342], [128.8818565, 63.26582278], [128.8818565, 78.5443038], [129.0981013, 80.91139241],
             [108.5548523, 81.34177215], [104.0137131, 110], [95.58016878, 110], [95.7964135, 81.7721519]]

# rational rotations (cos, sin); (0,-1) is left out: rotate = -pi/2 is not exact in floating point (cos = 6e-17)
RAT_ROTS = [("1", "0"), ("0", "1"), ("3/5", "4/5"), ("4/5", "3/5"), ("3/5", "-4/5"), ("4/5", "-3/5"), ("5/13", "12/13"),
            ("12/13", "5/13"), ("12/13", "-5/13"), ("5/13", "-12/13"), ("15/17", "8/17"), ("8/17", "-15/17"),
            ("7/25", "-24/25"), ("24/25", "7/25"), ("20/29", "21/29"), ("21/29", "-20/29")]


# =============================================================================== geometry generators
def _orient(rng, poly):
    k = rng.randrange(len(poly))
    poly = poly[k:] + poly[:k]
    if rng.random() < 0.5:
        poly = poly[::-1]
    return poly


def _hull(pts):
    pts = sorted(set(pts))
    if len(pts) < 3:
        return pts

    def cr(o, a, b):
        return (a[0] - o[0]) * (b[1] - o[1]) - (a[1] - o[1]) * (b[0] - o[0])
    lo, up = [], []
    for p in pts:
        while len(lo) >= 2 and cr(lo[-2], lo[-1], p) <= 0:
            lo.pop()
        lo.append(p)
    for p in reversed(pts):
        while len(up) >= 2 and cr(up[-2], up[-1], p) <= 0:
            up.pop()
        up.append(p)
    return lo[:-1] + up[:-1]


def gen_polygon(rng, kind=None):
    """-> (kind, [[x, y], ...]) convex, non-negative coordinates, 3..12 vertices, either orientation."""
    kind = kind or rng.choice(["ellipse", "ellipse", "ellipse_axes", "lattice", "rect", "tri_origin", "edge_on_axis", "sliver"])
    if kind in ("ellipse", "ellipse_axes"):
        n = rng.randint(3, 12)
        a, b = rng.uniform(25, 150), rng.uniform(25, 150)
        th0 = rng.uniform(0, 2 * math.pi)
        while True:
            ang = sorted(rng.uniform(0, 2 * math.pi) for _ in range(n))
            gaps = [(ang[(i + 1) % n] - ang[i]) % (2 * math.pi) for i in range(n)]
            if max(gaps) < math.pi * 0.95 and min(gaps) > 0.05:
                break
        pts = []
        for t in ang:
            x, y = a * math.cos(t), b * math.sin(t)
            pts.append((x * math.cos(th0) - y * math.sin(th0), x * math.sin(th0) + y * math.cos(th0)))
        mx, my = min(p[0] for p in pts), min(p[1] for p in pts)
        if kind == "ellipse_axes":
            ox, oy = rng.choice([(0.0, 0.0), (0.0, rng.uniform(0, 40)), (rng.uniform(0, 40), 0.0)])
        else:
            ox, oy = rng.uniform(0.5, 60), rng.uniform(0.5, 60)
        dec = rng.choice([2, 3, 8])
        poly = [[round(p[0] - mx + ox, dec) + 0.0, round(p[1] - my + oy, dec) + 0.0] for p in pts]
    elif kind == "lattice":
        while True:
            k = rng.randint(3, 12)
            h = _hull([(rng.randrange(0, 16) * 10, rng.randrange(0, 16) * 10) for _ in range(k)])
            if len(h) >= 3:
                break
        poly = [[float(x), float(y)] for x, y in h]
    elif kind == "rect":
        x0, y0 = rng.choice([(0.0, 0.0), (0.0, 12.0), (7.5, 0.0), (round(rng.uniform(0, 50), 1), round(rng.uniform(0, 50), 1))])
        w, h = round(rng.uniform(26, 160), rng.choice([0, 1, 2])), round(rng.uniform(26, 160), rng.choice([0, 1, 2]))
        poly = [[x0, y0], [x0 + w, y0], [x0 + w, y0 + h], [x0, y0 + h]]
    elif kind == "tri_origin":
        a, b = round(rng.uniform(30, 120), 1), round(rng.uniform(30, 120), 1)
        poly = [[0.0, 0.0], [a, 0.0], [0.0, b]]
    elif kind == "edge_on_axis":
        while True:
            ys = sorted(rng.sample(range(0, 140), 2))
            pts = [(0, ys[0]), (0, ys[1])] + [(rng.randrange(5, 150), rng.randrange(0, 150)) for _ in range(rng.randint(1, 6))]
            if rng.random() < 0.4:
                xs = sorted(rng.sample(range(0, 140), 2))
                pts += [(xs[0], 0), (xs[1], 0)]
            h = _hull(pts)
            if len(h) >= 3:
                break
        poly = [[float(x), float(y)] for x, y in h]
    elif kind == "sliver":
        # thin lots: chords shorter than the spacing near the apexes
        w = rng.uniform(3, 30)
        l = rng.uniform(40, 150)
        ox, oy = rng.uniform(0, 30), rng.uniform(0, 30)
        t = rng.uniform(0, math.pi / 2)
        base = [(0, 0), (l * 0.3, -w / 2), (l, 0), (l * 0.6, w / 2)]
        rot = [(x * math.cos(t) - y * math.sin(t), x * math.sin(t) + y * math.cos(t)) for x, y in base]
        mx, my = min(p[0] for p in rot), min(p[1] for p in rot)
        poly = [[round(p[0] - mx + ox, 3), round(p[1] - my + oy, 3)] for p in rot]
    else:
        raise ValueError(kind)
    return kind, _orient(rng, poly)


def is_convex(poly):
    n = len(poly)
    sg = 0
    for i in range(n):
        a, b, c = poly[i], poly[(i + 1) % n], poly[(i + 2) % n]
        cr = (F(b[0]) - F(a[0])) * (F(c[1]) - F(b[1])) - (F(b[1]) - F(a[1])) * (F(c[0]) - F(b[0]))
        if cr == 0:
            return False
        if sg == 0:
            sg = 1 if cr > 0 else -1
        elif (cr > 0) != (sg > 0):
            return False
    return n >= 3


def gen_nogo(rng, poly):
    """A convex zone strictly inside the (convex) outline: the outline shrunk about an interior point."""
    n = len(poly)
    cx, cy = sum(p[0] for p in poly) / n, sum(p[1] for p in poly) / n
    k = rng.uniform(0.15, 0.5)
    px = cx + rng.uniform(-0.2, 0.2) * (max(p[0] for p in poly) - min(p[0] for p in poly)) * (1 - k) * 0.5
    py = cy + rng.uniform(-0.2, 0.2) * (max(p[1] for p in poly) - min(p[1] for p in poly)) * (1 - k) * 0.5
    if crossing(poly, (px, py)) != 1:
        px, py = cx, cy
    z = [[round(px + k * (p[0] - px), 3), round(py + k * (p[1] - py), 3)] for p in poly]
    if rng.random() < 0.5:
        z = z[::-1]
    return z


def gen_multizone(rng, rot, n, aligned=None):
    """A convex lot with n disjoint convex no-go zones strung along the row direction of rotation `rot`, so that the rows
    through the middle of the lot cross several of them.  -> (poly, zones listed ALONG the row direction, spacing)."""
    s = round(rng.uniform(6, 14), 1)
    d = (math.cos(rot), math.sin(rot))
    nrm = (-d[1], d[0])
    halfs = [(rng.uniform(1.0, 2.5) * s, rng.uniform(1.6, 3.2) * s) for _ in range(n)]     # (along, across)
    gaps = [rng.uniform(2.2, 4.0) * s for _ in range(n - 1)]
    total = sum(2 * a for a, _ in halfs) + sum(gaps)
    R = total / 2 + rng.uniform(3.5, 6) * s
    Rn = max(b for _, b in halfs) + rng.uniform(3.5, 6) * s
    aligned = rng.random() < 0.4 if aligned is None else aligned
    # the lot: a rectangle or a 10-gon on an ellipse, both aligned with the rows, then moved into the first quadrant
    if rng.random() < 0.5:
        lot0 = [(-R, -Rn), (R, -Rn), (R, Rn), (-R, Rn)]
    else:
        k = 10
        ph = rng.uniform(0, 2 * math.pi / k)
        lot0 = [(1.25 * R * math.cos(ph + 2 * math.pi * i / k), 1.35 * Rn * math.sin(ph + 2 * math.pi * i / k)) for i in range(k)]
    zones0 = []
    t = -total / 2
    for i, (a, b) in enumerate(halfs):
        c = t + a
        off = rng.uniform(-0.4, 0.4) * s
        tilt = 0.0 if aligned else rng.uniform(-0.5, 0.5)
        m = rng.choice([4, 5, 6])
        if m == 4:
            z = [(-a, -b), (a, -b), (a, b), (-a, b)]
        else:
            ph = rng.uniform(0, 2 * math.pi / m)
            z = [(a * math.cos(ph + 2 * math.pi * j / m), b * math.sin(ph + 2 * math.pi * j / m)) for j in range(m)]
        ct, st = math.cos(tilt) if m == 4 else 1.0, math.sin(tilt) if m == 4 else 0.0
        z = [(c + (x * ct - y * st) * (0.8 if tilt else 1.0), off + (x * st + y * ct) * (0.8 if tilt else 1.0)) for x, y in z]
        if rng.random() < 0.5:
            z = z[::-1]
        zones0.append(z)
        t += 2 * a + (gaps[i] if i < n - 1 else 0)

    def world(q):
        return (q[0] * d[0] + q[1] * nrm[0], q[0] * d[1] + q[1] * nrm[1])
    lot = [world(q) for q in lot0]
    mx, my = min(p[0] for p in lot), min(p[1] for p in lot)
    ox, oy = rng.choice([(0.0, 0.0), (rng.uniform(1, 30), rng.uniform(1, 30))])
    fix = lambda q: [round(q[0] - mx + ox, 3), round(q[1] - my + oy, 3)]   # noqa: E731
    poly = [fix(q) for q in lot]
    zones = [[fix(world(q)) for q in z] for z in zones0]
    return poly, zones, s


# =============================================================================== independent oracle
def crossing(poly, p):
    """Exact crossing-number classification: 1 inside, 0 on the boundary, -1 outside."""
    px, py = F(p[0]), F(p[1])
    n = len(poly)
    inside = False
    for i in range(n):
        ax, ay = F(poly[i][0]), F(poly[i][1])
        bx, by = F(poly[(i + 1) % n][0]), F(poly[(i + 1) % n][1])
        cr = (bx - ax) * (py - ay) - (by - ay) * (px - ax)
        if cr == 0 and min(ax, bx) <= px <= max(ax, bx) and min(ay, by) <= py <= max(ay, by):
            return 0
        if (ay > py) != (by > py):
            xat = ax + (py - ay) * (bx - ax) / (by - ay)
            if xat > px:
                inside = not inside
    return 1 if inside else -1


def dist_boundary(poly, p):
    best = float("inf")
    n = len(poly)
    for i in range(n):
        ax, ay = poly[i]
        bx, by = poly[(i + 1) % n]
        dx, dy = bx - ax, by - ay
        L2 = dx * dx + dy * dy
        t = 0.0 if L2 == 0 else max(0.0, min(1.0, ((p[0] - ax) * dx + (p[1] - ay) * dy) / L2))
        best = min(best, math.hypot(p[0] - ax - t * dx, p[1] - ay - t * dy))
    return best


def clearly_outside(poly, p, eps=EPS_IN):
    return crossing(poly, p) == -1 and dist_boundary(poly, p) > eps


def clearly_inside(poly, p, eps=EPS_IN):
    return crossing(poly, p) == 1 and dist_boundary(poly, p) > eps


def min_pair(points):
    """(distance, i, j) of the closest pair."""
    import numpy as np
    a = np.asarray(points, dtype=float)
    if len(a) < 2:
        return (float("inf"), -1, -1)
    best = (float("inf"), -1, -1)
    for i in range(len(a) - 1):
        d = np.hypot(a[i + 1:, 0] - a[i, 0], a[i + 1:, 1] - a[i, 1])
        j = int(d.argmin())
        if d[j] < best[0]:
            best = (float(d[j]), i, i + 1 + j)
    return best


def own_dedupe(points, radius):
    """Independent duplicate filter: drop a point when an earlier one (dropped or not) is closer than radius."""
    out = []
    for j, p in enumerate(points):
        if not any((p[0] - q[0]) ** 2 + (p[1] - q[1]) ** 2 < radius * radius for q in points[:j]):
            out.append(p)
    return out


def same_points(a, b, eps):
    """Equal as multisets of points up to eps (greedy matching after sorting)."""
    if len(a) != len(b):
        return False
    sa = sorted((round(x / eps / 4), round(y / eps / 4), x, y) for x, y in a)
    sb = sorted((round(x / eps / 4), round(y / eps / 4), x, y) for x, y in b)
    if all(abs(p[2] - q[2]) <= eps and abs(p[3] - q[3]) <= eps for p, q in zip(sa, sb)):
        return True
    rest = list(b)
    for x, y in a:
        k = next((i for i, q in enumerate(rest) if abs(q[0] - x) <= eps and abs(q[1] - y) <= eps), None)
        if k is None:
            return False
        rest.pop(k)
    return True


# =============================================================================== implementation runner (worker)
class _Timeout(Exception):
    pass


def _alarm(_s, _f):
    raise _Timeout()


def _angle(rot):
    if isinstance(rot, (list, tuple)):
        return math.atan2(float(F(rot[1])), float(F(rot[0])))
    return float(rot)


def sweep_angles(start, stop, step_deg):
    """The rotations `while rt < rotate_stop: …; rt += rotate_step * DEG_TO_RAD` visits (own enumeration)."""
    out = []
    rt = start
    d = step_deg * (math.pi / 180.0)
    while rt < stop and len(out) < 5000:
        out.append(rt)
        rt += d
    return out


def run_impl(case):
    """Runs the real code for one case under the CPU-time guard; never raises."""
    os.environ["OMP_NUM_THREADS"] = "1"
    from ghedesigner import rowwise as rw
    from ghedesigner.shape import Shapes

    res = {"status": "ok"}
    old = signal.signal(signal.SIGPROF, _alarm)   # CPU time of this process: independent of the machine load
    orig_gen, orig_two = rw.gen_borehole_config, rw.two_space_gen_bhc
    try:
        if "_guard" not in case:
            plan_guard(case)
        signal.setitimer(signal.ITIMER_PROF, case["_guard"])
        kind = case["kind"]
        poly = case["poly"]
        nogo = [Shapes(z) for z in case["nogo"]] if case.get("nogo") else None
        if kind in ("gen", "translate"):
            def one(pl, ng):
                if case.get("perim") is not None:
                    r = rw.two_space_gen_bhc(Shapes(pl), case["space"], case["space"], rotate=_angle(case["rot"]), no_go=ng,
                                             p_space=case["perim"] * case["space"], intersection_tolerance=case.get("tol", TOL))
                else:
                    r = rw.gen_borehole_config(Shapes(pl), case["space"], case["space"], rotate=_angle(case["rot"]), no_go=ng,
                                               intersection_tolerance=case.get("tol", TOL))
                return [[float(q[0]), float(q[1])] for q in r]
            res["points"] = one(poly, nogo)
            if kind == "translate":
                t = case["t"]
                ng2 = [Shapes([[x + t[0], y + t[1]] for x, y in z]) for z in case["nogo"]] if case.get("nogo") else None
                res["points_t"] = one([[x + t[0], y + t[1]] for x, y in poly], ng2)
        elif kind == "opt":
            trace = []

            def wrap_gen(*a, **k):
                r = orig_gen(*a, **k)
                if not trace or not trace[-1].get("open"):
                    trace.append({"rot": float(k.get("rotate", 0)), "n": len(r)})
                return r

            def wrap_two(*a, **k):
                trace.append({"rot": float(k.get("rotate", 0)), "n": None, "open": True})
                r = orig_two(*a, **k)
                trace[-1]["n"] = len(r)
                trace[-1].pop("open")
                return r
            rw.gen_borehole_config = wrap_gen
            rw.two_space_gen_bhc = wrap_two
            kw = {}
            if case.get("start") is not None:
                kw["rotate_start"] = case["start"]
            if case.get("stop") is not None:
                kw["rotate_stop"] = case["stop"]
            if case.get("perim") is not None:
                field, name = rw.field_optimization_wp_space_fr(case["perim"], case["space"], case["step"], Shapes(poly), ng_zones=nogo, **kw)
            else:
                field, name = rw.field_optimization_fr(case["space"], case["step"], Shapes(poly), ng_zones=nogo, **kw)
            rw.gen_borehole_config, rw.two_space_gen_bhc = orig_gen, orig_two
            res["points"] = [[float(q[0]), float(q[1])] for q in field]
            res["name"] = name
            res["trace"] = [(t["rot"], t["n"]) for t in trace]
            # independent re-run per rotation (own enumeration of the window)
            start = case["start"] if case.get("start") is not None else ((-90.0 + case["step"]) if case.get("perim") is not None else -90.0) * (math.pi / 180.0)
            stop = case["stop"] if case.get("stop") is not None else math.pi / 2.0
            fields = []
            for rt in sweep_angles(start, stop, case["step"]):
                if case.get("perim") is not None:
                    r = orig_two(Shapes(poly), case["space"], case["space"], rotate=rt, no_go=nogo, p_space=case["perim"] * case["space"],
                                 intersection_tolerance=1e-5)
                else:
                    r = orig_gen(Shapes(poly), case["space"], case["space"], rotate=rt, no_go=nogo, intersection_tolerance=1e-5)
                fields.append((rt, [[float(q[0]), float(q[1])] for q in r]))
            res["own_fields"] = fields
        elif kind == "alias":
            # call history with the caller's coordinate buffers (float ndarrays): build the lot objects, generate, modify the
            # buffers in place, generate again from the objects built FIRST
            import numpy as np
            buf = np.array(poly, dtype=float)
            zbufs = [np.array(z, dtype=float) for z in (case.get("nogo") or [])]
            lot, zones = rw.gen_shape(buf, zbufs) if zbufs else (Shapes(buf), None)

            def gen_from(lot_, zones_):
                if case.get("sweep"):
                    f, name = rw.field_optimization_fr(case["space"], case["step"], lot_, ng_zones=zones_, rotate_start=case["start"], rotate_stop=case["stop"])
                    return [[float(q[0]), float(q[1])] for q in f] + [[name]]
                r = rw.gen_borehole_config(lot_, case["space"], case["space"], rotate=_angle(case["rot"]), no_go=zones_,
                                           intersection_tolerance=case.get("tol", TOL))
                return [[float(q[0]), float(q[1])] for q in r]
            first = gen_from(lot, zones)
            mut = case["mutate"]
            for b in [buf] + (zbufs if case.get("mutate_zones") else []):
                if mut[0] == "shift":
                    b += np.array(mut[1], dtype=float)
                elif mut[0] == "scale":
                    b *= mut[1]
                elif mut[0] == "vertex":
                    b[mut[1] % len(b)] = b[mut[1] % len(b)] + np.array(mut[2], dtype=float)
            res["buffer_after"] = [[float(v) for v in q] for q in buf]
            # what the caller would do next with the re-used buffer: the lot it now describes
            again = gen_from(lot, zones)
            second_lot = []
            if mut[0] == "shift" and not case.get("sweep"):
                second_lot = gen_from(Shapes(buf), [Shapes(z) for z in zbufs] if zbufs else None)
            name1 = first.pop() if case.get("sweep") else None
            name2 = again.pop() if case.get("sweep") else None
            res["points"] = first
            res["points_again"] = again
            res["points_second_lot"] = second_lot
            res["names"] = [name1, name2]
            res["bbox_first_lot"] = [float(lot.min_x), float(lot.max_x), float(lot.min_y), float(lot.max_y)]
            res["coords_first_lot"] = [[float(v) for v in q] for q in lot.c]
        elif kind == "container":
            import numpy as np

            def conv(form, pl):
                if form == "list":
                    return [list(q) for q in pl]
                if form == "tuples":
                    return tuple(tuple(q) for q in pl)
                if form == "list-of-tuples":
                    return [tuple(q) for q in pl]
                if form == "ndarray":
                    return np.array(pl, dtype=float)
                if form == "ndarray-fortran":
                    return np.asfortranarray(np.array(pl, dtype=float))
                if form == "python-ints":
                    return [[int(v) for v in q] for q in pl]
                if form == "ndarray-int64":
                    return np.array([[int(v) for v in q] for q in pl], dtype=np.int64)
                if form == "ints-and-one-float":
                    out = [[int(v) for v in q] for q in pl]
                    out[-1][-1] = float(out[-1][-1])
                    return out
                raise ValueError(form)
            outs = {}
            forms = ["list", "tuples", "list-of-tuples", "ndarray", "ndarray-fortran"]
            if all(float(v) == int(v) for z in [poly] + list(case.get("nogo") or []) for q in z for v in q):
                # the same numbers written as integers (JSON input without decimal points, integer arrays)
                forms += ["python-ints", "ndarray-int64", "ints-and-one-float"]
            res["n_forms"] = len(forms)
            for form in forms:
                ng = [Shapes(conv(form, z)) for z in case["nogo"]] if case.get("nogo") else None
                if case.get("sweep"):
                    f, name = rw.field_optimization_fr(case["space"], case["step"], Shapes(conv(form, poly)), ng_zones=ng,
                                                       rotate_start=case["start"], rotate_stop=case["stop"])
                    outs[form] = [[float(q[0]), float(q[1])] for q in f] + [[name]]
                else:
                    r = rw.gen_borehole_config(Shapes(conv(form, poly)), case["space"], case["space"], rotate=_angle(case["rot"]), no_go=ng,
                                               intersection_tolerance=case.get("tol", TOL))
                    outs[form] = [[float(q[0]), float(q[1])] for q in r]
            res["points"] = [q for q in outs["list"] if len(q) == 2]
            res["forms"] = outs
        elif kind == "li":
            r = Shapes(poly).line_intersect(case["row"], _angle(case["rot"]), case.get("tol", TOL))
            res["points"] = [[float(q[0]), float(q[1])] for q in r]
        elif kind == "pin":
            sh = Shapes(poly)
            res["flags"] = [bool(sh.point_intersect(list(p))) for p in case["pts"]]
        else:
            raise ValueError(kind)
    except _Timeout:
        res = {"status": "timeout"}
    except Exception as e:  # the implementation raised
        res = {"status": "raise", "exc": type(e).__name__, "msg": str(e)[:200]}
    finally:
        signal.setitimer(signal.ITIMER_PROF, 0)
        signal.signal(signal.SIGPROF, old)
        rw.gen_borehole_config, rw.two_space_gen_bhc = orig_gen, orig_two
    return res


def run_impl_timed(case):
    """run_impl plus the CPU time it took (kept outside the result, which the history stream compares for equality)."""
    import time
    t = time.process_time()
    r = run_impl(case)
    return r, time.process_time() - t


def history_impl(chunk):
    """Call history inside ONE process: run, run again with the very same argument objects, run another
    case, run a third time.  Returns per case None when all three results are equal, otherwise the name
    of the differing run and its result (which then goes through the same predicates)."""
    import copy

    out = []
    for j, case in enumerate(chunk):
        other = chunk[j - 1] if len(chunk) > 1 else case
        args0 = copy.deepcopy(case)
        r1 = run_impl(case)
        r2 = run_impl(case)
        run_impl(other)
        r3 = run_impl(case)
        rec = {"first": r1, "inputs_changed": case != args0}
        if "timeout" in (r1["status"], r2["status"], r3["status"]):
            rec["skip"] = True
        elif r2 != r1:
            rec.update(name="second run with the same arguments", later=r2)
        elif r3 != r1:
            rec.update(name="third run (after another lot)", later=r3)
        out.append(rec)
    return out


def run_design(case):
    """One full ROWWISE design (BoreFieldData observation point)."""
    os.environ["OMP_NUM_THREADS"] = "1"
    try:
        from ghedesigner.output import OutputManager
        phys = ghelib.default_physics()
        loads = [x * case["scale"] for x in ghelib.atlanta_loads()]
        cfg = {"phys": phys, "pipe": "SINGLEUTUBE", "loads": loads, "months": 12, "max_eft": 35.0, "min_eft": 5.0, "max_h": 135.0,
               "min_h": 60.0, "flow": 0.5,
               "geom": ("ROWWISE", case.get("perim"), case["max_sp"], case["min_sp"], case["sp_step"], case["max_rot"], case["min_rot"],
                        case["rot_step"], case["poly"], case.get("nogo") or [])}
        with ghelib.quiet():
            m = ghelib.build_manager(cfg)
            m.find_design()
            rows = OutputManager.get_borehole_location_data(m._search)
        return {"status": "ok", "points": [[float(r[0]), float(r[1])] for r in rows[1:]]}
    except Exception as e:
        import traceback
        return {"status": "raise", "exc": type(e).__name__, "msg": traceback.format_exc()[-400:]}


def run_mgr(case):
    """RowWise through the public manager API with loads far too large and continue_if_design_unmet=True: the manager returns the
    optimiser's field for the smallest spacing after two sweeps and two simulations (a couple of seconds).  Returns the field, what
    the constraint object holds, and the harness' own enumeration of the REQUESTED sweep on the lot and zones THE USER GAVE."""
    os.environ["OMP_NUM_THREADS"] = "1"
    import copy
    try:
        from ghedesigner import rowwise as rw
        from ghedesigner.output import OutputManager
        from ghedesigner.shape import Shapes
        user = copy.deepcopy({k: case[k] for k in ("poly", "nogo")})
        if case.get("loads") == "negligible":
            # every field is over-sized: the search ends in its "a single borehole is enough" branch
            loads = [x * 0.002 for x in ghelib.atlanta_loads()]
        else:
            loads = [-4.0e6 * (1.0 + 0.5 * math.sin(2.0 * math.pi * h / 8760.0)) for h in range(8760)]
        cfg = {"phys": ghelib.default_physics(), "pipe": "SINGLEUTUBE", "loads": loads, "months": 12, "max_eft": 35.0, "min_eft": 5.0,
               "max_h": 100.0, "min_h": 60.0, "flow": 0.5, "cont": case.get("cont", True),
               "geom": ("ROWWISE", case.get("perim"), case["max_sp"], case["space"], 0.1, case["max_rot"], case["min_rot"],
                        case["rot_step"], case["poly"], case["nogo"])}
        import warnings
        with ghelib.quiet(), warnings.catch_warnings():
            warnings.simplefilter("ignore")     # the deliberately oversized load profile makes the hybrid-load builder warn
            m = ghelib.build_manager(cfg)
            gc = m._geometric_constraints
            held = {"rotate_step": float(gc.rotate_step), "min_rotation": float(gc.min_rotation), "max_rotation": float(gc.max_rotation),
                    "n_zones": None if gc.no_go_boundaries is None else len(gc.no_go_boundaries),
                    "zones": None if gc.no_go_boundaries is None else [[[float(v) for v in q] for q in z] for z in gc.no_go_boundaries],
                    "outline": [[float(v) for v in q] for q in gc.property_boundary]}
            m.find_design()
            rows = OutputManager.get_borehole_location_data(m._search)
            pts = [[float(r[0]), float(r[1])] for r in rows[1:]]
            # own enumeration of the requested sweep (degrees -> radians as documented), zones as the user gave them
            zones = [Shapes(z) for z in user["nogo"]] if user["nogo"] else None
            lot = Shapes(user["poly"])
            start = case["min_rot"] * (math.pi / 180.0)
            if case.get("perim") is not None:
                start = case["min_rot"] * (math.pi / 180.0)
            own = []
            for rt in ([] if case.get("loads") == "negligible" else sweep_angles(start, case["max_rot"] * (math.pi / 180.0), case["rot_step"])):
                if case.get("perim") is not None:
                    f = rw.two_space_gen_bhc(lot, case["space"], case["space"], rotate=rt, no_go=zones, p_space=case["perim"] * case["space"],
                                             intersection_tolerance=1e-5)
                else:
                    f = rw.gen_borehole_config(lot, case["space"], case["space"], rotate=rt, no_go=zones, intersection_tolerance=1e-5)
                own.append((rt, [[float(q[0]), float(q[1])] for q in f]))
        return {"status": "ok", "points": pts, "held": held, "own_fields": own, "inputs_changed": user != {k: case[k] for k in ("poly", "nogo")}}
    except Exception as e:
        import traceback
        return {"status": "raise", "exc": type(e).__name__, "msg": traceback.format_exc()[-500:]}


def tilted_rect(length, width, angle_deg, x0, y0):
    a = angle_deg * math.pi / 180.0
    rot = [(x * math.cos(a) - y * math.sin(a), x * math.sin(a) + y * math.cos(a)) for x, y in ((0, 0), (length, 0), (length, width), (0, width))]
    mx, my = min(p[0] for p in rot), min(p[1] for p in rot)
    return [[p[0] - mx + x0, p[1] - my + y0] for p in rot]


def small_zone(rng, poly, nv, closing=False):
    """A convex zone with nv vertices strictly inside the convex lot, large enough to cover lattice points."""
    n = len(poly)
    cx, cy = sum(p[0] for p in poly) / n, sum(p[1] for p in poly) / n
    r = 0.33 * min(dist_boundary(poly, (cx, cy)), 40.0) / 0.5
    r = min(r, 0.8 * dist_boundary(poly, (cx, cy)))
    ph = rng.uniform(0, 2 * math.pi)
    z = [[round(cx + r * math.cos(ph + 2 * math.pi * i / nv), 3), round(cy + r * math.sin(ph + 2 * math.pi * i / nv), 3)] for i in range(nv)]
    if rng.random() < 0.5:
        z = z[::-1]
    if closing:
        z = z + [list(z[0])]
    return z


# =============================================================================== model line protocol
def _coords(poly):
    return " ".join(core.rs(float(v)) for p in poly for v in p)


def vertical_row_ratio():
    """K of the vertical-row test of gen_borehole_config as the translator read it (0: `row_space[1] == 0`)."""
    try:
        txt = (core.LEAN / "GHEVerif" / "Gen" / "RowWise.lean").read_text()
        m = __import__("re").search(r"def verticalRowRatio : Rat := \(+\(?(-?\d+) : Rat\)(?: / (\d+)\))?", txt)
        return F(int(m.group(1)), int(m.group(2) or 1))
    except Exception:
        return F(0)


def model_rot(case, ratio):
    """The exact (cos, sin) the model is run with, or None.  rotate = -pi/2 in floating point (cos = 6e-17) is the model's (0, -1)
    only when the code treats a negligible cosine as a vertical row (ratio > 0)."""
    r = case.get("rot")
    if isinstance(r, list):
        return None if (tuple(r) == ("0", "-1") and ratio == 0) else r
    if ratio > 0 and r == -math.pi / 2:
        return ["0", "-1"]
    return None


def line_gen(case, rot=None):
    c, s = rot or case["rot"]
    return f"rw_gen {core.rs(case.get('tol', TOL))} {core.rs(case['space'])} {core.rs(case['space'])} {c} {s} {_coords(case['poly'])}"


def parse_pts(toks):
    n = int(toks[0])
    return [(float(core.pr(toks[1 + 2 * i])), float(core.pr(toks[2 + 2 * i]))) for i in range(n)]


def parse_model(out):
    """-> (near_boundary, status, payload)"""
    toks = out.split()
    nb = False
    if toks and toks[0] in ("ex", "nb"):
        nb = toks[0] == "nb"
        toks = toks[1:]
    if toks and toks[0] in ("s0", "s1"):
        toks = toks[1:]
    if not toks:
        return nb, "bad", out
    if toks[0] == "ok":
        return nb, "ok", toks[1:]
    if toks[0] == "raise":
        return nb, "raise", toks[1]
    if toks[0] == "diverges":
        return nb, "timeout", None
    return nb, "bad", out


def pts_close(a, b, eps=1e-7):
    return len(a) == len(b) and all(abs(p[0] - q[0]) <= eps * max(1.0, abs(q[0])) and abs(p[1] - q[1]) <= eps * max(1.0, abs(q[1]))
                                    for p, q in zip(a, b))


# =============================================================================== predicate
def known_vertex_row(poly, space, pts, i, j):
    """Signature of the recorded finding: the closer-than-spacing pair consists of an outline vertex hit exactly by a
    row and the midpoint of that row's (shorter than spacing) chord: the two points and the vertex are collinear,
    one of the two points IS a vertex of the outline."""
    for a, b in ((i, j), (j, i)):
        v = next((q for q in poly if abs(q[0] - pts[a][0]) <= 1e-4 and abs(q[1] - pts[a][1]) <= 1e-4), None)
        if v is not None and math.hypot(pts[a][0] - pts[b][0], pts[a][1] - pts[b][1]) < space:
            return True
    return False


def check_field(ctx, case, pts, what, tag, rot_used=None):
    """inside / no-go / spacing predicates on one returned field.  Returns True when everything holds."""
    poly = case["poly"]
    ok = True
    for p in pts:
        if clearly_outside(poly, p):
            d_out = dist_boundary(poly, p)
            zones = case.get("nogo") or []
            if zones and d_out < case["space"] / 2 and min(dist_boundary(z, p) for z in zones) < case["space"]:
                # recorded finding: process_rows widens a no-go chord shorter than the spacing symmetrically to the spacing; when the
                # widened end passes the end of the row, distribute() gets its end points reversed and puts their midpoint outside
                ctx.finding("outside-outline-nogo-widened-chord", f"{what}: borehole {p} lies {d_out:.3g} m outside the outline next to a no-go zone",
                            {"case": case, "point": p})
            else:
                ctx.finding(f"outside-outline:{tag}", f"{what}: borehole {p} lies outside the outline (distance {d_out:.3g})",
                            {"case": case, "point": p})
            ok = False
            break
    for z in case.get("nogo") or []:
        bad = next((p for p in pts if clearly_inside(z, p)), None)
        if bad is not None:
            if not is_convex(z):
                # outside the quantifier (convex no-go zones): observed, recorded, not judged
                ctx.count("observed:borehole-inside-nonconvex-nogo")
                ctx.extra.setdefault("observed_nonconvex_nogo", {"point": bad, "depth": dist_boundary(z, bad), "space": case["space"], "rot": case.get("rot")})
                continue
            ctx.finding(f"inside-nogo:{tag}", f"{what}: borehole {bad} lies inside a no-go zone ({dist_boundary(z, bad):.3g} from its edge)",
                        {"case": case, "point": bad})
            ok = False
            break
    if case.get("perim") is None and not case.get("nogo") and len(pts) >= 2:
        d, i, j = min_pair(pts)
        if d < case["space"] - EPS_SP:
            on_vertical_edge = any(
                poly[k][0] == poly[(k + 1) % len(poly)][0] and abs(pts[i][0] - poly[k][0]) <= 1e-6 and abs(pts[j][0] - poly[k][0]) <= 1e-6
                for k in range(len(poly)))
            if rot_used is not None and abs(rot_used + math.pi / 2) < 1e-12 and on_vertical_edge:
                # recorded finding: rotate = -pi/2 is not exact in floating point (cos = 6e-17), the code then works with rows of slope
                # -8e15 given by two points 1000 m apart; the intersection of such a row with a VERTICAL outline edge is
                # a2*x + c2 with |c2| ~ 1e17, i.e. garbage in steps of 2..64 m, and the row lying on that edge gets arbitrary boreholes
                ctx.finding("spacing-rot-minus90-on-vertical-edge",
                            f"{what} at rotate = -pi/2: boreholes {pts[i]} and {pts[j]} on the vertical outline edge x = {pts[i][0]} are {d:.4g} m apart, "
                            f"target {case['space']}", {"case": case, "pair": [pts[i], pts[j]]})
            elif known_vertex_row(poly, case["space"], pts, i, j):
                ctx.finding("spacing-row-through-vertex-short-chord",
                            f"{what}: boreholes {pts[i]} and {pts[j]} are {d:.4g} m apart, target {case['space']}", {"case": case, "pair": [pts[i], pts[j]]})
            else:
                ctx.finding(f"spacing:{tag}", f"{what}: boreholes {pts[i]} and {pts[j]} are {d:.6g} m apart, target {case['space']}",
                            {"case": case, "pair": [pts[i], pts[j]]})
            ok = False
    return ok


def few_bits(x):
    """A number whose sums/differences/squares with its like are exact in binary floating point
    (dyadic, at most ~20 significant bits): 7.5, 10, 12.5, 3.25, 55, …"""
    f = F(x)
    d = f.denominator
    return d & (d - 1) == 0 and d <= 1024 and abs(f.numerator) < 2 ** 20


def rect_expect(poly, space):
    """Acceptable lattices on an axis-aligned rectangle at rotation 0.

    -> None (not a rectangle) or (lattices, note).  Along a row (x) the code's arithmetic is exact when the
    corner coordinates and the spacing have few bits (the intersections with the vertical edges are the
    corner abscissae themselves), so W = k*s EXACTLY is judged strictly: k + 1 columns.  Otherwise a ratio
    within 1e-12 (relative) of an integer may legitimately fall on either side (ulp of sqrt / atan / sin:
    the row count uses dist*sin(atan(y/x) - rotate)): both adjacent branches are accepted, each as a full
    lattice.  0 columns means: one borehole per row, on the left edge.  0 rows: ZeroDivisionError."""
    xs, ys = sorted({F(p[0]) for p in poly}), sorted({F(p[1]) for p in poly})
    if len(xs) != 2 or len(ys) != 2 or len(poly) != 4:
        return None
    w, h, s = xs[1] - xs[0], ys[1] - ys[0], F(space)
    exact_x = all(few_bits(v) for p in poly for v in p) and few_bits(space)

    def cands(L, strict_if_integer):
        q = L / s
        k = round(q)
        if q == k and strict_if_integer:
            return [int(k)], "exact-multiple"
        if abs(q - k) <= F(1, 10 ** 12) * max(1, q):
            return sorted({max(int(k) - 1, 0), int(k)}), "near"
        return [math.floor(q)], "generic"
    nxs, notex = cands(w, exact_x)
    nys, notey = cands(h, False)
    lats = []
    for nx in nxs:
        for ny in nys:
            if ny < 1:
                lats.append(None)          # ZeroDivisionError
                continue
            cols = [xs[0] + i * w / nx for i in range(nx + 1)] if nx >= 1 else [xs[0]]
            lats.append([(float(x), float(ys[0] + j * h / ny)) for j in range(ny + 1) for x in cols])
    return lats, f"x:{notex},y:{notey}"


def check_rect(ctx, c, pts, what):
    """Rectangle-lattice predicate (rotation 0) on one returned field."""
    exp = rect_expect(c["poly"], c["space"])
    if exp is None:
        return
    lats, note = exp
    ctx.count("rect:" + note)
    if any(l is not None and same_points(pts, l, 1e-6) for l in lats):
        return
    want = [len(l) for l in lats if l is not None]
    ctx.finding("rect-lattice" if "near" not in note else "rect-lattice-near-boundary",
                f"{what}: rectangle {c['poly']} spacing {c['space']} ({note}): {len(pts)} boreholes, expected the "
                f"{' or '.join(map(str, want))}-point lattice (floor(W/s)+1) x (floor(H/s)+1)",
                {"case": c, "impl": pts, "expected": [l for l in lats if l is not None][:2]})


def check_band(ctx, c, pts, what):
    """Lots with two vertical edges exactly k spacings apart over a y-band (rotation 0): every row of boreholes
    strictly inside the band consists of exactly the k + 1 points xl + i*s (x arithmetic exact: few-bit data)."""
    b = c["band"]
    rows = {}
    for x, y in pts:
        rows.setdefault(round(y, 6), []).append(x)
    n_checked = 0
    for y, xs in sorted(rows.items()):
        if b["ya"] + 1e-6 < y < b["yb"] - 1e-6:
            n_checked += 1
            want = [b["xl"] + i * (b["xr"] - b["xl"]) / b["k"] for i in range(b["k"] + 1)]
            if len(xs) != len(want) or any(abs(u - v) > 1e-6 for u, v in zip(sorted(xs), want)):
                ctx.finding("row-exact-width", f"{what}: outline {c['poly']} spacing {c['space']}: the row at y = {y} spans exactly "
                            f"{b['k']} spacings between the vertical edges x = {b['xl']} and x = {b['xr']} but holds boreholes at x = {sorted(xs)}, "
                            f"expected {want}", {"case": c, "row_y": y, "xs": sorted(xs)})
                return
    ctx.count("band:rows-checked", n_checked)
    if n_checked == 0:
        ctx.finding("row-exact-width", f"{what}: outline {c['poly']} spacing {c['space']}: no row of boreholes inside the band "
                    f"{b['ya']} < y < {b['yb']}", {"case": c})


RECT_ORDERS = [(k, rev) for k in range(4) for rev in (False, True)]


def rect_in_order(x0, y0, x1, y1, order):
    base = [[x0, y0], [x1, y0], [x1, y1], [x0, y1]]
    k, rev = order
    p = base[k:] + base[:k]
    return p[::-1] if rev else p


def boundary_cases(add):
    """Boundary-targeted lots, run in every tier (deterministic, no randomness): widths / heights that are exact
    multiples of the spacing, one ulp and 2e-9 (relative) off, all eight vertex orders, touching / not touching
    the axes, through gen_borehole_config and through field_optimization_fr with a window holding rotation 0 only;
    and non-rectangular convex lots with a row exactly k spacings wide."""
    n = [0]

    def both(shape, poly, s, extra=None):
        extra = extra or {}
        for rot in (["1", "0"], 0.0):
            add(dict({"kind": "gen", "stream": "boundary", "shape": shape, "poly": poly, "space": s, "rot": rot}, **extra))
        add(dict({"kind": "opt", "stream": "boundary-opt", "shape": shape, "poly": poly, "space": s, "step": 5.0, "start": 0.0, "stop": 0.05,
                  "rots": [["1", "0"]], "single_rot0": True}, **extra))

    def order():
        n[0] += 1
        return RECT_ORDERS[n[0] % 8]
    # rotations a hair away from +-90 deg (rows almost, but not exactly, vertical) on lots with vertical edges: must return,
    # inside, spaced (a tolerance-based "vertical" test in vector_intersect makes distribute() walk off its end point for ever)
    for poly in ([[7.5, 0.0], [38.5, 0.0], [38.5, 108.0], [7.5, 108.0]], [[0.0, 0.0], [60.0, 0.0], [60.0, 30.0], [0.0, 30.0]],
                 [[40.0, 50.0], [90.0, 40.0], [40.0, 80.0]]):
        for rot in (math.pi / 2 - 5e-6, -math.pi / 2 + 3e-6, math.pi / 2 - 1e-9, -math.pi / 2 + 1e-9, math.pi / 2 - 1e-13, -math.pi / 2 + 2e-13,
                    math.pi / 2 - 2e-5, -math.pi / 2, math.pi / 2):
            add({"kind": "gen", "stream": "boundary", "shape": "near-vertical-rows", "poly": poly, "space": 16.541 if poly[0][0] == 7.5 else 7.0, "rot": rot})
    # lots (and zones) written with integers only: the same numbers must give bit-identical fields to the float form, with row steps
    # that are not whole numbers (a row point kept in the lot array's integer dtype would be truncated at every row)
    for poly, zone in (([[0, 0], [40, 0], [40, 30], [0, 30]], None), ([[0, 0], [60, 0], [60, 40], [0, 40]], [[20, 12], [40, 12], [30, 29]]),
                       ([[10, 0], [70, 20], [50, 90], [0, 60]], None), ([[0, 0], [50, 0], [0, 40]], None)):
        fp = [[float(v) for v in q] for q in poly]
        fz = [[[float(v) for v in q] for q in zone]] if zone else None
        for rot in (0.0, 0.3, -1.1, math.pi / 2):
            add({"kind": "container", "stream": "container", "shape": "integer-lot", "poly": fp, "space": 7.2, "rot": rot, "nogo": fz, "perim": None})
        add({"kind": "container", "stream": "container", "shape": "integer-lot", "poly": fp, "space": 7.2, "rot": None, "nogo": fz, "perim": None,
             "sweep": True, "step": 15.0, "start": -0.5, "stop": 0.6})
    offsets = [(0.0, 0.0), (0.0, 12.0), (7.5, 0.0), (3.25, 4.5), (10.0, 10.0)]
    for s in (7.5, 10.0, 12.5):
        for k in (1, 2, 3):
            for (x0, y0) in offsets:
                # W = k*s exactly, H generic (5.5 s): strict k + 1 columns
                both("rect", rect_in_order(x0, y0, x0 + k * s, y0 + 5.5 * s, order()), s)
                # H = k*s exactly, W generic
                both("rect", rect_in_order(x0, y0, x0 + 4.3 * s, y0 + k * s, order()), s)
                # both exact
                both("rect", rect_in_order(x0, y0, x0 + k * s, y0 + (k + 1) * s, order()), s)
            # every vertex order for the lot exactly k spacings wide
            for o in RECT_ORDERS:
                both("rect", rect_in_order(2.5, 5.0, 2.5 + k * s, 5.0 + 4.75 * s, o), s)
            # one ulp and 2e-9 (relative) below / above k*s, lot on the axis (x1 is then W itself) and off it
            for x0 in (0.0, 8.0):
                for w in (math.nextafter(k * s, 0.0), math.nextafter(k * s, math.inf), k * s * (1 - 2e-9), k * s * (1 + 2e-9)):
                    both("rect", rect_in_order(x0, 0.0, x0 + w, 5.5 * s, order()), s)
                    both("rect", rect_in_order(x0, 6.0, x0 + 4.3 * s, 6.0 + w, order()), s)
            # convex hexagon: vertical edges exactly k spacings apart for y in [ya, yb], slanted caps
            for (x0, y0) in ((0.0, 0.0), (4.0, 2.5)):
                xl, xr = x0, x0 + k * s
                hexa = [[xl, y0 + s], [x0 + k * s / 2, y0], [xr, y0 + s], [xr, y0 + 4.25 * s], [x0 + k * s / 2, y0 + 5.25 * s], [xl, y0 + 4.25 * s]]
                r = n[0] % 6
                n[0] += 1
                hx = hexa[r:] + hexa[:r]
                if n[0] % 2:
                    hx = hx[::-1]
                both("vband", hx, s, {"band": {"xl": xl, "xr": xr, "ya": y0 + s, "yb": y0 + 4.25 * s, "k": k}})
            # trapezoid (left edge vertical, right edge slanted): the row at 3/4 of the height is exactly k*s wide up to rounding
            for (x0, y0) in ((0.0, 0.0), (6.0, 3.0)):
                w0, w1 = k * s + 24.0, k * s - 8.0
                if w1 <= 0:
                    w0, w1 = k * s + 6.0, k * s - 2.0
                both("trapezoid", [[x0, y0], [x0 + w0, y0], [x0 + w1, y0 + 4.5 * s], [x0, y0 + 4.5 * s]], s)


# =============================================================================== run
def load_corpus():
    d = core.CORPUS / PROPERTY
    out = []
    if d.exists():
        for f in sorted(d.glob("*.json")):
            c = json.loads(f.read_text())
            for cc in (c if isinstance(c, list) else [c]):
                cc["corpus"] = f.name
                out.append(cc)
    return out


def run(ctx: core.Ctx):
    rng = ctx.rng
    quick = ctx.tier == "quick"
    ctx.rule = ("one case = one call of gen_borehole_config / two_space_gen_bhc / field_optimization_fr / field_optimization_wp_space_fr "
                "(or of line_intersect / point_intersect) on a generated outline; distinct = distinct (stream, outline, spacing, rotation "
                "or window, no-go, perimeter ratio, translation); non-trivial = the call returned at least 2 boreholes (helper streams: all)")
    ctx.trusted_base += [
        "translator plug-in translate/gen_rowwise.py (tolerances, factors and defaults of rowwise.py / shape.py)",
        "hand-written model Model/RowWise.lean (no no-go zones, no perimeter spacing, exact (cos, sin) rotations), tied to the code by "
        "differential runs of gen_borehole_config, field_optimization_fr, line_intersect, point_intersect",
        "sqrt of a squared distance between two points of one row is modelled as |projection difference| (lemma rowDist_sq)",
        "CPython/numpy float rounding within 1e-7 on coordinates; inputs whose exact decisions lie within 1e-9 (relative) of a branch "
        "boundary are flagged near-boundary by the model and compared up to the adjacent branch",
        "the harness oracles (Fraction crossing number, closest pair, own duplicate filter, own enumeration of the rotation window)",
    ]
    ctx.assumptions += [
        "convex outlines with non-negative coordinates; spacing 5-25 m; rotation windows within [-90, 90] deg, steps 0.5-15 deg",
        "rotate = -90 deg is excluded from the exact model comparison (cos(-pi/2) = 6e-17 in floating point: the code then works with a "
        "row of slope -8e15); it is covered by the predicate",
        "no-go zones and perimeter spacing are covered by the predicate on sampled inputs only (not modelled)",
        "a non-returning call is detected by a CPU-time guard (ITIMER_PROF) of max(%.0f s, %.0f x the CPU time estimated for the unchanged code "
        "from the case's size: boreholes per generation x generations); cases whose guard would exceed %.0f s run under a longer guard whose "
        "expiry is only counted (guard-expired-large-case)" % (GUARD_MIN, GUARD_FACTOR, GUARD_CAP),
    ]
    ctx.lean_prepare()
    vratio = vertical_row_ratio()
    ctx.extra["vertical_row_ratio_of_the_source"] = str(vratio)
    if vratio > 0:
        ctx.assumptions[:] = [a for a in ctx.assumptions if not a.startswith("rotate = -90 deg is excluded")]
        ctx.assumptions.append("rotate = -pi/2 (cos = 6e-17 in floating point) is compared with the model's exact vertical row (0, -1): the source treats "
                               "|cos| <= %s |sin| as a vertical row" % float(vratio))

    scale = 1 if quick else 16
    cases = []

    def add(c):
        c["id"] = len(cases)
        plan_guard(c)
        ctx.count("guard:" + ("large-case" if c["_large"] else "<=5s" if c["_guard"] <= 5 else "<=30s" if c["_guard"] <= 30 else "<=150s"))
        cases.append(c)
        return c

    # ------------------------------------------------------------ corpus first
    for c in load_corpus():
        add(c)

    # ------------------------------------------------------------ boundary-targeted lots (every tier, deterministic)
    boundary_cases(add)

    # ------------------------------------------------------------ stream gen: rational rotations (exact model) + arbitrary angles
    n_gen = 260 * scale
    for _ in range(n_gen):
        kind, poly = gen_polygon(rng)
        space = rng.choice([float(rng.randint(5, 25)), round(rng.uniform(5, 25), 1), round(rng.uniform(5, 25), 3), rng.uniform(5, 25)])
        if kind == "lattice" and rng.random() < 0.6:
            space = rng.choice([7.3, 11.7, 13.1, 9.9, 17.3, 23.9])
        r = rng.random()
        if r < 0.6:
            rot = list(rng.choice(RAT_ROTS))
        elif r < 0.75:
            rot = rng.choice([0.0, -math.pi / 2, math.pi / 2, -math.pi / 4, math.pi / 4])
        else:
            rot = rng.uniform(-math.pi / 2, math.pi / 2)
        add({"kind": "gen", "stream": "gen", "shape": kind, "poly": poly, "space": space, "rot": rot})
    # rectangles at rotation 0, every vertex order
    for _ in range(12 * scale):
        _, poly = gen_polygon(rng, "rect")
        space = rng.choice([float(rng.randint(5, 25)), round(rng.uniform(5, 25), 2)])
        add({"kind": "gen", "stream": "gen", "shape": "rect", "poly": poly, "space": space, "rot": ["1", "0"]})
    # the demo outline (not convex): correspondence + inside predicate
    for rot in (["1", "0"], ["4/5", "-3/5"], -0.3):
        add({"kind": "gen", "stream": "gen", "shape": "demo", "poly": DEMO_OUTLINE, "space": rng.choice([10.0, 14.5, 20.0]), "rot": rot, "nonconvex": True})
    # ------------------------------------------------------------ no-go zones / perimeter (predicate only)
    for _ in range(60 * scale):
        kind, poly = gen_polygon(rng, rng.choice(["ellipse", "ellipse_axes", "rect", "lattice", "edge_on_axis"]))
        if not is_convex(poly):
            continue
        space = round(rng.uniform(5, 25), 1)
        nogo = [gen_nogo(rng, poly)] if rng.random() < 0.7 else None
        perim = round(rng.uniform(0.6, 1.0), 2) if rng.random() < 0.5 or nogo is None else None
        add({"kind": "gen", "stream": "gen-ng", "shape": kind, "poly": poly, "space": space, "rot": rng.uniform(-math.pi / 2, math.pi / 2),
             "nogo": nogo, "perim": perim})
    add({"kind": "gen", "stream": "gen-ng", "shape": "demo", "poly": DEMO_OUTLINE, "space": 15.0, "rot": -0.5, "nogo": [DEMO_NOGO], "perim": 0.8, "nonconvex": True})
    add({"kind": "gen", "stream": "gen-ng", "shape": "demo", "poly": DEMO_OUTLINE, "space": 12.0, "rot": 0.2, "nogo": [DEMO_NOGO], "perim": None, "nonconvex": True})
    # ------------------------------------------------------------ translation
    for _ in range(40 * scale):
        kind, poly = gen_polygon(rng, rng.choice(["ellipse", "ellipse_axes", "tri_origin", "rect", "sliver"]))
        t = [float(rng.randint(0, 200)), float(rng.randint(0, 200))]
        add({"kind": "translate", "stream": "translate", "shape": kind, "poly": poly, "space": round(rng.uniform(5, 25), 3) + 0.0007,
             "rot": rng.choice([rng.uniform(-math.pi / 2, math.pi / 2), 0.0, list(rng.choice(RAT_ROTS))]), "t": t})
    # ------------------------------------------------------------ several no-go zones on one row, every listing order
    import itertools
    rot_kinds = [0.0, 0.03, -0.04, math.pi / 2, math.pi / 2 - 0.03, -math.pi / 2 + 0.02, "generic", "generic"]
    for rep in range(scale):
        for rk in rot_kinds:
            rot = rng.uniform(-1.3, 1.3) if rk == "generic" else rk
            for n in (2, 3):
                poly, zones, space = gen_multizone(rng, rot, n)
                if not (is_convex(poly) and all(is_convex(z) for z in zones) and all(crossing(poly, q) == 1 for z in zones for q in z)):
                    ctx.count("multi-ng:generator-rejected")
                    continue
                for perm in itertools.permutations(range(n)):
                    add({"kind": "gen", "stream": "multi-ng", "shape": "multi-zone", "poly": poly, "space": space, "rot": rot,
                         "nogo": [zones[i] for i in perm], "perim": None, "zone_order": list(perm)})
                if n == 2 and rk in (0.0, math.pi / 2, "generic"):
                    for perm in ((0, 1), (1, 0)):
                        add({"kind": "gen", "stream": "multi-ng", "shape": "multi-zone", "poly": poly, "space": space, "rot": rot,
                             "nogo": [zones[i] for i in perm], "perim": 0.8, "zone_order": list(perm)})
                        a0 = rot - 0.1
                        add({"kind": "opt", "stream": "multi-ng-opt", "shape": "multi-zone", "poly": poly, "space": space, "step": 4.0,
                             "start": max(-math.pi / 2, a0), "stop": min(math.pi / 2, a0 + 0.25), "nogo": [zones[i] for i in perm], "perim": None,
                             "zone_order": list(perm)})
        for rk in (0.0, math.pi / 2, -0.04, "generic"):
            rot = rng.uniform(-1.3, 1.3) if rk == "generic" else rk
            poly, zones, space = gen_multizone(rng, rot, 4)
            if not (is_convex(poly) and all(is_convex(z) for z in zones) and all(crossing(poly, q) == 1 for z in zones for q in z)):
                ctx.count("multi-ng:generator-rejected")
                continue
            perms = [(0, 1, 2, 3), (3, 2, 1, 0), tuple(rng.sample(range(4), 4)), tuple(rng.sample(range(4), 4))]
            for perm in perms:
                add({"kind": "gen", "stream": "multi-ng", "shape": "multi-zone", "poly": poly, "space": space, "rot": rot,
                     "nogo": [zones[i] for i in perm], "perim": None, "zone_order": list(perm)})
    # ------------------------------------------------------------ caller's buffers (float ndarrays) modified after construction
    for _ in range(30 * scale):
        kind, poly = gen_polygon(rng, rng.choice(["ellipse", "ellipse_axes", "rect", "tri_origin", "lattice", "edge_on_axis"]))
        space = round(rng.uniform(5, 25), 1)
        mut = rng.choice([["shift", [float(rng.randint(5, 200)), float(rng.randint(5, 200))]], ["shift", [rng.uniform(1, 50), 0.0]],
                          ["scale", rng.choice([0.5, 1.5, 2.0])], ["vertex", rng.randrange(12), [rng.uniform(5, 40), rng.uniform(5, 40)]]])
        conv = is_convex(poly)
        nogo = [gen_nogo(rng, poly)] if conv and rng.random() < 0.3 else None
        space = cap_space(poly, space, 500)
        c = {"kind": "alias", "stream": "alias", "shape": kind, "poly": poly, "space": space, "nogo": nogo, "perim": None, "mutate": mut,
             "mutate_zones": rng.random() < 0.5}
        if rng.random() < 0.3:
            a0 = rng.uniform(-1.4, 1.0)
            c.update(sweep=True, step=rng.choice([5.0, 10.0, 15.0]), start=a0, stop=min(math.pi / 2, a0 + rng.uniform(0.2, 0.9)), rot=None)
        else:
            c["rot"] = rng.choice([0.0, rng.uniform(-math.pi / 2, math.pi / 2)])
        add(c)
    # ------------------------------------------------------------ the same numbers in other containers
    for _ in range(24 * scale):
        kind, poly = gen_polygon(rng, rng.choice([None, "lattice", "edge_on_axis"]))
        conv = is_convex(poly)
        nogo = [gen_nogo(rng, poly)] if conv and rng.random() < 0.3 else None
        if nogo and kind in ("lattice", "edge_on_axis") and rng.random() < 0.6:
            nogo = [[[float(round(v)) for v in q] for q in nogo[0]]]
            if not (is_convex(nogo[0]) and all(crossing(poly, q) == 1 for q in nogo[0])):
                nogo = None
        c = {"kind": "container", "stream": "container", "shape": kind, "poly": poly, "space": cap_space(poly, round(rng.uniform(5, 25), 1), 500),
             "nogo": nogo, "perim": None}
        if rng.random() < 0.25:
            a0 = rng.uniform(-1.4, 1.0)
            c.update(sweep=True, step=rng.choice([5.0, 10.0]), start=a0, stop=min(math.pi / 2, a0 + rng.uniform(0.2, 0.6)), rot=None)
        else:
            c["rot"] = rng.choice([0.0, rng.uniform(-math.pi / 2, math.pi / 2)])
        add(c)
    # ------------------------------------------------------------ rotation sweeps
    thetas = {"3/4": (F(4, 5), F(3, 5)), "5/12": (F(12, 13), F(5, 13)), "7/24": (F(24, 25), F(7, 25)), "8/15": (F(15, 17), F(8, 17))}
    for _ in range(24 * scale):          # exact windows k*theta
        kind, poly = gen_polygon(rng, rng.choice(["ellipse", "ellipse_axes", "lattice", "rect", "tri_origin", "edge_on_axis"]))
        key = rng.choice(sorted(thetas))
        c1, s1 = thetas[key]
        th = math.atan2(float(s1), float(c1))
        kmax = int((math.pi / 2 - 1e-9) // th)
        k0 = rng.randint(-kmax, kmax - 1)
        k1 = rng.randint(k0, kmax)
        rots = []
        for k in range(k0, k1 + 1):
            z = complex(1, 0)
            cc, ss = F(1), F(0)
            for _i in range(abs(k)):
                cc, ss = cc * c1 - ss * s1, ss * c1 + cc * s1
            if k < 0:
                ss = -ss
            rots.append((cc, ss))
        space = rng.choice([7.3, 11.7, 13.1, round(rng.uniform(5, 25), 2)])
        add({"kind": "opt", "stream": "opt-exact", "shape": kind, "poly": poly, "space": space, "step": th * 180.0 / math.pi,
             "start": k0 * th, "stop": min(math.pi / 2, k1 * th + th / 2), "rots": [[str(a), str(b)] for a, b in rots]})
    for _ in range(50 * scale):          # arbitrary windows, with / without perimeter, no-go
        kind, poly = gen_polygon(rng)
        space = round(rng.uniform(5, 25), 1)
        step = rng.choice([0.5, 1.0, 2.5, 5.0, 7.5, 10.0, 15.0, round(rng.uniform(0.5, 15), 2)])
        if rng.random() < 0.35:
            start = stop = None
        else:
            a, b = sorted([rng.choice([-90.0, -60.0, -45.0, 0.0, round(rng.uniform(-90, 90), 1)]), rng.choice([90.0, 45.0, 0.0, 30.0, round(rng.uniform(-90, 90), 1)])])
            if b - a < step:
                a, b = -90.0, 90.0
            if (b - a) / step > 120:
                step = max(step, 2.5)
            start, stop = a * math.pi / 180.0, b * math.pi / 180.0
        conv = is_convex(poly)
        nogo = [gen_nogo(rng, poly)] if conv and rng.random() < 0.25 else None
        perim = round(rng.uniform(0.6, 1.0), 2) if rng.random() < 0.3 else None
        add({"kind": "opt", "stream": "opt", "shape": kind, "poly": poly, "space": space, "step": step, "start": start, "stop": stop,
             "nogo": nogo, "perim": perim})
    # ------------------------------------------------------------ helper streams
    for _ in range(60 * scale):
        kind, poly = gen_polygon(rng)
        c, s = rng.choice(RAT_ROTS)
        xs, ys = [p[0] for p in poly], [p[1] for p in poly]
        px, py = rng.uniform(min(xs), max(xs)), rng.uniform(min(ys), max(ys))
        if F(c) == 0:
            row = [px, py, px, py + 1000.0]
        else:
            row = [px, py, px + 1000.0, py + float(F(s) / F(c)) * 1000.0]
        add({"kind": "li", "stream": "li", "shape": kind, "poly": poly, "rot": [c, s], "row": row})
        pts = [[rng.uniform(min(xs) - 5, max(xs) + 5), rng.uniform(min(ys) - 5, max(ys) + 5)] for _ in range(25)]
        add({"kind": "pin", "stream": "pin", "shape": kind, "poly": poly, "pts": pts})

    for c in cases:
        c.setdefault("stream", c.get("corpus", "corpus") and "corpus")
        ctx.count("stream:" + c["stream"])
        ctx.count("shape:" + str(c.get("shape", "corpus")))
        if c["kind"] in ("gen", "translate"):
            ctx.count("rotation:" + ("rational" if isinstance(c["rot"], list) else "float"))
        if c.get("nogo"):
            ctx.count("with-nogo")
            ctx.count("nogo-zones:%d" % len(c["nogo"]))
        if c.get("perim") is not None:
            ctx.count("with-perimeter")
        ctx.count("vertices:%d" % len(c["poly"]))

    # ------------------------------------------------------------ run the implementation (pool) and the model
    timed = core.pool_map(run_impl_timed, cases, chunksize=4)
    results = [r for r, _ in timed]
    # how much of its guard each returning case used: the estimate behind the guards is re-measured on every run
    used = [(cpu / c["_guard"], cpu / max(c["_est"], 1e-3), c) for (r, cpu), c in zip(timed, cases) if r["status"] != "timeout" and not c["_large"]]
    if used:
        top = max(used, key=lambda u: u[0])
        ctx.extra["guard_usage"] = {"max_fraction_of_guard_used_by_a_returning_case": round(top[0], 4), "that_case": {"kind": top[2]["kind"], "stream": top[2]["stream"],
                                    "estimated_cpu_s": top[2]["_est"], "guard_s": top[2]["_guard"]},
                                    "max_cpu_over_estimate": round(max(u[1] for u in used if u[2]["_est"] >= 0.3), 3)
                                    if any(u[2]["_est"] >= 0.3 for u in used) else None}
        for frac, _, c in used:
            if frac > 0.2:
                ctx.count("guard:returning-case-used-more-than-20-percent")
    ctx.programs = 7
    # call histories in one process: a later run of the same case that differs from the first replaces
    # the single-run result, so that every predicate below judges it
    hist = [c["id"] for c in cases if c["kind"] in ("gen", "opt", "li") and results[c["id"]]["status"] == "ok" and c.get("guard") is None and not c.get("_large")]
    hist = hist[:: max(1, len(hist) // (150 if ctx.tier == "quick" else 900))]
    hchunks = [hist[j:j + 6] for j in range(0, len(hist), 6)]
    for ch, hr in zip(hchunks, core.pool_map(history_impl, [[cases[i] for i in ch] for ch in hchunks]) if hchunks else []):
        for i, rec in zip(ch, hr):
            if rec.get("skip"):
                continue
            ctx.count("history: run, run again, other lot, run again")
            ctx.case(("history", i), True)
            if rec["first"] != results[i] or rec["inputs_changed"] or "later" in rec:
                ctx.disagreements_checked += 1
                if "history-correspondence" not in ctx.broken:
                    ctx.broken.append("history-correspondence")
                    ctx.extra["history_first"] = {"case": {k: v for k, v in cases[i].items() if k != "poly"} | {"poly": cases[i]["poly"]},
                                                  "what": rec.get("name") or ("the caller's arguments were modified in place" if rec["inputs_changed"] else "first run in the history process differs from the single run")}
            if "later" in rec:
                results[i] = rec["later"]
                cases[i]["history"] = rec["name"]

    model_lines, model_idx = [], []
    for c in cases:
        if c["kind"] in ("gen", "translate") and model_rot(c, vratio) is not None and not c.get("nogo") and c.get("perim") is None:
            model_idx.append((c["id"], "gen"))
            model_lines.append(line_gen(c, model_rot(c, vratio)))
            if not isinstance(c["rot"], list):
                ctx.count("model:rotate=-pi/2 compared with the exact vertical row (0,-1)")
        elif c["kind"] == "opt" and c.get("rots"):
            model_idx.append((c["id"], "opt"))
            model_lines.append(f"rw_opt {core.rs(TOL)} {core.rs(c['space'])} {len(c['rots'])} " + " ".join(f"{a} {b}" for a, b in c["rots"]) + " " + _coords(c["poly"]))
        elif c["kind"] == "li":
            model_idx.append((c["id"], "li"))
            model_lines.append(f"rw_li {core.rs(TOL)} {c['rot'][0]} {c['rot'][1]} " + " ".join(core.rs(v) for v in c["row"]) + " " + _coords(c["poly"]))
        elif c["kind"] == "pin":
            for k, p in enumerate(c["pts"]):
                model_idx.append((c["id"], ("pin", k)))
                model_lines.append(f"rw_pin {core.rs(p[0])} {core.rs(p[1])} {_coords(c['poly'])}")
        if c["kind"] == "opt":
            tr = results[c["id"]].get("trace")
            if tr is not None:
                model_idx.append((c["id"], "sweep"))
                model_lines.append("rw_sweep " + " ".join(str(n) for _, n in tr))
                a = (case_start_deg(c))
                model_idx.append((c["id"], "nrot"))
                model_lines.append(f"rw_nrot {core.rs(a[0])} {core.rs(a[1])} {core.rs(c['step'])}")
    # the model runs in parallel slices (Rat arithmetic on 12-gons with hundreds of boreholes is the slow side)
    mout = driver_parallel(ctx, model_lines)
    model = {}
    if mout is not None:
        for (cid, what), o in zip(model_idx, mout):
            model.setdefault(cid, {})[what] = o

    def disagree(stream, case, detail):
        ctx.disagreements_checked += 1
        name = f"{stream}-correspondence"
        if name not in ctx.broken:
            ctx.broken.append(name)
            ctx.extra[f"{stream}_first_disagreement"] = {"case": {k: v for k, v in case.items() if k != "id"}, "detail": detail}

    n_samples = 0
    for c in cases:
        r = results[c["id"]]
        m = model.get(c["id"], {})
        tag = c["stream"]
        sig_rot = tuple(c["rot"]) if isinstance(c.get("rot"), list) else c.get("rot")
        sig = (c["kind"], tag, json.dumps(c["poly"]), c.get("space"), sig_rot, c.get("step"), c.get("start"), c.get("stop"),
               json.dumps(c.get("nogo")), c.get("perim"), json.dumps(c.get("t")))
        nontrivial = c["kind"] in ("li", "pin") or len(r.get("points") or []) >= 2
        sample = None
        if n_samples < 6 and c["id"] % 97 == 0:
            sample = {"case": {k: v for k, v in c.items() if k not in ("id", "pts")}, "impl_status": r["status"], "boreholes": len(r.get("points") or [])}
            n_samples += 1
        ctx.case(sig, nontrivial, sample)
        ctx.count("outcome:" + r["status"] + (":" + r.get("exc", "") if r["status"] == "raise" else ""))

        # ---------------- termination
        if r["status"] == "timeout":
            if c["_large"]:
                # not small enough for a verdict: the unchanged code itself may need a sizeable part of any affordable guard
                ctx.count("guard-expired-large-case")
                ctx.extra.setdefault("guard_expired_large_cases", []).append(
                    {"kind": c["kind"], "stream": tag, "estimated_cpu_s": c["_est"], "guard_s": c["_guard"], "vertices": len(c["poly"]),
                     "space": c.get("space"), "rotations": n_rotations(c)})
                continue
            ctx.finding(f"nontermination:{tag}", f"{c['kind']} did not return within {c['_guard']:.1f} s of CPU time (the unchanged code is estimated "
                        f"to need {c['_est']} s for a case of this size) on outline {c['poly']} "
                        f"(spacing {c.get('space')}, rotation {c.get('rot')}, window {c.get('start')}..{c.get('stop')}, no-go zones {len(c.get('nogo') or [])})",
                        {"case": {k: v for k, v in c.items() if not k.startswith("_")}})
            continue
        if r["status"] == "raise":
            # ZeroDivisionError is the documented answer for a lot narrower than one row spacing; anything else is unexpected
            # for an in-domain input.  The model must agree on the exception.
            if "gen" in m or "opt" in m:
                nb, st, payload = parse_model(m.get("gen") or m.get("opt"))
                if st != "raise" or payload != r["exc"]:
                    if not nb:
                        disagree(c["kind"], c, {"impl": r, "model": (m.get("gen") or m.get("opt"))[:200]})
            narrow = r["exc"] == "ZeroDivisionError"
            if narrow and c.get("shape") == "rect" and c["kind"] == "gen" and (c["rot"] == ["1", "0"] or c["rot"] == 0.0) \
                    and c.get("perim") is None and not c.get("nogo"):
                exp = rect_expect(c["poly"], c["space"])
                if exp is not None and None not in exp[0]:
                    ctx.finding("rect-lattice", f"rectangle {c['poly']} spacing {c['space']} ({exp[1]}): ZeroDivisionError, expected a "
                                f"{len(exp[0][0])}-point lattice", {"case": c})
            if not narrow and not c.get("expect_raise"):
                ctx.finding(f"exception:{r['exc']}:{tag}", f"{c['kind']} raised {r['exc']}: {r.get('msg')} on outline {c['poly']}", {"case": c, "impl": r})
            continue

        # ---------------- per kind
        if c["kind"] in ("gen", "translate"):
            pts = r["points"]
            check_field(ctx, c, pts, "gen_borehole_config" if c.get("perim") is None else "two_space_gen_bhc", tag, rot_used=_angle(c["rot"]))
            ctx.count("boreholes:" + ("0-1" if len(pts) < 2 else "2-20" if len(pts) <= 20 else "21-100" if len(pts) <= 100 else ">100"))
            if "gen" in m:
                nb, st, payload = parse_model(m["gen"])
                ctx.count("model:" + ("near-boundary" if nb else "exact"))
                if " s0 " in " " + m["gen"][:8] + " ":
                    ctx.count("rows-simple:no" + ("" if c.get("nonconvex") else ":convex-outline"))
                else:
                    ctx.count("rows-simple:yes")
                same = st == "ok" and pts_close(pts, parse_pts(payload))
                if not same and nb and c.get("shape") == "rect" and c["rot"] == ["1", "0"]:
                    # an exact multiple of the spacing along the row is not a rounding matter on few-bit data: judge strictly
                    exp = rect_expect(c["poly"], c["space"])
                    if exp is not None and "near" not in exp[1]:
                        nb = False
                if not same:
                    if nb:
                        ctx.count("near-boundary-other-branch")
                    else:
                        disagree("gen", c, {"impl_n": len(pts), "model": m["gen"][:300]})
            # rectangle lattice / rows of exact width (rotation 0)
            if (c["rot"] == ["1", "0"] or c["rot"] == 0.0) and c.get("perim") is None and not c.get("nogo"):
                if c.get("shape") == "rect":
                    check_rect(ctx, c, pts, "gen_borehole_config")
                if c.get("band"):
                    check_band(ctx, c, pts, "gen_borehole_config")
            if c["kind"] == "translate":
                t = c["t"]
                moved = [[p[0] + t[0], p[1] + t[1]] for p in pts]
                if not same_points(moved, r["points_t"], 1e-6):
                    # a floor() next to an integer may flip under translation: detect by perturbing the spacing
                    stable = True
                    for f in (1 - 1e-9, 1 + 1e-9):
                        c2 = dict(c, kind="gen", space=c["space"] * f)
                        r2 = run_impl(c2)
                        if r2["status"] != "ok" or len(r2["points"]) != len(pts):
                            stable = False
                    if stable:
                        ctx.finding(f"translation:{tag}", f"translating outline {c['poly']} by {t} does not translate the field rigidly "
                                    f"({len(pts)} vs {len(r['points_t'])} boreholes)", {"case": c})
                    else:
                        ctx.count("translate:near-boundary")
                else:
                    ctx.count("translate:rigid")
        elif c["kind"] == "opt":
            pts = r["points"]
            _cnt = [len(f) for _, f in r["own_fields"]]
            _rot_used = r["own_fields"][_cnt.index(max(_cnt))][0] if _cnt else None
            check_field(ctx, c, pts, "field_optimization_fr" if c.get("perim") is None else "field_optimization_wp_space_fr", tag, rot_used=_rot_used)
            if c.get("single_rot0"):
                if c.get("shape") == "rect":
                    check_rect(ctx, c, pts, "field_optimization_fr over [0 deg]")
                if c.get("band"):
                    check_band(ctx, c, pts, "field_optimization_fr over [0 deg]")
            own = r["own_fields"]
            counts = [len(f) for _, f in own]
            ctx.count("rotations-tried:" + ("1" if len(own) == 1 else "2-12" if len(own) <= 12 else "13-72" if len(own) <= 72 else ">72"))
            # the implementation's own trace must be the window we enumerate, and the model's count of rotations
            if [n for _, n in r["trace"]] != counts:
                ctx.finding(f"sweep-trace:{tag}", f"the sweep tried {len(r['trace'])} rotations with field sizes differing from a re-run per rotation", {"case": c})
            best = max(counts) if counts else 0
            first = counts.index(best) if counts else None
            radius = (c["perim"] * c["space"] * 0.1) if c.get("perim") is not None else c["space"] * 1.2 * 0.1
            want = own_dedupe(own[first][1], radius) if first is not None else []
            if not same_points(pts, want, 1e-9):
                ctx.finding(f"densest-rotation:{tag}", f"returned field has {len(pts)} boreholes; the densest tried rotation "
                            f"({own[first][0] * 180 / math.pi:.2f} deg) gives {best} ({len(want)} after duplicate removal)", {"case": c, "counts": counts})
            mrt = None
            try:
                mrt = float(r["name"].split("rt")[-1])
            except Exception:
                pass
            if mrt is None or abs(mrt - own[first][0] * 180 / math.pi) > 0.0501:
                ctx.finding(f"field-name:{tag}", f"field name {r['name']} does not name the first densest rotation {own[first][0] * 180 / math.pi:.3f} deg", {"case": c})
            if "sweep" in m and m["sweep"] != str(first):
                disagree("sweep", c, {"counts": counts, "model": m["sweep"], "impl_first_max": first})
            if "nrot" in m:
                a = case_start_deg(c)
                q = (F(a[1]) - F(a[0])) / F(c["step"])
                near = abs(q - round(q)) < F(1, 10 ** 9)
                ok = m["nrot"] == str(len(counts)) or (near and m["nrot"].isdigit() and abs(int(m["nrot"]) - len(counts)) <= 1)
                ctx.count("nrot:" + ("near-boundary" if near else "exact"))
                if not ok:
                    disagree("nrot", c, {"impl": len(counts), "model": m["nrot"]})
            if "opt" in m:
                toks = m["opt"].split()
                nb = toks[0] == "nb"
                ctx.count("model-opt:" + ("near-boundary" if nb else "exact"))
                okm = toks[1] == "ok" and int(toks[2]) == first and pts_close(pts, parse_pts(toks[3:]))
                if not okm:
                    if nb:
                        ctx.count("near-boundary-other-branch")
                    else:
                        disagree("opt", c, {"impl_n": len(pts), "impl_idx": first, "model": m["opt"][:200]})
        elif c["kind"] == "alias":
            pts = [q for q in r["points"]]
            what = "field_optimization_fr" if c.get("sweep") else "gen_borehole_config"
            check_field(ctx, c, pts, what + " (lot built from an ndarray)", tag)
            if r["points_again"] != pts or r["names"][0] != r["names"][1]:
                ctx.count("alias:changed")
                outside = [q for q in r["points_again"] if clearly_outside(c["poly"], q)]
                ctx.finding("lot-object-aliases-callers-buffer",
                            f"{what}: the lot object built from a float ndarray gives a different field after the caller modified that array in place "
                            f"({c['mutate'][0]}): {len(pts)} boreholes before, {len(r['points_again'])} after, {len(outside)} of them outside the outline "
                            f"the object was built from (its vertices are now {r['coords_first_lot'][:2]}…, its cached bounding box still "
                            f"{r['bbox_first_lot']})", {"case": c, "first": pts[:6], "again": r["points_again"][:6]})
            else:
                ctx.count("alias:unchanged")
                # the re-used buffer describes the moved lot: rigid translation for a shift
                # (not on integer-lattice lots: rows through vertices are decided by float equality inside point_intersect)
                if c["mutate"][0] == "shift" and not c.get("sweep") and (not c.get("nogo") or c.get("mutate_zones")) \
                        and c.get("shape") not in ("lattice", "edge_on_axis"):
                    t = c["mutate"][1]
                    if min(v[0] for v in r["buffer_after"]) >= 0 and not same_points([[q[0] + t[0], q[1] + t[1]] for q in pts], r["points_second_lot"], 1e-6):
                        stable = all(len((run_impl(dict(c, kind="gen", rot=c["rot"], space=c["space"] * f)).get("points") or [])) == len(pts)
                                     for f in (1 - 1e-9, 1 + 1e-9))
                        if stable:
                            ctx.finding(f"translation:{tag}", f"the lot built from the shifted buffer does not get the shifted field "
                                        f"({len(pts)} vs {len(r['points_second_lot'])} boreholes)", {"case": c})
                        else:
                            ctx.count("translate:near-boundary")
        elif c["kind"] == "container":
            check_field(ctx, c, r["points"], "gen_borehole_config", tag)
            base = r["forms"]["list"]
            for form, val in r["forms"].items():
                if val != base:
                    ctx.finding("container-dependence", f"the same outline passed as {form} gives a different field than passed as list of lists "
                                f"({len(val)} vs {len(base)} entries)", {"case": c, "form": form})
                    break
            else:
                ctx.count("container:identical-%d-forms" % r.get("n_forms", 5))
        elif c["kind"] == "li":
            if "li" in m:
                _, st, payload = parse_model(m["li"])
                if not (st == "ok" and pts_close(r["points"], parse_pts(payload))):
                    disagree("li", c, {"impl": r["points"], "model": m["li"][:300]})
        elif c["kind"] == "pin":
            for k, p in enumerate(c["pts"]):
                if ("pin", k) in m and (m[("pin", k)] == "1") != r["flags"][k]:
                    disagree("pin", c, {"point": p, "impl": r["flags"][k], "model": m[("pin", k)]})
                # oracle: on a convex outline point_intersect is the crossing-number classification away from the boundary
                if not c.get("nonconvex") and dist_boundary(c["poly"], p) > 1e-3 and is_convex(c["poly"]):
                    if (crossing(c["poly"], p) == 1) != r["flags"][k]:
                        ctx.finding("point-intersect", f"point_intersect({p}) = {r['flags'][k]} on convex outline {c['poly']}", {"case": c, "point": p})

    # ------------------------------------------------------------ manager route (set_geometry_constraints_rowwise -> DesignRowWise -> search):
    # cheap configuration (loads far too large, continue_if_design_unmet): the field of the smallest spacing comes back in ~2 s
    mgr = []

    def add_mgr(poly, space, min_rot, max_rot, step, nogo, perim=None, shape="", note=None, **extra):
        mgr.append(dict({"kind": "mgr", "stream": "manager", "shape": shape, "poly": poly, "space": space, "max_sp": space + 2.0, "min_rot": min_rot,
                         "max_rot": max_rot, "rot_step": step, "nogo": nogo, "perim": perim, "note": note}, **extra))
    sq = [[0.0, 0.0], [40.0, 0.0], [40.0, 40.0], [0.0, 40.0]]
    # deterministic part: triangular / closed-triangle / 4- / 5-gon zones, integer-only lots, wide rotation steps
    add_mgr(sq, 10.0, 0.0, 1.0, 1.0, [[[12.0, 12.0], [28.0, 12.0], [20.0, 28.0]]], shape="square+triangle")
    add_mgr(sq, 10.0, 0.0, 1.0, 1.0, [[[12.0, 12.0], [28.0, 12.0], [20.0, 28.0], [12.0, 12.0]]], shape="square+closed-triangle")
    add_mgr(sq, 10.0, -30.0, 30.0, 15.0, [[[12.0, 12.0], [28.0, 12.0], [28.0, 27.0], [12.0, 27.0]], [[31.0, 31.0], [37.0, 31.0], [34.0, 37.0]]],
            shape="square+quad+triangle")
    add_mgr([[0, 0], [40, 0], [40, 30], [0, 30]], 7.2, 0.0, 1.0, 1.0, [], shape="integer-lot")
    add_mgr([[0, 0], [60, 0], [60, 40], [0, 40]], 7.2, -10.0, 20.0, 15.0, [[[20, 12], [40, 12], [30, 29]]], shape="integer-lot+integer-triangle")
    add_mgr(tilted_rect(61.0, 26.0, -90.0 + 35.0 * math.pi, 5.0, 5.0), 10.0, -90.0, 90.0, 15.0, [], shape="tilted-rect")
    add_mgr(tilted_rect(61.0, 26.0, 7.3, 0.0, 0.0), 10.0, -90.0, 90.0, 45.0, [], shape="tilted-rect")
    add_mgr(tilted_rect(70.0, 31.0, -33.0, 4.0, 0.0), 9.5, -90.0, 90.0, 30.0, [], shape="tilted-rect")
    add_mgr(tilted_rect(55.0, 24.0, 41.0, 0.0, 3.0), 8.0, -45.0, 45.0, 5.0, [], shape="tilted-rect")
    # negligible loads: the search takes its "a single borehole is enough" branch; that borehole must be on the lot the user gave
    add_mgr([[30.0, 20.0], [93.0, 24.0], [88.0, 61.0], [27.0, 57.0]], 12.0, -90.0, 0.0, 15.0, [[[50.0, 31.0], [71.0, 33.0], [58.0, 48.0]]],
            shape="lot-away-from-origin", loads="negligible", max_sp=20.0)
    add_mgr(tilted_rect(61.0, 26.0, 25.0, 25.0, 40.0), 10.0, -45.0, 45.0, 15.0, [], shape="lot-away-from-origin", loads="negligible", cont=False)
    add_mgr([[0.0, 0.0], [50.0, 0.0], [50.0, 40.0], [0.0, 40.0]], 10.0, 0.0, 1.0, 1.0, [], shape="lot-with-origin-corner", loads="negligible")
    for _ in range(1 if quick else 6):
        _, poly = gen_polygon(rng, "ellipse")
        t = (rng.uniform(20, 80), rng.uniform(20, 80))
        poly = [[round(x + t[0], 3), round(y + t[1], 3)] for x, y in poly]
        add_mgr(poly, cap_space(poly, round(rng.uniform(8, 14), 1), 120), -90.0, 90.0, 30.0, [], shape="lot-away-from-origin", loads="negligible",
                cont=rng.random() < 0.5)
    for _ in range(8 * scale):
        kind = rng.choice(["ellipse", "rect", "tilted", "lattice"])
        if kind == "tilted":
            poly = tilted_rect(rng.uniform(40, 90), rng.uniform(20, 40), rng.uniform(-80, 80), rng.choice([0.0, 5.0]), rng.choice([0.0, 5.0]))
        else:
            kind, poly = gen_polygon(rng, kind)
        if not is_convex(poly):
            continue
        space = cap_space(poly, round(rng.uniform(6, 14), 1), 150)
        nv = rng.choice([3, 3, 3, 4, 5])
        nogo = [small_zone(rng, poly, nv, closing=(nv == 3 and rng.random() < 0.3))] if rng.random() < 0.75 else []
        if nogo and not all(crossing(poly, q) == 1 for q in nogo[0]):
            nogo = []
        a, b, st = rng.choice([(-90.0, 90.0, 15.0), (-90.0, 90.0, 30.0), (-90.0, 90.0, 45.0), (-45.0, 45.0, 5.0), (0.0, 1.0, 1.0), (-30.0, 60.0, 15.0),
                               (-90.0, 0.0, 5.0), (10.0, 12.0, 0.5)])
        add_mgr(poly, space, a, b, st, nogo, perim=round(rng.uniform(0.7, 1.0), 2) if rng.random() < 0.2 else None, shape=kind)
    for c, r in zip(mgr, core.pool_map(run_mgr, mgr)):
        ctx.count("stream:manager")
        ctx.count("manager:" + r["status"] + (":" + r.get("exc", "") if r["status"] != "ok" else ""))
        ctx.count("manager:rotate-step:%g" % c["rot_step"])
        for z in c["nogo"]:
            ctx.count("manager:zone-vertices:%d" % len(z))
        ctx.case(("mgr", json.dumps(c["poly"]), c["space"], c["min_rot"], c["max_rot"], c["rot_step"], json.dumps(c["nogo"]), c["perim"]),
                 r["status"] == "ok" and len(r.get("points", [])) >= 2, None)
        if r["status"] != "ok":
            if r["exc"] == "ValueError" and "truth value of an array" in r["msg"] and "sort" in r["msg"]:
                # the search's borehole-removal step sorts boreholes by distance with the points as tie-breakers: symmetric fields with tied
                # distances crash there (recorded observation about search_routines, not about field generation); observed, not judged
                ctx.count("manager:observed-point-sort-tie-crash")
                ctx.extra.setdefault("observed_point_sort_tie_crash", {"outline": c["poly"], "space": c["space"]})
            elif r["exc"] != "ZeroDivisionError":
                ctx.finding(f"exception:{r['exc']}:manager", f"RowWise through the manager raised {r['exc']} on outline {c['poly']}: {r['msg'][-200:]}", {"case": c})
            continue
        pts = r["points"]
        what = "RowWise through GHEManager (BoreFieldData)"
        if c.get("loads") == "negligible":
            what = "RowWise through GHEManager with negligible loads (BoreFieldData)"
            ctx.count("manager:negligible-loads:%d-borehole-field" % len(pts) if len(pts) <= 1 else "manager:negligible-loads:larger-field")
            if not pts:
                ctx.finding("manager-empty-field", f"{what}: empty field on outline {c['poly']}", {"case": c})
        # (a) the field against the lot and the zones THE USER GAVE
        check_field(ctx, c, pts, what, "manager")
        # (b) what the constraint object holds: the user's step (degrees), window (radians), outline and every zone
        h = r["held"]
        want_zones = [[[float(v) for v in q] for q in z] for z in c["nogo"]]
        if r["inputs_changed"]:
            ctx.finding("manager-modifies-inputs", f"{what}: the caller's outline / zone lists were modified in place", {"case": c})
        if h["rotate_step"] != float(c["rot_step"]) or abs(h["min_rotation"] - c["min_rot"] * math.pi / 180) > 1e-12 \
                or abs(h["max_rotation"] - c["max_rot"] * math.pi / 180) > 1e-12:
            ctx.finding("manager-rotation-request", f"{what}: requested window [{c['min_rot']}, {c['max_rot']}] deg step {c['rot_step']} deg, the constraint object holds "
                        f"step {h['rotate_step']} and window [{h['min_rotation']}, {h['max_rotation']}] rad", {"case": c, "held": h})
        if (h["zones"] or []) != want_zones or h["outline"] != [[float(v) for v in q] for q in c["poly"]]:
            ctx.finding("manager-geometry-request", f"{what}: the constraint object holds {h['n_zones']} no-go zone(s) with {[len(z) for z in (h['zones'] or [])]} vertices, "
                        f"the user gave {[len(z) for z in c['nogo']]}", {"case": c, "held": h})
        # (c) the field is the densest over the rotations of the REQUESTED sweep (own enumeration)
        own = r["own_fields"]
        counts = [len(f) for _, f in own]
        if counts and max(counts) > 0:
            first = counts.index(max(counts))
            radius = (c["perim"] * c["space"] * 0.1) if c.get("perim") is not None else c["space"] * 1.2 * 0.1
            want = own_dedupe(own[first][1], radius)
            if not same_points(pts, want, 1e-9):
                on_grid = next((rt for rt, f in own if len(f) >= len(pts) and all(any(abs(p[0] - q[0]) < 1e-6 and abs(p[1] - q[1]) < 1e-6 for q in f) for p in pts)), None)
                ctx.finding("manager-densest-requested-rotation",
                            f"{what}: window [{c['min_rot']}, {c['max_rot']}] deg, step {c['rot_step']} deg: returned {len(pts)} boreholes; the requested sweep "
                            f"({len(own)} rotations) is densest at {own[first][0] * 180 / math.pi:.2f} deg with {max(counts)} ({len(want)} after duplicate removal); the "
                            f"returned field " + ("belongs to no rotation of the requested sweep" if on_grid is None else f"is the one of {on_grid * 180 / math.pi:.2f} deg"),
                            {"case": c, "counts": counts})
            else:
                ctx.count("manager:densest-of-requested-sweep")

    # ------------------------------------------------------------ full ROWWISE designs (BoreFieldData observation point)
    designs = []
    for _ in range(1 if quick else 6):
        kind, poly = gen_polygon(rng, rng.choice(["ellipse", "rect", "tri_origin"]))
        designs.append({"poly": poly, "scale": rng.uniform(0.05, 0.3), "perim": None, "max_sp": 20.0, "min_sp": 10.0, "sp_step": 2.0,
                        "max_rot": 90.0, "min_rot": -90.0, "rot_step": 15.0, "space": 10.0, "kind": "design", "stream": "design"})
    for d, r in zip(designs, core.pool_map(run_design, designs)):
        ctx.case(("design", json.dumps(d["poly"]), d["scale"]), r["status"] == "ok" and len(r.get("points", [])) >= 2,
                 None)
        ctx.count("design:" + r["status"] + (":" + r.get("exc", "") if r["status"] != "ok" else ""))
        if r["status"] == "ok":
            check_field(ctx, d, r["points"], "BoreFieldData of a ROWWISE design", "design")
        elif r["exc"] not in ("ValueError", "ZeroDivisionError"):
            ctx.count("design:unexpected-" + r["exc"])
            ctx.extra.setdefault("design_errors", []).append(r["msg"])

    ctx.exhaustive = False
    if not quick:
        ctx.leanchecker(["GHEVerif.Props.C14", "GHEVerif.Lemmas.RowWise", "GHEVerif.Model.RowWise"])


def case_start_deg(c):
    """(start, stop) of the window in degrees as the model's `numRotations` takes them."""
    if c.get("start") is None:
        a = (-90.0 + c["step"]) if c.get("perim") is not None else -90.0
    else:
        a = c["start"] * 180.0 / math.pi
    b = 90.0 if c.get("stop") is None else c["stop"] * 180.0 / math.pi
    return (round(a, 9), round(b, 9))


def _drv(args):
    exe, lines = args
    import subprocess
    r = subprocess.run([exe], input="\n".join(lines) + "\n", capture_output=True, text=True, timeout=1500)
    out = r.stdout.splitlines()
    return out if r.returncode == 0 and len(out) == len(lines) else None


def driver_parallel(ctx, lines, workers=16):
    exe = core.LEAN / ".lake" / "build" / "bin" / "driver"
    if not exe.exists():
        ctx.broken.append("driver: executable missing")
        return None
    if not lines:
        return []
    k = max(1, min(workers, len(lines) // 8 or 1))
    # interleave so that every slice gets a similar mix of cheap and expensive commands
    slices = [lines[i::k] for i in range(k)]
    outs = core.pool_map(_drv, [(str(exe), s) for s in slices], workers=k)
    if any(o is None for o in outs):
        ctx.infra("driver failed on a slice")
        return None
    res = [None] * len(lines)
    for i, o in enumerate(outs):
        res[i::k] = o
    return res
