"""C04 — Polygon-constrained fields lie inside the property and outside no-go zones.

Proof: lean/GHEVerif/Props/C04.lean about Model/Constrained.lean, which composes the two finished
models `Domains.biRectangleNested` (C03) and `Polygon.classify` (C16) the way
`domains.polygonal_land_constraint` composes `bi_rectangle_nested` and
`feature_recognition.remove_cutout`: kept_iff (a grid borehole survives <=> point_polygon_check
says 1/0 for some property outline and -1 for every no-go polygon, both directions, order kept),
fields_subset_grid, no_empty_field, sorted_by_count, sort_is_stable, and — through C16 —
boreholes_inside_property_outside_nogo / clearly_inside_not_dropped in the crossing-number sense;
bounding_rectangle; constrained_on_land_and_spaced (with C03); descriptors_follow_fields_partial
(+ the witness of the descriptor mis-alignment); the error branches.  The theorems hold for every
rounding operator of the grid generator, in particular for the binary64 instance run here.

Tie to the code: the keep conditions / defaults / call arguments are regenerated from the source
(translate/gen_constrained.py -> Gen/Constrained.lean, everything else of the five functions pinned
by AST), and the model (binary64 grid, exact classification) is compared with the real
`DesignBiRectangleConstrained` constructor and `polygonal_land_constraint` on the same inputs:
exception kind, list shapes, an order-sensitive 64-bit hash over the IEEE bit patterns of every
coordinate of every field, and the returned descriptors.  Unit streams compare `remove_cutout`
(4 flag combinations, both argument forms, error forms), `determine_largest_rectangle` and
`reorder_domain` (ties) with their models.

Predicate (independent oracle): the crossing-number definition + tolerance band, written from the
property text: a vectorised binary64 evaluation for points whose margins are >= 1e-6, the exact
integer/Fraction oracle of harness/c16.py for all others and for a random sample of the rest (self
check).  On the implementation's own output: every borehole inside-or-in-band of a property outline
and strictly outside every no-go band; per candidate list the returned fields are exactly the
non-empty cuts of the grid fields (so no clearly-inside grid borehole is dropped), where the grid is
the ORACLE's: bounding box = the harness's own max over the vertices of ALL outlines, candidate grids
of that box from the binary64 Domains model (C03), cut by the oracle — nothing of it comes from the
implementation, so a grid that is too small / misplaced is a `grid-borehole-dropped` /
`not-a-grid-borehole` / `list-count` violation; determine_largest_rectangle's output is compared
with the oracle's bounding box as a predicate of its own; a call that raises on a well-formed input
whose every candidate list has allowed boreholes is `raised-although-candidates-exist`; no empty field,
counts non-decreasing, equal counts in grid order.  Points within 1e-9 of the band boundary are
counted and left out (binary64 rounding of three square roots may decide there).
"""
from __future__ import annotations

import hashlib
import json
import math
import os
import random
import time
from fractions import Fraction

import core
import ghelib  # noqa: F401  (puts VERIF_REPO / /repo first on sys.path)

PROPERTY = "C04"
LEVEL = "proof"
MANIFEST = {
    "text": "C04 — polygon-constrained candidate fields: every borehole inside / on the tolerance band of a property "
            "outline and outside every no-go polygon and its band; no clearly-inside grid borehole dropped; lists "
            "sorted by count (stable) — Lean theorems about Model/Constrained.lean (built on the C03 grid and C16 "
            "classification models) for all outlines, no-go arguments, spacings and rounding operators; binary64 "
            "instance compared bit for bit with DesignBiRectangleConstrained / polygonal_land_constraint",
    "technique": "Lean 4 proof (filter/stable-sort/Forall2 reasoning on top of C03 + C16 theorems) + differential run "
                 "of the executable model + exact crossing-number oracle on the implementation's outputs",
    "design_ref": "DESIGN.md §4 C04",
    "note": "the edge band is the source's ellipse |pA|+|pB| < |AB| + 0.01 (half-width ~ sqrt(tol*L/2) at mid-edge), "
            "as in C16; Jordan curve theorem not proved; descriptors are mis-aligned by reorder_domain when a field was "
            "dropped (modelled, counted, outside the property text)",
}

TOL = 0.01
NEAR = 1e-9            # exact |band value - tol| below this: binary64 may decide -> point left out (counted)
SOFT = 1e-6            # binary64 margin below this: the exact oracle decides
P64 = 1099511628211
H0 = 1469598103934665603
M64 = (1 << 64) - 1
KNOWN_ERR = {"ZeroDivisionError", "IndexError", "ValueError", "TypeError", "KeyError"}


# ----------------------------------------------------------------------------- small helpers
def is_flat(b):
    """One polygon [[x, y], ...] rather than a list of polygons (the code's own isinstance test)."""
    return len(b) > 0 and len(b[0]) > 0 and isinstance(b[0][0], (int, float))


def enc_poly(p):
    return f"{len(p)} " + " ".join(f"{core.rs(x)} {core.rs(y)}" for x, y in p)


def enc_bounds(b):
    if b is None:
        return "N"
    if len(b) == 0:
        return "M 0"
    if is_flat(b):
        return "S " + enc_poly(b)
    return f"M {len(b)} " + " ".join(enc_poly(p) for p in b)


def plc_line(case, mode="F", form="H"):
    kc = case.get("kc", [True, False])
    op = "plcd" if case["via"] in ("design", "manager") else "plc"
    return (f"{op} {mode} {form} {core.rs(case['bmin'])} {core.rs(case['bx'])} {core.rs(case['by'])} "
            f"{len(kc)} {' '.join('1' if k else '0' for k in kc)} {enc_bounds(case['prop'])} {enc_bounds(case['nogo'])}").replace("  ", " ")


def err_name(e):
    n = type(e).__name__
    return n if n in KNOWN_ERR else "Exception"


def field_hash(arr):
    """Order-sensitive hash over the IEEE bit patterns x0,y0,x1,y1,… (= Domains.hashField)."""
    import numpy as np

    bits = np.ascontiguousarray(arr + 0.0, dtype=np.float64).ravel().view(np.uint64)
    n = len(bits)
    if n == 0:
        return H0
    with np.errstate(over="ignore"):
        pw = np.full(n, P64, dtype=np.uint64)
        pw[0] = 1
        pw = np.cumprod(pw, dtype=np.uint64)
        s = int((bits * pw[::-1]).sum(dtype=np.uint64))
        top = (int(pw[-1]) * P64) & M64
    return (H0 * top + s) & M64


def case_id(case):
    j = json.dumps({k: case[k] for k in ("bmin", "bx", "by", "prop", "nogo", "via") if k in case} | {"kc": case.get("kc")},
                   sort_keys=True, default=str)
    return hashlib.sha1(j.encode()).hexdigest()[:12]


# ----------------------------------------------------------------------------- the real code
def call_impl(case):
    from ghedesigner import design as DS
    from ghedesigner import domains as D
    from ghedesigner import geometry as G

    bmin, bx, by, prop, nogo = case["bmin"], case["bx"], case["by"], case["prop"], case["nogo"]
    kc = case.get("kc")
    if case["via"] == "manager" and kc is None:
        # the user-level route: the manager's setter, then set_design (nothing else is needed to build the candidates)
        from ghedesigner.manager import GHEManager

        m = GHEManager()
        m.set_geometry_constraints_bi_rectangle_constrained(b_min=bmin, b_max_x=bx, b_max_y=by, property_boundary=prop, no_go_boundaries=nogo)
        m.set_design(0.5, "BOREHOLE")
        return m._design.coordinates_domain_nested, m._design.fieldDescriptors
    if case["via"] in ("design", "manager"):      # (the manager has no keep_contour argument: such cases use the design class)
        gc = G.GeometricConstraintsBiRectangleConstrained(bmin, bx, by, prop, nogo)
        if kc is None:
            d = DS.DesignBiRectangleConstrained(*([None] * 8), gc, None, None)
        else:
            d = DS.DesignBiRectangleConstrained(*([None] * 8), gc, None, None, keep_contour=kc)
        return d.coordinates_domain_nested, d.fieldDescriptors
    if kc is None:
        return D.polygonal_land_constraint(bmin, bx, by, prop, nogo)
    return D.polygonal_land_constraint(bmin, bx, by, prop, nogo, keep_contour=kc)


# ----------------------------------------------------------------------------- oracle
def classify_fast(poly, P):
    """Crossing number (half-open vertex rule) + tolerance band in binary64, vectorised over the
    points `P` (n x 2).  -> (cls in {1, 0, -1}, band margin, crossing margin)."""
    import numpy as np

    n = len(P)
    px, py = P[:, 0], P[:, 1]
    in_band = np.zeros(n, dtype=bool)
    bmargin = np.full(n, np.inf)
    cmargin = np.full(n, np.inf)
    crossings = np.zeros(n, dtype=np.int64)
    m = len(poly)
    for i in range(m):
        ax, ay = poly[i - 1]
        bx, by = poly[i]
        d1 = np.hypot(px - ax, py - ay)
        d2 = np.hypot(px - bx, py - by)
        v = d1 + d2 - math.hypot(bx - ax, by - ay)
        in_band |= v < TOL
        bmargin = np.minimum(bmargin, np.abs(v - TOL))
        ux, uy = bx - ax, by - ay
        counted = ((ay < py) & (py <= by)) | ((by < py) & (py <= ay))
        lhs = (py - ay) * ux
        rhs = (px - ax) * uy
        right = (lhs > rhs) if uy > 0 else (lhs < rhs)
        crossings += (counted & right)
        cmargin = np.where(counted, np.minimum(cmargin, np.abs(lhs - rhs)), cmargin)
    cls = np.where(in_band, 0, np.where(crossings % 2 == 1, 1, -1))
    return cls, bmargin, cmargin, in_band


_C16 = None


def exact_oracle():
    global _C16
    if _C16 is None:
        import c16
        _C16 = c16
    return _C16


def classify_points(poly, P, rng, stats):
    """Per point: 1 / 0 / -1, or None when the exact band value is within NEAR of the tolerance
    (left out).  Exact oracle for delicate points and a random self-check sample."""
    import numpy as np

    cls, bm, cm, in_band = classify_fast(poly, P)
    out = [int(c) for c in cls]
    delicate = (bm < SOFT) | (~in_band & (cm < SOFT))
    idx = list(np.nonzero(delicate)[0])
    n = len(P)
    sample = [rng.randrange(n) for _ in range(max(1, n // 60))] if n else []
    if idx or sample:
        c16 = exact_oracle()
        pq = [(Fraction(float(x)), Fraction(float(y))) for x, y in poly]
        tq = Fraction(TOL)
        for k in idx:
            exp, info = c16.oracle(pq, (Fraction(float(P[k, 0])), Fraction(float(P[k, 1]))), tq)
            stats["exact-oracle-calls"] = stats.get("exact-oracle-calls", 0) + 1
            if info["undecided"] or info["margin"] < NEAR:
                out[k] = None
                stats["near-boundary-points"] = stats.get("near-boundary-points", 0) + 1
            else:
                out[k] = exp
        for k in sample:
            if delicate[k]:
                continue
            exp, info = c16.oracle(pq, (Fraction(float(P[k, 0])), Fraction(float(P[k, 1]))), tq)
            stats["oracle-self-check"] = stats.get("oracle-self-check", 0) + 1
            if exp != out[k]:
                stats.setdefault("oracle-self-check-bad", []).append([list(map(float, P[k])), out[k], exp])
    return out


def seg_dist(poly, p):
    best = math.inf
    for i in range(len(poly)):
        ax, ay = poly[i - 1]
        bx, by = poly[i]
        ux, uy = bx - ax, by - ay
        L2 = ux * ux + uy * uy
        t = 0.0 if L2 == 0 else max(0.0, min(1.0, ((p[0] - ax) * ux + (p[1] - ay) * uy) / L2))
        best = min(best, math.hypot(p[0] - ax - t * ux, p[1] - ay - t * uy))
    return best


def norm_bounds(b):
    if b is None or len(b) == 0:
        return []
    return [b] if is_flat(b) else list(b)


_EXE = core.LEAN / ".lake" / "build" / "bin" / "driver"


def oracle_grid(L, W, bmin, bx, by):
    """bi_rectangle_nested(L, W, …) from the binary64 instance of Model/Domains.lean (own driver
    process, usable inside pool workers).  None when the driver is unavailable or the generator raises."""
    import subprocess

    if not _EXE.exists():
        return None
    line = f"dom nest F 5 {core.rs(L)} {core.rs(W)} {core.rs(bmin)} {core.rs(bx)} {core.rs(by)}\n"
    try:
        r = subprocess.run([str(_EXE)], input=line, capture_output=True, text=True, timeout=1200)
    except (OSError, subprocess.TimeoutExpired):
        return None
    out = r.stdout.strip()
    if r.returncode != 0 or not out.startswith("ok"):
        return None
    nested = []
    for part in out[2:].strip().split("|")[:-1]:
        fs = []
        for ftxt in part.split(";"):
            ftxt = ftxt.strip()
            if ftxt == "":
                continue
            pts = []
            for q in ([] if ftxt == "_" else ftxt.split()):
                x, y = q.split(",")
                xn, xd = x.split("/")
                yn, yd = y.split("/")
                pts.append((int(xn) / int(xd), int(yn) / int(yd)))
            fs.append(pts)
        nested.append(fs)
    return nested


def FR_rect(props):
    from ghedesigner import feature_recognition as FR

    return FR.determine_largest_rectangle(props)


def well_formed(case):
    """Inputs inside the property's quantifier: >= 1 outline, every polygon >= 3 vertices, positive spacings."""
    props, nogos = norm_bounds(case["prop"]), norm_bounds(case["nogo"])
    if not props or any(len(p) < 3 for p in props + nogos):
        return False
    if case["via"] == "fn" and is_flat(case["prop"]):
        return False
    if case.get("kc") not in (None, [True, False]):
        return False
    return case["bmin"] > 0 and case["bx"] >= case["bmin"] and case["by"] >= case["bmin"]


def predicate(case, doms, stats, rng):
    """Property predicate on the implementation's own output (`doms is None`: it raised).
    -> list of (kind, what)."""
    import numpy as np
    from ghedesigner import domains as D

    fails = []
    raised = doms is None
    if raised:
        doms = []
    props = [[(float(x), float(y)) for x, y in p] for p in norm_bounds(case["prop"])]
    nogos = [[(float(x), float(y)) for x, y in p] for p in norm_bounds(case["nogo"])]
    # the oracle's OWN bounding box: over the vertices of ALL outlines
    L = max(v[0] for p in props for v in p)
    W = max(v[1] for p in props for v in p)
    X0 = min(v[0] for p in props for v in p)
    Y0 = min(v[1] for p in props for v in p)
    try:
        rect = FR_rect([list(map(list, p)) for p in props])
        want_rect = [[X0, Y0], [L, Y0], [L, W], [X0, W], [X0, Y0]]
        if [[float(a), float(b)] for a, b in rect] != want_rect:
            fails.append(("bounding-rectangle", f"determine_largest_rectangle gives {rect} for {len(props)} outlines whose vertices span x [{X0}, {L}] y [{Y0}, {W}]"))
    except Exception as e:  # noqa: BLE001
        fails.append(("bounding-rectangle", f"determine_largest_rectangle raised {type(e).__name__} on {len(props)} non-empty outlines"))
    # the candidate grids of that box: from the binary64 instance of the Domains model (C03), not from the implementation
    grid = oracle_grid(L, W, case["bmin"], case["bx"], case["by"])
    try:
        impl_grid, grid_desc = D.bi_rectangle_nested(L, W, case["bmin"], case["bx"], case["by"])
    except Exception:  # noqa: BLE001
        impl_grid, grid_desc = None, []
    if grid is None:
        stats["oracle-grid-from-implementation(driver unavailable)"] = 1
        grid = [[[(float(x), float(y)) for x, y in f] for f in dom] for dom in (impl_grid or [])]
    elif impl_grid is not None and [[[(float(x), float(y)) for x, y in f] for f in dom] for dom in impl_grid] != grid:
        stats["grid-generator-differs-from-model"] = 1
    # all distinct points (grid + returned)
    index = {}
    for dom in grid:
        for f in dom:
            for p in f:
                index.setdefault((float(p[0]), float(p[1])), len(index))
    n_grid_pts = len(index)
    for dom in doms:
        for f in dom:
            for p in f:
                index.setdefault((float(p[0]), float(p[1])), len(index))
    if len(index) > n_grid_pts:
        fails.append(("not-a-grid-borehole", f"{len(index) - n_grid_pts} returned boreholes are not grid points of the bounding rectangle {L} x {W}"))
    pts = list(index)
    P = np.array(pts, dtype=np.float64).reshape(-1, 2)
    stats["distinct-points"] = len(pts)
    cp = [classify_points(p, P, rng, stats) for p in props]
    cn = [classify_points(p, P, rng, stats) for p in nogos]

    kc = case.get("kc")
    kc = [True, False] if kc is None else (list(kc) + [False, False])[:2]   # the property is about the default [True, False]

    def kept(k):
        """True / False / None (undecidable within NEAR)."""
        pv = [c[k] for c in cp]
        nv = [c[k] for c in cn]
        ok_p = (0, 1) if kc[0] else (1,)
        bad_n = (0, 1) if not kc[1] else (1,)
        in_prop = True if any(v in ok_p for v in pv) else (None if any(v is None for v in pv) else False)
        out_nogo = False if any(v in bad_n for v in nv) else (None if any(v is None for v in nv) else True)
        if in_prop is False or out_nogo is False:
            return False
        if in_prop is None or out_nogo is None:
            return None
        return True

    K = [kept(k) for k in range(len(pts))]
    stats["kept-inside"] = sum(1 for k in range(len(pts)) if K[k] and any(c[k] == 1 for c in cp))
    stats["kept-on-band-only"] = sum(1 for k in range(len(pts)) if K[k] and not any(c[k] == 1 for c in cp))
    stats["dropped-outside-property"] = sum(1 for k in range(n_grid_pts) if K[k] is False and not any(c[k] in (0, 1) for c in cp))
    stats["dropped-in-nogo"] = sum(1 for k in range(n_grid_pts) if K[k] is False and any(c[k] == 1 for c in cn))
    stats["dropped-on-nogo-band"] = sum(1 for k in range(n_grid_pts) if K[k] is False and any(c[k] == 0 for c in cn) and not any(c[k] == 1 for c in cn))
    # how far outside the lot a kept borehole lies (band-only points with even crossing number everywhere)
    far = 0.0
    for k in range(len(pts)):
        if K[k] and not any(c[k] == 1 for c in cp):
            far = max(far, min(seg_dist(p, pts[k]) for p in props))
    stats["max-distance-of-band-only-borehole-from-outline"] = far

    if raised:
        # the call raised: that is a loss of candidate fields when every list of the oracle's grid has an allowed borehole
        if grid and all(any(any(K[index[p]] for p in f) for f in dom) for dom in grid) \
                and not any(K[index[p]] is None for dom in grid for f in dom for p in f):
            n_ok = sum(1 for k in range(n_grid_pts) if K[k])
            fails.append(("raised-although-candidates-exist", f"the call raised {case.get('_raised')} although every one of the {len(grid)} candidate lists of the {L} x {W} bounding rectangle has allowed grid boreholes ({n_ok} distinct allowed boreholes)"))
        return fails, grid_desc
    # (1) every returned borehole is inside-or-in-band of the property and outside every no-go band
    for li, dom in enumerate(doms):
        for fi, f in enumerate(dom):
            if len(f) == 0:
                fails.append(("empty-field", f"list {li} field {fi} is empty"))
            for p in f:
                k = index[(float(p[0]), float(p[1]))]
                if K[k] is False:
                    why = "inside or on the band of a no-go polygon" if any(c[k] in (0, 1) for c in cn) else "outside every property outline and its band"
                    fails.append(("borehole-not-allowed", f"list {li} field {fi} ({len(f)} boreholes): borehole {pts[k]} is {why}"))
                    break
            else:
                continue
            break
    # (2) the fields of list i are exactly the non-empty cuts of the grid fields, (3) sorted, stable
    if len(doms) != len(grid):
        fails.append(("list-count", f"{len(doms)} candidate lists for {len(grid)} grid lists"))
    for li, (dom, gdom) in enumerate(zip(doms, grid)):
        sizes = [len(f) for f in dom]
        if any(a > b for a, b in zip(sizes, sizes[1:])):
            fails.append(("unsorted", f"list {li}: borehole counts not non-decreasing: {sizes[:40]}"))
        exp = []
        undec = False
        for gi, g in enumerate(gdom):
            ks = [index[p] for p in g]
            if any(K[k] is None for k in ks):
                undec = True
            cut = [pts[k] for k in ks if K[k]]
            clear = [pts[k] for k in ks if K[k] is True]
            exp.append((gi, cut, clear, any(K[k] is None for k in ks)))
        got = [[(float(p[0]), float(p[1])) for p in f] for f in dom]
        if len(got) < len(gdom):
            stats["lists-with-a-dropped-field"] = stats.get("lists-with-a-dropped-field", 0) + 1
        if not undec:
            want = sorted([e for e in exp if e[1]], key=lambda e: len(e[1]))     # Python's sort is stable; grid order = input order
            if [w[1] for w in want] != got:
                # find the most specific description
                gotset = [tuple(f) for f in got]
                missing = [w for w in want if tuple(w[1]) not in gotset]
                if missing:
                    w = missing[0]
                    best = max(got, key=lambda f: len(set(f) & set(w[1])), default=[])
                    lost = [p for p in w[1] if p not in set(best)]
                    extra = [p for p in best if p not in set(w[1])]
                    if lost:
                        fails.append(("grid-borehole-dropped", f"list {li}: the cut of grid field {w[0]} ({len(w[1])} allowed boreholes) is not returned; closest returned field lacks the allowed borehole {lost[0]}"))
                    else:
                        fails.append(("field-differs-from-cut", f"list {li}: the returned field closest to the cut of grid field {w[0]} has {len(extra)} extra borehole(s), e.g. {extra[:1]}"))
                elif len(got) != len(want):
                    fails.append(("extra-field", f"list {li}: {len(got)} fields returned, {len(want)} non-empty cuts expected"))
                else:
                    fails.append(("order", f"list {li}: fields are the expected cuts but not in stable size order"))
        else:
            stats["lists-with-near-boundary-point"] = stats.get("lists-with-near-boundary-point", 0) + 1
            # relaxed: every clearly allowed borehole of every grid field appears in a returned field that is a subset of that grid field
            gsets = [set(f) for f in got]
            for gi, cut, clear, _ in exp:
                if not clear:
                    continue
                gs = set(gdom[gi])
                if not any(set(clear) <= s and s <= gs for s in gsets):
                    fails.append(("grid-borehole-dropped", f"list {li}: no returned field contains the {len(clear)} clearly allowed boreholes of grid field {gi}"))
                    break
    return fails, grid_desc


def work(case):
    """Pool worker: real code + predicate + hashes."""
    import random

    import numpy as np

    os.environ["OMP_NUM_THREADS"] = "1"
    t0 = time.time()
    try:
        with ghelib.quiet():
            doms, descs = call_impl(case)
        err = None
    except Exception as e:  # noqa: BLE001 - whatever the implementation raises is compared with the model's error branch
        doms, descs, err = None, None, err_name(e)
        raw = f"{type(e).__name__}: {e}"
    res = {"err": err, "impl_s": round(time.time() - t0, 3)}
    stats = {}
    rng = random.Random(case_id(case))
    if err is not None:
        res["raw"] = raw[:200]
        if well_formed(case):
            try:
                fails, _ = predicate({**case, "_raised": raw[:80]}, None, stats, rng)
                res["fails"] = fails[:6]
                res["stats"] = stats
            except Exception as e:  # noqa: BLE001
                res["pred_error"] = f"{type(e).__name__}: {e}"[:200]
        return res
    doms = [[[(float(x), float(y)) for x, y in f] for f in dom] for dom in doms]
    descs = [list(d) for d in descs]
    res["shape"] = [[len(f) for f in dom] for dom in doms]
    res["hash"] = [[field_hash(np.array(f, dtype=np.float64).reshape(-1, 2)) for f in dom] for dom in doms]
    res["points"] = sum(sum(s) for s in res["shape"])
    res["fields"] = sum(len(s) for s in res["shape"])
    t1 = time.time()
    try:
        fails, grid_desc = predicate(case, doms, stats, rng)
    except Exception as e:  # noqa: BLE001
        import traceback
        res["pred_error"] = f"{type(e).__name__}: {e} @ {traceback.format_exc(limit=2).splitlines()[-3].strip()}"[:300]
        fails, grid_desc = [], []
    res["pred_s"] = round(time.time() - t1, 3)
    res["fails"] = fails[:6]
    res["stats"] = stats
    # descriptors as positions in the un-cut descriptor list of the same candidate list
    pos = []
    ok = len(descs) == len(grid_desc)
    if ok:
        for d, gd in zip(descs, grid_desc):
            if len(set(gd)) != len(gd) or any(s not in gd for s in d):
                ok = False
                break
            pos.append([gd.index(s) for s in d])
    res["desc_pos"] = pos if ok else None
    res["grid_shape"] = None
    return res


def _dom_hash(doms):
    import numpy as np

    return [[field_hash(np.array([list(map(float, p)) for p in f], dtype=np.float64).reshape(-1, 2)) for f in dom] for dom in doms]


def history_work(chunk):
    """Call history inside ONE process: each case is built, built again with the very same argument
    objects, another case is built, and the first is built a third time; the first result is kept
    alive and re-hashed at the end, and the argument polygons are compared with a copy taken before
    the first call.  On a difference the land / no-go predicate is evaluated on the later result."""
    import copy
    import random

    os.environ["OMP_NUM_THREADS"] = "1"
    out = []
    for j, case in enumerate(chunk):
        other = chunk[j - 1] if len(chunk) > 1 else case
        rec = {}
        try:
            args0 = copy.deepcopy((case["prop"], case["nogo"]))
            with ghelib.quiet():
                r1, _ = call_impl(case)
                h1 = _dom_hash(r1)
                r2, _ = call_impl(case)
                h2 = _dom_hash(r2)
                try:
                    call_impl(other)
                except Exception:  # noqa: BLE001
                    pass
                r3, _ = call_impl(case)
                h3 = _dom_hash(r3)
                h1b = _dom_hash(r1)
            rec = {"h1": h1, "fails": [], "inputs_changed": (case["prop"], case["nogo"]) != args0}
            fresh = {**case, "prop": args0[0], "nogo": args0[1]}
            for name, h, r in (("second build", h2, r2), ("third build (after another lot)", h3, r3), ("first build, re-read after later builds", h1b, r1)):
                if h != h1:
                    doms = [[[(float(x), float(y)) for x, y in f] for f in dom] for dom in r]
                    fails, _ = predicate(fresh, doms, {}, random.Random(case_id(case)))
                    rec["fails"].append((name, fails[:2]))
        except Exception as e:  # noqa: BLE001
            rec = {"err": type(e).__name__}
        out.append(rec)
    return out


# ----------------------------------------------------------------------------- model side
def parse_h(s):
    """'ok 3:hash:0,5:hash:1|…' / 'raise:X' -> (err, shape, hash, descpos)"""
    s = s.strip()
    if s.startswith("raise:"):
        return s[6:], None, None, None
    if not s.startswith("ok"):
        return "bad:" + s[:60], None, None, None
    body = s[2:].strip()
    shape, hs, ds = [], [], []
    for part in body.split("|")[:-1]:
        a, b, c = [], [], []
        for item in part.split(","):
            if item == "":
                continue
            n, h, d = item.split(":")
            a.append(int(n))
            b.append(int(h))
            c.append(int(d))
        shape.append(a)
        hs.append(b)
        ds.append(c)
    return None, shape, hs, ds


def driver_par(ctx, lines, nproc=14, timeout=3000):
    from concurrent.futures import ThreadPoolExecutor

    if not lines:
        return []
    if len(lines) < 2 * nproc:
        nproc = max(1, len(lines) // 2)
    slices = [lines[i::nproc] for i in range(nproc)]
    with ThreadPoolExecutor(nproc) as ex:
        outs = list(ex.map(lambda sl: ctx.driver(sl, timeout=timeout), slices))
    if any(o is None for o in outs):
        return None
    res = [None] * len(lines)
    for i, o in enumerate(outs):
        res[i::nproc] = o
    return res


# ----------------------------------------------------------------------------- input generation
def snap(x, mode):
    if mode == "integer":
        return float(round(x))
    if mode == "decimal":
        return round(x, 1)
    if mode == "quarter":
        return round(x * 4) / 4
    return x


def simple(vs):
    return exact_oracle().is_simple([(Fraction(x), Fraction(y)) for x, y in vs])


def shape_polygon(rng, shape, x0, y0, w, h):
    """A simple polygon of the given kind inside [x0, x0+w] x [y0, y0+h] (before snapping)."""
    if shape == "rect":
        return [(x0, y0), (x0 + w, y0), (x0 + w, y0 + h), (x0, y0 + h)]
    if shape == "triangle":
        return [(x0, y0), (x0 + w, y0 + rng.uniform(0, 0.4) * h), (x0 + rng.uniform(0.1, 0.9) * w, y0 + h)]
    if shape in ("convex", "star"):
        n = rng.randint(4, 11)
        for _ in range(50):
            ang = sorted(rng.uniform(0, 2 * math.pi) for _ in range(n))
            if all((ang[(i + 1) % n] - ang[i]) % (2 * math.pi) < math.pi * 0.9 for i in range(n)):
                break
        else:
            ang = [2 * math.pi * i / n for i in range(n)]
        out = []
        for a in ang:
            r = 1.0 if shape == "convex" else rng.uniform(0.35, 1.0)
            out.append((x0 + w / 2 * (1 + r * math.cos(a)), y0 + h / 2 * (1 + r * math.sin(a))))
        return out
    if shape == "L":
        a, b = rng.uniform(0.3, 0.7) * w, rng.uniform(0.3, 0.7) * h
        return [(x0, y0), (x0 + w, y0), (x0 + w, y0 + b), (x0 + a, y0 + b), (x0 + a, y0 + h), (x0, y0 + h)]
    if shape == "U":
        a1, a2 = sorted((rng.uniform(0.2, 0.8) * w, rng.uniform(0.2, 0.8) * w))
        if a2 - a1 < 0.1 * w:
            a1, a2 = 0.3 * w, 0.7 * w
        d = rng.uniform(0.3, 0.8) * h
        return [(x0, y0), (x0 + w, y0), (x0 + w, y0 + h), (x0 + a2, y0 + h), (x0 + a2, y0 + h - d), (x0 + a1, y0 + h - d),
                (x0 + a1, y0 + h), (x0, y0 + h)]
    if shape == "comb":
        teeth = rng.randint(2, 3)
        k = 2 * teeth + 1
        xs = [x0 + w * i / k for i in range(k + 1)]
        d = rng.uniform(0.3, 0.8) * h
        out = [(x0, y0), (x0 + w, y0)]
        for t in range(k, 0, -1):
            lo, hi = xs[t - 1], xs[t]
            top = y0 + h - d if t % 2 == 0 else y0 + h
            out += [(hi, top), (lo, top)]
        return out
    if shape == "skewL":   # a concave hexagon with no axis-parallel edge
        th = rng.uniform(0.15, 0.6)
        base = shape_polygon(rng, "L", -0.5, -0.5, 1.0, 1.0)
        rot = [(x * math.cos(th) - y * math.sin(th), x * math.sin(th) + y * math.cos(th)) for x, y in base]
        xs, ys = [p[0] for p in rot], [p[1] for p in rot]
        return [(x0 + (x - min(xs)) / (max(xs) - min(xs)) * w, y0 + (y - min(ys)) / (max(ys) - min(ys)) * h) for x, y in rot]
    raise KeyError(shape)


LOT_SHAPES = ["rect", "convex", "star", "L", "U", "comb", "skewL", "triangle"]
NOGO_SHAPES = ["rect", "rect", "convex", "star", "triangle", "L"]


def finish_polygon(rng, vs, mode):
    vs = [(snap(x, mode), snap(y, mode)) for x, y in vs]
    out = []
    for v in vs:
        if not out or v != out[-1]:
            out.append(v)
    if len(out) > 1 and out[0] == out[-1]:
        out.pop()
    if len(out) < 3 or not simple(out):
        return None
    orient = "as-generated"
    if rng.random() < 0.5:
        out.reverse()
        orient = "reversed"
    r = rng.randrange(len(out))
    out = out[r:] + out[:r]
    return [[x, y] for x, y in out], orient


def pick_spacing(rng):
    k = rng.random()
    if k < 0.35:
        return rng.randint(30, 90) / 10.0
    if k < 0.6:
        return float(rng.randint(3, 9))
    if k < 0.7:
        return rng.randint(12, 36) / 4.0
    return rng.uniform(3.0, 9.0)


def make_case(rng, size):
    """One random geometry.  `size` bounds the number of spacings along the long side."""
    bmin = pick_spacing(rng)
    mode = rng.choice(["real", "real", "decimal", "integer", "quarter"])
    aligned = rng.random() < 0.3          # lot extents multiples of b_min: grid boreholes fall on the contour
    k1, k2 = rng.randint(3, size), rng.randint(2, size)
    W, H = (bmin * k1, bmin * k2) if aligned else (bmin * rng.uniform(2.5, size), bmin * rng.uniform(2.0, size))
    if rng.random() < 0.25:
        W, H = H, W
    n_out = rng.choice([1, 1, 1, 2, 2, 2, 3, 3])
    touch = rng.random() < 0.8             # outlines reach the axes (the bounding rectangle starts at the origin anyway)
    props, shapes, orients = [], [], []
    layout = order = None
    if n_out == 1:
        boxes = [(0.0, 0.0, W, H) if touch else (rng.uniform(0.5, 0.3 * W), rng.uniform(0.5, 0.3 * H), 0.65 * W, 0.65 * H)]
    else:
        # several parcels; boxes[0] is the largest.  Which outline attains the overall maximum x / y, and where
        # it stands in the list, is what the bounding rectangle must not depend on.
        layout = rng.choice(["stack", "side", "overlap-corner", "overlap-side", "contained", "diagonal", "random"])
        u = rng.uniform
        if layout == "stack":          # max x: large parcel, max y: small parcel (disjoint)
            boxes = [(0.0, 0.0, W, u(0.45, 0.6) * H), (u(0, 0.2) * W, 0.68 * H, u(0.25, 0.5) * W, 0.32 * H)]
        elif layout == "side":         # max x: small parcel, max y: large parcel (disjoint)
            boxes = [(0.0, 0.0, u(0.45, 0.6) * W, H), (0.68 * W, u(0, 0.2) * H, 0.32 * W, u(0.25, 0.5) * H)]
        elif layout == "overlap-corner":   # the small parcel attains both maxima, overlapping
            boxes = [(0.0, 0.0, 0.7 * W, 0.7 * H), (0.5 * W, 0.5 * H, 0.5 * W, 0.5 * H)]
        elif layout == "overlap-side":     # overlapping; max x small, max y large
            boxes = [(0.0, 0.0, 0.7 * W, H), (0.5 * W, u(0.1, 0.3) * H, 0.5 * W, u(0.25, 0.4) * H)]
        elif layout == "contained":        # the large parcel attains both maxima
            boxes = [(0.0, 0.0, W, H), (u(0.1, 0.3) * W, u(0.1, 0.3) * H, u(0.3, 0.5) * W, u(0.3, 0.5) * H)]
        elif layout == "diagonal":         # disjoint; the small parcel attains both maxima
            boxes = [(0.0, 0.0, 0.6 * W, 0.6 * H), (0.7 * W, 0.7 * H, 0.3 * W, 0.3 * H)]
        else:
            boxes = []
            for j in range(2):
                w, h = u(0.35, 0.7) * W, u(0.35, 1.0) * H
                boxes.append(((0.0 if (touch and j == 0) else u(0, W - w)), (0.0 if (touch and j == 0) else u(0, H - h)), w, h))
            boxes.sort(key=lambda b: -b[2] * b[3])
        if n_out == 3:
            w, h = u(0.15, 0.35) * W, u(0.15, 0.35) * H
            boxes.append((u(0, W - w), u(0, H - h), w, h))
        if not touch:
            boxes = [(x + 0.05 * W + 0.5, y + 0.05 * H + 0.5, w, h) for x, y, w, h in boxes]
        order = rng.choice(["largest-first", "largest-last", "largest-middle"])
        rest = boxes[1:]
        rng.shuffle(rest)
        pos = {"largest-first": 0, "largest-last": len(rest), "largest-middle": len(rest) // 2 if len(rest) > 1 else rng.choice([0, 1])}[order]
        if len(rest) == 1 and order == "largest-middle":
            order = "largest-first" if pos == 0 else "largest-last"
        boxes = rest[:pos] + [boxes[0]] + rest[pos:]
    for (x0, y0, w, h) in boxes:
        for attempt in range(30):
            shape = rng.choice(LOT_SHAPES) if attempt < 25 else "rect"
            fp = finish_polygon(rng, shape_polygon(rng, shape, x0, y0, w, h), mode if not aligned or shape not in ("rect", "L", "U", "comb") else "real")
            if fp:
                props.append(fp[0])
                shapes.append(shape)
                orients.append(fp[1])
                break
    if not props:
        props, shapes, orients = [[[0.0, 0.0], [W, 0.0], [W, H], [0.0, H]]], ["rect"], ["as-generated"]
    n_nogo = rng.choice([0, 0, 1, 1, 2, 3])
    nogos, nshapes = [], []
    for _ in range(n_nogo):
        for _ in range(30):
            shape = rng.choice(NOGO_SHAPES)
            w, h = rng.uniform(0.08, 0.4) * W, rng.uniform(0.08, 0.4) * H
            kind = rng.random()
            if kind < 0.2 and aligned:          # corners on grid boreholes
                x0, y0 = bmin * rng.randint(0, max(0, k1 - 2)), bmin * rng.randint(0, max(0, k2 - 2))
                w, h = bmin * rng.randint(1, 2), bmin * rng.randint(1, 2)
                shape = "rect"
            elif kind < 0.3:                    # origin on its contour: the single-borehole field of every list disappears
                x0, y0 = 0.0, 0.0
            elif kind < 0.4:                    # sticks out of the lot
                x0, y0 = W - 0.5 * w, rng.uniform(0, H - h)
            else:
                x0, y0 = rng.uniform(0, W - w), rng.uniform(0, H - h)
            fp = finish_polygon(rng, shape_polygon(rng, shape, x0, y0, w, h), mode)
            if fp:
                nogos.append(fp[0])
                nshapes.append(shape)
                break

    def bmax():
        q = rng.random()
        if q < 0.15:
            return bmin
        if q < 0.5:
            return bmin + rng.randint(1, 60) / 10.0
        if q < 0.7:
            return bmin * rng.randint(2, 3)
        return bmin + rng.uniform(0.0, 10.0)

    bx, by = bmax(), bmax()
    via = "design" if rng.random() < 0.6 else "fn"
    nogo = nogos
    form = "list"
    r = rng.random()
    if not nogos and via == "fn" and r < 0.5:
        nogo, form = None, "None"
    elif len(nogos) == 1 and r < 0.5:
        nogo, form = nogos[0], "flat"
    prop = props
    pform = "list"
    if len(props) == 1 and via == "design" and rng.random() < 0.4:
        prop, pform = props[0], "flat"
    if mode == "integer" and rng.random() < 0.5:   # Python ints, as a JSON file may give them
        prop = [[int(x), int(y)] for x, y in prop] if pform == "flat" else [[[int(x), int(y)] for x, y in p] for p in prop]
        mode = "pyint"
    if via == "design" and rng.random() < 0.4:
        via = "manager"          # same configuration through GHEManager's setter + set_design (flat and nested forms alike)
    case = {"bmin": bmin, "bx": bx, "by": by, "prop": prop, "nogo": nogo, "via": via,
            "meta": {"lot": "+".join(shapes), "outlines": len(props), "nogo": "+".join(nshapes) or "none", "nogo_form": form,
                     "prop_form": pform, "orient": "/".join(orients), "coords": mode, "aligned": aligned, "touch_axes": touch}}
    if len(props) > 1:
        def where(i):
            return "first" if i == 0 else ("last" if i == len(props) - 1 else "middle")
        ix = max(range(len(props)), key=lambda i: max(v[0] for v in props[i]))
        iy = max(range(len(props)), key=lambda i: max(v[1] for v in props[i]))
        case["meta"].update({"layout": layout, "order": order, "max_x_by": where(ix) + " outline", "max_y_by": where(iy) + " outline",
                             "maxima": "same outline" if ix == iy else "different outlines"})
    if rng.random() < 0.25:
        case["kc"] = [True, False]        # the default, passed explicitly
    elif rng.random() < 0.06:
        case["kc"] = rng.choice([[False, False], [True, True], [False, True]])
        case["meta"]["kc"] = "non-default"
    return case


def error_cases(rng):
    sq = [[0.0, 0.0], [30.0, 0.0], [30.0, 20.0], [0.0, 20.0]]
    bld = [[10.0, 5.0], [15.0, 5.0], [15.0, 10.0], [10.0, 10.0]]
    base = {"bmin": 5.0, "bx": 10.0, "by": 10.0}
    out = []
    for via in ("fn", "design"):
        out += [
            {**base, "prop": [], "nogo": [], "via": via, "meta": {"edge": "no outline"}},
            {**base, "prop": [[]], "nogo": [], "via": via, "meta": {"edge": "one empty outline"}},
            {**base, "prop": [[], sq], "nogo": [], "via": via, "meta": {"edge": "empty first outline"}},
            {**base, "prop": [sq, []], "nogo": [bld], "via": via, "meta": {"edge": "empty second outline"}},
            {**base, "prop": sq, "nogo": bld, "via": via, "meta": {"edge": "flat property + flat no-go"}},
            {**base, "prop": [sq], "nogo": [[], bld], "via": via, "meta": {"edge": "empty first no-go"}},
            {**base, "prop": [sq], "nogo": [bld, []], "via": via, "meta": {"edge": "empty second no-go"}},
            {**base, "prop": [sq], "nogo": [bld], "via": via, "kc": [True], "meta": {"edge": "keep_contour too short"}},
            {**base, "prop": [sq], "nogo": [], "via": via, "kc": [], "meta": {"edge": "keep_contour empty"}},
            {**base, "prop": [sq], "nogo": [], "via": via, "kc": [True], "meta": {"edge": "keep_contour short, no no-go"}},
            {**base, "bmin": 0.0, "prop": [sq], "nogo": [], "via": via, "meta": {"edge": "b_min = 0"}},
            {**base, "by": 0.0, "prop": [sq], "nogo": [], "via": via, "meta": {"edge": "b_max_y = 0"}},
            {**base, "bmin": 0.0, "prop": [], "nogo": [], "via": via, "meta": {"edge": "no outline, b_min = 0"}},
            {**base, "bmin": 40.0, "bx": 50.0, "by": 50.0, "prop": [sq], "nogo": [], "via": via, "meta": {"edge": "no admissible count: no list"}},
            {**base, "prop": [[[1.0, 1.0], [18.0, 1.0], [19.0, 18.0], [1.0, 19.0]]], "nogo": [], "via": via,
             "meta": {"edge": "lot misses every grid borehole of a list"}},
            {**base, "prop": [[[5.0, 5.0], [25.0, 5.0], [25.0, 15.0], [5.0, 15.0]]], "nogo": [[[0.0, 0.0], [30.0, 0.0], [30.0, 20.0], [0.0, 20.0]]], "via": via,
             "meta": {"edge": "no-go covers the lot"}},
            {**base, "prop": [[[0, 0], [30, 0], [30, 20], [0, 20]]], "nogo": [[[10, 5], [15, 5], [15, 10], [10, 10]]], "via": via,
             "meta": {"edge": "python ints"}},
        ]
    out.append({**base, "prop": [sq], "nogo": None, "via": "fn", "meta": {"edge": "no-go None"}})
    for c in out:
        c["meta"]["stream"] = "edge"
    return out


def load_corpus(tier):
    cases = []
    d = core.CORPUS / PROPERTY
    if d.is_dir():
        for p in sorted(d.glob("*.json")):
            j = json.loads(p.read_text())
            for c in (j if isinstance(j, list) else j.get("cases", [j])):
                c = dict(c)
                if c.get("tier") == "thorough" and tier != "thorough":
                    continue
                c.setdefault("meta", {})
                c["meta"]["corpus"] = p.name
                cases.append(c)
    return cases


# ----------------------------------------------------------------------------- unit streams
def unit_streams(ctx, rng, quick):
    """remove_cutout / determine_largest_rectangle / reorder_domain against their models."""
    import numpy as np
    from ghedesigner import domains as D
    from ghedesigner import feature_recognition as FR

    def broke(name, detail):
        ctx.disagreements_checked += 1
        if name not in ctx.broken:
            ctx.broken.append(name)
            ctx.extra[name + "_first"] = detail

    # ---- remove_cutout
    lines, expect = [], []
    n_rc = 120 if quick else 1200
    for i in range(n_rc):
        mode = rng.choice(["real", "decimal", "quarter"])
        polys = []
        for _ in range(rng.choice([1, 1, 2, 3])):
            fp = None
            while fp is None:
                fp = finish_polygon(rng, shape_polygon(rng, rng.choice(LOT_SHAPES), rng.uniform(0, 20), rng.uniform(0, 20),
                                                       rng.uniform(5, 40), rng.uniform(5, 40)), mode)
            polys.append(fp[0])
        form = "list"
        b = polys
        if len(polys) == 1 and rng.random() < 0.5:
            b, form = polys[0], "flat"
        r = rng.random()
        if r < 0.03:
            b, form = [], "[]"
        elif r < 0.06:
            b, form = [[]] + polys, "[[],…]"
        pts = []
        while len(pts) < 40:
            k = rng.random()
            poly = rng.choice(polys)
            j = rng.randrange(len(poly))
            a, c = poly[j - 1], poly[j]
            if k < 0.5:
                p = (rng.uniform(-5, 65), rng.uniform(-5, 65))
            elif k < 0.65:
                p = (float(c[0]), float(c[1]))
            elif k < 0.85:
                t = rng.random()
                p = (a[0] + t * (c[0] - a[0]), a[1] + t * (c[1] - a[1]))
            else:
                p = (rng.uniform(-5, 65), float(c[1]))
            P = np.array([p], dtype=np.float64)
            if all(classify_fast([(float(x), float(y)) for x, y in q], P)[1][0] >= 1e-7 for q in polys):
                pts.append(p)
        ri, kc = rng.random() < 0.5, rng.random() < 0.5
        try:
            got = FR.remove_cutout([list(p) for p in pts], b, remove_inside=ri, keep_contour=kc)
            got = ("ok", [(float(x), float(y)) for x, y in got])
        except Exception as e:  # noqa: BLE001
            got = ("raise", err_name(e))
        lines.append(f"rco {int(ri)} {int(kc)} {core.rs(TOL)} {enc_bounds(b)} {len(pts)} " + " ".join(f"{core.rs(x)} {core.rs(y)}" for x, y in pts))
        expect.append((got, {"boundaries": b, "points": pts, "remove_inside": ri, "keep_contour": kc}))
        ctx.count(f"remove_cutout: remove_inside={ri} keep_contour={kc} form={form}")
    out = ctx.driver(lines)
    if out is None:
        broke("remove-cutout-correspondence", "driver failed")
    else:
        for o, (got, detail) in zip(out, expect):
            ctx.case(("rco", json.dumps(detail, default=str)[:2000]), True)
            if o.startswith("raise:"):
                model = ("raise", o[6:])
            else:
                body = o[2:].strip()
                model = ("ok", [] if body in ("", "_") else [(float(core.pr(t.split(",")[0])), float(core.pr(t.split(",")[1]))) for t in body.split()])
            if model != got:
                broke("remove-cutout-correspondence", {**detail, "impl": got, "model": model})

    # ---- determine_largest_rectangle
    lines, expect = [], []
    for i in range(100 if quick else 1000):
        polys = [[[rng.choice([rng.uniform(-50, 200), float(rng.randint(-5, 100))]), rng.choice([rng.uniform(-50, 200), float(rng.randint(-5, 100))])]
                  for _ in range(rng.randint(0, 6))] for _ in range(rng.randint(0, 4))]
        try:
            got = FR.determine_largest_rectangle(polys)
        except Exception as e:  # noqa: BLE001
            got = "raise:" + type(e).__name__
        lines.append(f"dlr {len(polys)} " + " ".join(enc_poly(p) for p in polys))
        expect.append((got, polys))
    # multi-outline orders: the extrema attained by the first / a middle / the last outline
    for i in range(60 if quick else 400):
        k = rng.randint(2, 4)
        polys = [[[rng.uniform(0, 100), rng.uniform(0, 100)] for _ in range(rng.randint(3, 6))] for _ in range(k)]
        big = [[0.0, 0.0], [rng.uniform(100, 200), 0.0], [rng.uniform(100, 200), rng.uniform(100, 200)], [0.0, rng.uniform(100, 200)]]
        polys.insert(rng.choice([0, len(polys) // 2, len(polys)]), big)
        try:
            got = FR.determine_largest_rectangle(polys)
        except Exception as e:  # noqa: BLE001
            got = "raise:" + type(e).__name__
        lines.append(f"dlr {len(polys)} " + " ".join(enc_poly(p) for p in polys))
        expect.append((got, polys))
    out = ctx.driver(lines)
    first_pred = True
    for j, (got, polys) in enumerate(expect):
        ctx.case(("dlr", json.dumps(polys)), True)
        vs = [v for p in polys for v in p]
        ctx.count("determine_largest_rectangle: " + ("no vertex" if not vs else f"{len(polys)} outlines"))
        # predicate: the oracle's own bounding box (min / max over ALL vertices)
        if vs:
            x0, x1 = min(v[0] for v in vs), max(v[0] for v in vs)
            y0, y1 = min(v[1] for v in vs), max(v[1] for v in vs)
            want = [[x0, y0], [x1, y0], [x1, y1], [x0, y1], [x0, y0]]
            if got != want and first_pred:
                first_pred = False
                key = "bounding-rectangle-" + hashlib.sha1(json.dumps(polys).encode()).hexdigest()[:12]
                ctx.finding(key, f"determine_largest_rectangle({len(polys)} outlines) = {got}, the vertices span {want}",
                            {"function": "feature_recognition.determine_largest_rectangle", "outlines": polys, "impl": got, "oracle": want})
        if out is None:
            continue
        o = out[j]
        if isinstance(got, str):
            ok = False
        elif o.strip() == "inf":
            ok = all(math.isinf(v) for pt in got for v in pt)
        else:
            body = o[2:].strip()
            model = [[core.pr(t.split(",")[0]), core.pr(t.split(",")[1])] for t in body.split()]
            ok = model == [[Fraction(x), Fraction(y)] for x, y in got]
        if not ok:
            broke("largest-rectangle-correspondence", {"outlines": polys, "impl": got, "model": o})
    if out is None:
        broke("largest-rectangle-correspondence", "driver failed")

    # ---- reorder_domain (stable sort, ties, truncating zip, empty domain)
    lines, expect = [], []
    for i in range(200 if quick else 2000):
        n = rng.randint(0, 12)
        ks = [rng.randint(1, 5) if rng.random() < 0.7 else rng.randint(1, 40) for _ in range(n)]
        if rng.random() < 0.2:
            ks = sorted(ks)
        domain = [[[float(j), float(t)] for t in range(k)] for j, k in enumerate(ks)]
        descs = list(range(n + rng.choice([0, 0, 1, 3])))
        try:
            a, b = D.reorder_domain(domain, descs)
            got = ("ok", [int(f[0][0]) for f in a], list(b))
        except Exception as e:  # noqa: BLE001
            got = ("raise", err_name(e))
        lines.append("ssort " + " ".join(str(k) for k in ks))
        expect.append((got, ks))
    out = ctx.driver(lines)
    if out is None:
        broke("reorder-correspondence", "driver failed")
    else:
        for o, (got, ks) in zip(out, expect):
            ctx.case(("ssort", tuple(ks)), len(ks) > 1)
            ctx.count("reorder_domain: " + ("empty" if not ks else ("ties" if len(set(ks)) < len(ks) else "distinct sizes")))
            model = [int(t) for t in o.split()]
            if got[0] == "raise":
                ok = (got[1] == "ValueError" and not ks)
            else:
                # the k-th field is paired with the k-th descriptor: both orders must be the model's
                ok = got[1] == model and got[2] == model
            if not ok:
                broke("reorder-correspondence", {"sizes": ks, "impl": got, "model": model})


# ----------------------------------------------------------------------------- main
def run(ctx: core.Ctx):
    ctx.rule = ("one case = one DesignBiRectangleConstrained construction or polygonal_land_constraint call on one "
                "(outlines, no-go, spacings, keep_contour) input; distinct = distinct inputs; non-trivial = raised, or "
                "at least one grid borehole was cut; plus unit cases of remove_cutout / determine_largest_rectangle / "
                "reorder_domain")
    ctx.trusted_base += [
        "hand-written model Model/Constrained.lean on top of Model/Domains.lean (binary64 grid, tied bit for bit by C03 and "
        "again here) and Model/Polygon.lean (exact classification, tied by C16); compared here on every case: exception "
        "kind, list shapes, hash of all coordinate bit patterns, descriptors",
        "translator plug-in translate/gen_constrained.py (keep conditions, defaults, call arguments of remove_cutout / "
        "polygonal_land_constraint; AST pins of the rest)",
        "oracle: binary64 crossing number + band for margins >= 1e-6, exact integer/Fraction oracle of harness/c16.py below "
        "that and on a random sample (self check)",
    ]
    ctx.assumptions += [
        "points whose exact band value |pA|+|pB|-|AB| lies within 1e-9 of the tolerance 0.01 are left out of predicate and "
        "correspondence (binary64 rounding of three square roots decides there); they are counted",
        "the edge tolerance is the source's ellipse |pA|+|pB| < |AB| + 0.01 (C16); a borehole in that band counts as on the boundary",
        "odd crossing number = inside (Jordan curve theorem not proved); generated outlines are simple polygons",
        "an exception (no vertex, empty outline, a candidate list that lost all its fields, …) yields no candidate field; it "
        "is compared with the model's error branch",
    ]
    ctx.lean_prepare()
    rng = ctx.rng
    quick = ctx.tier == "quick"

    if ctx.replay:
        j = json.loads(open(ctx.replay).read())
        cases = [j.get("replay", j).get("case", j.get("replay", j))]
    else:
        cases = load_corpus(ctx.tier) + error_cases(rng)
        n = 900 if quick else 2400
        for i in range(n):
            size = rng.choice([6, 8, 10, 12]) if quick else rng.choice([6, 8, 10, 12, 14, 16])
            c = make_case(rng, size)
            c["meta"]["stream"] = "random"
            cases.append(c)
    seen, uniq = set(), []
    for c in cases:
        s = case_id(c)
        if s not in seen:
            seen.add(s)
            uniq.append(c)
    cases = uniq
    ctx.log(f"{len(cases)} cases")

    t0 = time.time()
    results = core.pool_map(work, cases, chunksize=2)
    ctx.extra["impl_and_predicate_s"] = round(time.time() - t0, 1)
    t0 = time.time()
    m_out = driver_par(ctx, [plc_line(c) for c in cases])
    ctx.extra["model_driver_s"] = round(time.time() - t0, 1)

    def broke(name, case, detail):
        ctx.disagreements_checked += 1
        if name not in ctx.broken:
            ctx.broken.append(name)
            ctx.extra[name + "_first"] = {"case": {k: v for k, v in case.items() if k != "meta"}, "detail": detail}

    far = 0.0
    agg = {}
    self_bad = []
    for i, (case, res) in enumerate(zip(cases, results)):
        meta = case.get("meta", {})
        for k in ("stream", "lot", "outlines", "nogo", "nogo_form", "prop_form", "orient", "coords", "aligned", "touch_axes", "kc", "edge", "corpus",
                  "layout", "order", "max_x_by", "max_y_by", "maxima"):
            if k in meta:
                ctx.count(f"{k}: {meta[k]}")
        ctx.count("via: " + case["via"])
        ctx.count("outcome: " + (res["err"] or "ok"))
        st = res.get("stats", {})
        for k in ("kept-inside", "kept-on-band-only", "dropped-outside-property", "dropped-in-nogo", "dropped-on-nogo-band",
                  "near-boundary-points", "exact-oracle-calls", "oracle-self-check", "lists-with-near-boundary-point", "distinct-points",
                  "lists-with-a-dropped-field"):
            if st.get(k):
                agg[k] = agg.get(k, 0) + st[k]
        far = max(far, st.get("max-distance-of-band-only-borehole-from-outline", 0.0))
        if st.get("grid-generator-differs-from-model"):
            broke("grid-generator-correspondence", case, "bi_rectangle_nested on the oracle's bounding box differs from the binary64 Domains model")
        if st.get("oracle-grid-from-implementation(driver unavailable)"):
            ctx.count("oracle grid taken from the implementation (driver unavailable)")
        if res.get("pred_error"):
            ctx.count("predicate raised")
            if "predicate-exception" not in ctx.broken:
                ctx.broken.append("predicate-exception")
                ctx.extra["predicate_exception_first"] = {"case": {k: v for k, v in case.items() if k != "meta"}, "error": res["pred_error"]}
        self_bad += st.get("oracle-self-check-bad", [])
        cut = bool(st.get("dropped-outside-property") or st.get("dropped-in-nogo") or st.get("dropped-on-nogo-band"))
        if res["err"] is None:
            ctx.count("fields", res["fields"])
            ctx.count("boreholes", res["points"])
            if cut:
                ctx.count("cases in which boreholes were cut")
        ctx.case(case_id(case), res["err"] is not None or cut,
                 {"case": {k: v for k, v in case.items() if k != "meta"}, "meta": meta, "outcome": res["err"] or "ok",
                  "fields": res.get("fields"), "boreholes": res.get("points")} if i % 41 == 0 else None)

        # ---- predicate on the implementation's own output
        kinds_seen = set()
        for kind, what in res.get("fails", []):
            if kind in kinds_seen:
                continue
            kinds_seen.add(kind)
            ctx.finding(f"{kind}-{case_id(case)}", what, {"case": case, "kind": kind})

        # ---- correspondence
        if m_out is None:
            continue
        merr, mshape, mhash, mdesc = parse_h(m_out[i])
        near = bool(st.get("near-boundary-points"))
        if res["err"] is not None or merr is not None:
            if res["err"] != merr:
                if near:
                    ctx.count("near-boundary: correspondence not judged")
                else:
                    broke("constrained-correspondence", case, {"impl": res["err"] or "ok", "impl_raw": res.get("raw"), "model": merr or "ok"})
            continue
        if mshape != res["shape"] or mhash != res["hash"]:
            if near:
                ctx.count("near-boundary: correspondence not judged")
            else:
                broke("constrained-correspondence", case, {"impl_shape": res["shape"][:3], "model_shape": mshape[:3],
                                                           "hash_equal": mhash == res["hash"]})
            continue
        ctx.count("correspondence: shapes + coordinate bits equal")
        if res["desc_pos"] is None:
            broke("descriptor-correspondence", case, "implementation descriptors cannot be located in bi_rectangle_nested's descriptor lists")
        elif res["desc_pos"] != mdesc:
            broke("descriptor-correspondence", case, {"impl": res["desc_pos"][:3], "model": mdesc[:3]})
        else:
            ctx.count("descriptor lists compared", len(mdesc))
    # ---- call histories in one process
    hist_idx = [i for i, (c, r) in enumerate(zip(cases, results)) if r["err"] is None and r.get("points", 0) <= 40000 and well_formed(c)]
    hist_idx = hist_idx[:: max(1, len(hist_idx) // (120 if quick else 800))]
    chunks = [hist_idx[j:j + 6] for j in range(0, len(hist_idx), 6)]
    for ch, hr in zip(chunks, core.pool_map(history_work, [[cases[i] for i in ch] for ch in chunks]) if chunks else []):
        for i, rec in zip(ch, hr):
            case = cases[i]
            ctx.count("history: build, build again, other lot, build again")
            ctx.case(("history", case_id(case)), True)
            if "err" in rec:
                broke("history-correspondence", case, {"a repeated build raised": rec["err"]})
                continue
            if rec["h1"] != results[i]["hash"]:
                broke("history-correspondence", case, "first build in the history process differs from the single build")
            if rec["inputs_changed"]:
                broke("history-correspondence", case, "the caller's property / no-go polygons were modified in place")
            for name, fails in rec["fails"]:
                if fails:
                    kind, what = fails[0]
                    ctx.finding(f"history-{kind}-{case_id(case)}", f"{name} of the same lot in one process: {what}", {"case": case, "kind": kind, "history": name})
                else:
                    broke("history-correspondence", case, f"{name} differs from the first build of the same lot")
    for k, v in agg.items():
        ctx.count("points: " + k, v)
    if not ctx.replay:
        try:
            unit_streams(ctx, random.Random(ctx.seed * 7919 + 4), quick)
        except Exception as e:  # noqa: BLE001 - an implementation function that raises here must not stop the check
            import traceback
            ctx.broken.append("unit-streams: " + f"{type(e).__name__}: {e}"[:200])
            ctx.extra["unit_streams_exception"] = traceback.format_exc()[-1500:]
    ctx.extra["max_distance_of_band_only_borehole_from_outline_m"] = round(far, 4)
    if self_bad:
        ctx.broken.append("oracle-self-check")
        ctx.extra["oracle_self_check_bad"] = self_bad[:3]
    ctx.programs = 5
    ctx.exhaustive = False
    if ctx.tier == "thorough":
        ctx.leanchecker(["GHEVerif.Props.C04", "GHEVerif.Lemmas.Constrained", "GHEVerif.Model.Constrained"])
