"""C11 — Combined g-function is well formed and interpolation-consistent.

Proof: lean/GHEVerif/Props/C11.lean about the model lean/GHEVerif/Model/GJoin.lean
(join_strictly_increasing / join_values_reproduced for all strictly increasing inputs and both
branches, the two equal-abscissa boundaries, interp_at_node for linear / 3-node parabola / 4-node
cubic / Lagrange with any number of curves incl. the close_tolerance snapping and a reused table,
interp_single_curve, radius correction identity/additivity over R, grab_well_formed).

Tie to the code: comparison operators / tolerances / kind ladder regenerated from the source
(translate/gen_gjoin.py -> Gen/GJoinConsts.lean), and the model run against the real
`BaseGHE.combine_sts_lts`, `GFunction.g_function_interpolation`, `borehole_radius_correction`,
`GHE.grab_g_function` on the same inputs (exact rationals over the wire).

Predicates on the implementation's own outputs use oracles that share no code with it: list
comprehensions over `fractions.Fraction`, `decimal` logarithms, the stored curves themselves.

Analytical anchor (level translation_validation, not proof): `calc_g_func_for_multiple_lengths(
boundary="UHTR")` against the finite-line-source evaluator of the Lean model (`Float`, own erf,
Gauss-Legendre in ln s); default MIFT single borehole within 20 % of it.
"""
from __future__ import annotations

import json
import math
import struct
import warnings
from decimal import Decimal, getcontext
from fractions import Fraction
from pathlib import Path

import core
import ghelib

PROPERTY = "C11"
LEVEL = "proof"
MANIFEST = {
    "text": "C11 — Combined g-function is well formed and interpolation-consistent.",
    "note": ("Lean theorems for the join (all inputs, both branches), node interpolation (1-3 curves, 4-node cubic, Lagrange, "
             "linear with any number), radius correction; 4-5 curves (scipy splines) by exact-rational model correspondence; "
             "finite-line-source anchor and 20 % MIFT band are differential runs (translation_validation)"),
    "technique": "Lean 4 theorems about a Rat model tied to the code by regenerated constants and a differential correspondence run; Float FLS evaluator in the model vs pygfunction",
    "design_ref": "DESIGN.md C11",
}

getcontext().prec = 60
TOL = 1e-9


# ----------------------------------------------------------------------------- wire helpers
def L(xs):
    return ",".join(core.rs(x) for x in xs) if len(xs) else "-"


def PL(s):
    return [] if s == "-" else [core.pr(t) for t in s.split(",")]


def bits(x: float) -> str:
    return str(struct.unpack("<Q", struct.pack("<d", float(x)))[0])


def unbits(s: str) -> float:
    return struct.unpack("<d", struct.pack("<Q", int(s)))[0]


def close(a, b, tol=TOL):
    a, b = float(a), float(b)
    return abs(a - b) <= tol * max(1.0, abs(b))


_REPORTED: set = set()


def finding(ctx, key, what, rep):
    """ctx.finding once per key (every further hit is only counted)."""
    ctx.count("finding:" + key)
    if key in _REPORTED:
        return
    _REPORTED.add(key)
    ctx.finding(key, what, rep)


def note_broken(ctx, name, first):
    ctx.disagreements_checked += 1
    if name not in ctx.broken:
        ctx.broken.append(name)
        ctx.extra[name.replace("-", "_") + "_first"] = first


# ----------------------------------------------------------------------------- 1. combine_sts_lts
def gen_join_case(rng, lts_axis):
    """Random inputs of combine_sts_lts.  Returns dict(kind, lts, g_lts, sts, g_sts)."""
    r = rng.random()
    if r < 0.55:
        lts = list(lts_axis)
    elif r < 0.8:
        n = rng.randint(1, 12)
        start = rng.choice([-8.5, -8.5, rng.uniform(-12, -5)])
        lts = [start]
        for _ in range(n - 1):
            lts.append(lts[-1] + rng.choice([rng.uniform(0.01, 1.0), 0.5, 2.0 ** -rng.randint(1, 20)]))
    else:
        lts = [float(rng.randint(-40, 10)) / 4 for _ in range(rng.randint(1, 6))]
        lts = sorted(set(lts))
    m = lts[0]
    n = rng.randint(1, 34)
    kind = rng.choice(["below", "above", "around", "around", "touch-below", "touch-above", "all-above",
                       "equal-last", "equal-inner", "unsorted", "empty-sts", "empty-lts", "len-mismatch", "dup-sts"])
    step = lambda: rng.choice([rng.uniform(0.001, 2.0), 0.25, 1.0, 2.0 ** -rng.randint(1, 30)])
    if kind == "below":          # short-time end strictly below the first long-time point
        end = m - rng.choice([rng.uniform(1e-6, 3.0), 0.1, 2.0 ** -rng.randint(1, 40)])
    elif kind == "above":        # overlaps
        end = m + rng.uniform(1e-6, 6.0)
    elif kind == "around":
        end = m + rng.uniform(-0.2, 0.2)
    elif kind == "touch-below":
        end = math.nextafter(m, -math.inf)
    elif kind == "touch-above":
        end = math.nextafter(m, math.inf)
    elif kind == "all-above":
        end = m + rng.uniform(40.0, 80.0)
    else:
        end = m + rng.uniform(-1.0, 3.0)
    sts = [end]
    for _ in range(n - 1):
        sts.append(sts[-1] - step())
    sts.reverse()
    if kind == "all-above":
        sts = [x for x in sts if x > m] or [m + 1.0]
    if kind == "equal-last":
        sts = [x for x in sts if x < m] + [m]
    elif kind == "equal-inner":
        sts = sorted(set([x for x in sts if x != m] + [m, m + rng.uniform(0.01, 1.0)]))
    elif kind == "unsorted":
        rng.shuffle(sts)
    elif kind == "dup-sts" and len(sts) > 1:
        i = rng.randrange(len(sts) - 1)
        sts[i + 1] = sts[i]
    elif kind == "empty-sts":
        sts = []
    elif kind == "empty-lts":
        lts = []
    sts = [x for x in sts if x != m] if kind in ("below", "above", "around", "all-above") else sts
    if not sts and kind not in ("empty-sts",):
        sts = [m - 1.0]
    g_sts = [rng.uniform(-3, 6) for _ in sts]
    g_lts = [rng.uniform(0, 60) for _ in lts]
    if kind == "len-mismatch":
        which = rng.randrange(3)
        if which == 0 and g_sts:
            g_sts = g_sts[:-1]
        elif which == 1:
            g_lts = g_lts + [1.0]
        else:
            g_sts = g_sts + [0.5, 0.25]
    return {"kind": kind, "lts": lts, "g_lts": g_lts, "sts": sts, "g_sts": g_sts}


def impl_join(case):
    from ghedesigner.ground_heat_exchangers import BaseGHE

    try:
        f = BaseGHE.combine_sts_lts(list(case["lts"]), list(case["g_lts"]), list(case["sts"]), list(case["g_sts"]))
    except Exception as e:  # noqa: BLE001
        return ("raise", type(e).__name__, None)
    return ("ok", [float(v) for v in f.x], [float(v) for v in f.y], f)


def strictly_increasing(xs):
    return all(a < b for a, b in zip(xs, xs[1:]))


def check_join(ctx, cases):
    lines = [f"gj_join {L(c['lts'])} {L(c['g_lts'])} {L(c['sts'])} {L(c['g_sts'])}" for c in cases]
    out = ctx.driver(lines)
    for k, c in enumerate(cases):
        r = impl_join(c)
        sts, lts = c["sts"], c["lts"]
        wf = (bool(sts) and bool(lts) and strictly_increasing(sts) and strictly_increasing(lts)
              and len(c["g_sts"]) == len(sts) and len(c["g_lts"]) == len(lts))
        equal_hit = wf and lts[0] in sts
        branch = "n/a"
        if sts and lts:
            branch = "concat" if max(sts) < min(lts) else "truncate"
        ctx.count(f"join_gen:{c['kind']}")
        ctx.count(f"join_branch:{branch}")
        ctx.count("join_outcome:" + (r[1] if r[0] == "raise" else "ok"))
        sig = ("join", c["kind"], branch, len(sts), len(lts), r[0], tuple(sts[-2:]), tuple(lts[:1]))
        ctx.case(sig, True, {"join": c["kind"], "branch": branch, "n_sts": len(sts), "n_lts": len(lts),
                             "outcome": r[1] if r[0] == "raise" else len(r[1])} if k % 997 == 0 else None)
        # -------- correspondence (exact: list surgery)
        if out is not None:
            mo = out[k]
            if r[0] == "raise":
                ok = mo == "raise " + r[1]
            elif mo.startswith("raise") or mo == "bad-arg":
                ok = False
            else:
                mb, mx, my = mo.split(" ")
                mx, my = PL(mx), PL(my)
                ix = [Fraction(v) for v in r[1]]
                iy = [Fraction(v) for v in r[2]]
                if len(set(ix)) == len(ix):
                    ok = mx == ix and my == iy and mb == branch
                else:  # duplicate abscissae: argsort order among equals is numpy's business
                    ok = mx == ix and sorted(zip(mx, my)) == sorted(zip(ix, iy)) and mb == branch
            if not ok:
                note_broken(ctx, "join-correspondence", {"case": c, "impl": r[:3], "model": out[k][:300]})
        # -------- predicate on the implementation's output, independent oracle
        if wf and not equal_hit:
            m = Fraction(lts[0])
            keep = [i for i, s in enumerate(sts) if Fraction(s) < m]          # "only below the first long-time point"
            want_x = [sts[i] for i in keep] + list(lts)
            want_y = [c["g_sts"][i] for i in keep] + list(c["g_lts"])
            rep = {"function": "BaseGHE.combine_sts_lts", **c}
            ctx.count("join_predicate_evaluated")
            if r[0] == "raise":
                finding(ctx, f"join-raises-{r[1]}-{branch}", f"combine_sts_lts raised {r[1]} on well-formed input ({branch} branch)", rep)
                continue
            if not strictly_increasing(r[1]):
                finding(ctx, f"join-axis-not-increasing-{branch}", "joined ln(t/ts) axis is not strictly increasing", {**rep, "x": r[1]})
            if keep != list(range(len(keep))) or r[1] != want_x or r[2] != want_y:
                what = "long-time part not reproduced" if r[1][-len(lts):] != list(lts) or r[2][-len(lts):] != list(c["g_lts"]) \
                    else "short-time part is not exactly the points below the first long-time point"
                key = "join-lts-not-reproduced" if what.startswith("long") else "join-sts-prefix-wrong"
                finding(ctx, f"{key}-{branch}", what, {**rep, "x": r[1], "y": r[2], "want_x": want_x})
            else:
                f = r[3]
                # the returned interpolant reproduces long-time values on long-time points, short-time values before
                idx = list(range(0, len(want_x), max(1, len(want_x) // 7))) + [len(keep), len(want_x) - 1]
                for i in idx:
                    v = float(f(want_x[i]))
                    if not close(v, want_y[i], 1e-12):
                        finding(ctx, f"join-value-at-node-{branch}", f"g({want_x[i]}) = {v}, stored {want_y[i]}", {**rep, "at": want_x[i]})
                        break
        elif equal_hit:
            # boundary recorded by theorems join_equal_last / join_equal_inner: what the code does
            last = sts[-1] == lts[0]
            ctx.count("join_boundary:" + ("equal-last" if last else "equal-inner"))
            exp_ok = (r[0] == "raise" and r[1] == "IndexError") if last else (r[0] == "ok" and r[1].count(lts[0]) == 2)
            if not exp_ok:
                note_broken(ctx, "join-boundary-behaviour", {"case": c, "impl": r[:3]})


# ----------------------------------------------------------------------------- 2. g_function_interpolation
KINDS = ["default", "linear", "quadratic", "cubic", "lagrange", "spline7"]


def gen_interp_case(rng, esk):
    n = rng.choice([0, 1, 1, 2, 2, 3, 3, 3, 4, 4, 5, 5, 6])
    style = rng.choice(["plain", "plain", "plain", "short-curve", "close-heights", "mixed-rb"])
    hs = set()
    while len(hs) < n:
        hs.add(round(rng.uniform(20.0, 400.0), rng.choice([0, 1, 3])))
    hs = sorted(hs)
    if style == "close-heights" and n >= 2:
        hs[1] = hs[0] + rng.choice([3e-7, 5e-7, 9e-7, 1.5e-6])
        hs = sorted(set(hs))
        n = len(hs)
    if rng.random() < 0.3:
        rng.shuffle(hs)
    nt = rng.choice([len(esk), len(esk), 5, 1])
    lt = list(esk[:nt])
    rb0 = rng.choice([0.055, 0.07, 0.075])
    curves = []
    a, b_, c_ = rng.uniform(1, 5), rng.uniform(0.2, 2), rng.uniform(0, 0.02)
    for h in hs:
        g = [a + b_ * (i + 1) * (1 + 0.3 * math.log(h / 50.0)) + c_ * h * (i % 3) + rng.uniform(-0.05, 0.05) for i in range(nt)]
        rb = rb0 if style != "mixed-rb" else round(rng.uniform(0.04, 0.1), 4)
        curves.append([h, rb, g])
    if style == "short-curve" and curves and nt > 1:
        curves[rng.randrange(len(curves))][2] = curves[0][2][: rng.randint(0, nt - 1)]
    B = rng.choice([5.0, 6.1, 4.3, 0.075, 7.0])
    calls = []
    for _ in range(rng.choice([1, 1, 2, 3])):
        kind = rng.choice(["default"] * 6 + KINDS)
        where = rng.choice(["node", "node", "node", "snap", "near", "between", "below-tol", "below", "above", "zero"])
        if not hs:
            target = 100.0
        else:
            lo, hi = min(hs), max(hs)
            h = rng.choice(hs)
            if where == "node":
                target = h
            elif where == "snap":
                target = rng.choice([lo, hi]) + rng.choice([-1, 1]) * rng.choice([1e-7, 5e-7, 9.9e-7])
            elif where == "near":
                target = h + rng.choice([-1, 1]) * rng.choice([1.01e-6, 2e-6, 1e-4])
            elif where == "between":
                target = rng.uniform(lo, hi)
            elif where == "below-tol":
                target = lo - rng.uniform(1.1e-6, 0.00099)
            elif where == "below":
                target = lo - rng.uniform(0.0011, 15.0)
            else:
                target = hi + rng.uniform(1.1e-6, 40.0)
        boh = 0.0 if where == "zero" else B / target
        calls.append({"kind": kind, "where": where, "target": target, "b_over_h": boh})
    return {"style": style, "B": B, "d": rng.choice([0.0, 0.1, 2.0, 5.0]), "log_time": lt, "curves": curves, "calls": calls}


def make_gfunction(case):
    from ghedesigner.gfunction import GFunction

    return GFunction(b=case["B"], d=case["d"], r_b_values={c[0]: c[1] for c in case["curves"]},
                     g_lts={c[0]: list(c[2]) for c in case["curves"]}, log_time=list(case["log_time"]),
                     bore_locations=[(0.0, 0.0)])


def curves_wire(curves):
    return "|".join(f"{core.rs(h)};{core.rs(rb)};{L(g)}" for h, rb, g in curves) if curves else "-"


def impl_interp(gf, boh, kind):
    with warnings.catch_warnings(record=True) as w:
        warnings.simplefilter("always")
        try:
            g, rb, d, h_eq = gf.g_function_interpolation(boh) if kind == "default" else gf.g_function_interpolation(boh, kind=kind)
        except Exception as e:  # noqa: BLE001
            return {"raise": type(e).__name__, "warned": any("Extrapolation" in str(x.message) for x in w)}
    return {"g": [float(v) for v in g], "rb": float(rb), "d": float(d), "h_eq": float(h_eq),
            "warned": any("Extrapolation" in str(x.message) for x in w)}


def boh_for_model(case_B, boh):
    """A rational r with 1/r*B == the double the implementation computes for `1 / b_over_h * B`."""
    if boh == 0.0:
        return Fraction(0)
    h0 = 1 / boh * case_B
    if h0 == 0.0 or not math.isfinite(h0):
        return Fraction(boh)
    return Fraction(case_B) / Fraction(h0)


def check_interp(ctx, cases):
    """Sequential calls on one object share the interpolation table: the model threads `cache`."""
    gfs = [make_gfunction(c) for c in cases]
    impl = [[] for _ in cases]
    cache = ["none"] * len(cases)
    model = [[] for _ in cases]
    depth = max(len(c["calls"]) for c in cases) if cases else 0
    for j in range(depth):
        idx = [i for i, c in enumerate(cases) if len(c["calls"]) > j]
        lines = []
        for i in idx:
            c = cases[i]
            call = c["calls"][j]
            impl[i].append(impl_interp(gfs[i], call["b_over_h"], call["kind"]))
            mk = call["kind"] if call["kind"] in KINDS[:5] else "bad"
            lines.append(f"gj_interp {core.rs(c['B'])} {core.rs(c['d'])} {L(c['log_time'])} {curves_wire(c['curves'])} "
                         f"{core.rs(boh_for_model(c['B'], call['b_over_h']))} {mk} {cache[i]}")
        out = ctx.driver(lines)
        if out is None:
            return
        for i, mo in zip(idx, out):
            if mo.startswith("raise"):
                _, exc, cache[i] = mo.split(" ")
                mo = "raise " + exc
                if exc == "IndexError" or impl[i][-1].get("raise") == "IndexError":
                    # half-built table after a short curve: not modelled, stop this object's sequence here
                    cases[i]["calls"] = cases[i]["calls"][: j + 1]
            elif mo != "bad-arg":
                cache[i] = mo.split(" ")[5]
            model[i].append(mo)
    for i, c in enumerate(cases):
        n = len(c["curves"])
        stored = {cv[0]: cv for cv in c["curves"]}
        hs = [cv[0] for cv in c["curves"]]
        for j, call in enumerate(c["calls"]):
            r, mo = impl[i][j], model[i][j]
            kind = call["kind"]
            outcome = r.get("raise", "ok")
            ctx.count(f"interp_curves:{n}")
            ctx.count(f"interp_kind:{kind}")
            ctx.count(f"interp_where:{call['where']}")
            ctx.count(f"interp_outcome:{outcome}")
            ctx.count(f"interp_call_no:{j + 1}")
            if r.get("warned"):
                ctx.count("interp_extrapolation_warned")
            ctx.case(("interp", n, kind, call["where"], j, c["style"], outcome, round(call["target"], 6)), n > 0,
                     {"interp_curves": n, "kind": kind, "where": call["where"], "call_no": j + 1, "outcome": outcome}
                     if (i % 499 == 0 and j == 0) else None)
            # ---- correspondence
            tol = 1e-6 if (kind == "lagrange" or "lagrange" in mo) else TOL
            if c["style"] == "close-heights":
                tol = None  # ill-conditioned on purpose: only h_eq / rb / outcome are compared
            if "raise" in r:
                ok = mo == "raise " + r["raise"]
            elif mo.startswith("raise") or mo == "bad-arg":
                ok = False
            else:
                mg, mrb, mh, mw, ms, _mc = mo.split(" ")
                mg = PL(mg)
                ok = (len(mg) == len(r["g"]) and Fraction(r["h_eq"]) == core.pr(mh) and (mw == "1") == r["warned"] and r["d"] == c["d"]
                      and (tol is None or (close(r["rb"], core.pr(mrb), tol) and all(close(a, b, tol) for a, b in zip(r["g"], mg)))))
                if ok and tol is not None and mg:
                    dev = max(abs(a - float(b)) / max(1.0, abs(float(b))) for a, b in zip(r["g"], mg))
                    key = "interp_max_dev_lagrange" if tol > TOL else "interp_max_dev"
                    ctx.extra[key] = max(ctx.extra.get(key, 0.0), dev)
            if not ok:
                note_broken(ctx, "interp-correspondence", {"case": c, "call": j, "impl": r, "model": mo[:400]})
            # ---- predicate: at a stored height the stored curve comes back
            wf = (n >= 1 and c["style"] in ("plain", "mixed-rb") and call["where"] in ("node", "snap")
                  and kind in KINDS[:5] and not (n == 1 and kind != "default")
                  and all(len(cv[2]) == len(c["log_time"]) for cv in c["curves"]))
            # a table left by an earlier out-of-range call may be an extrapolating one: still fine at a node
            if wf:
                if call["where"] == "node":
                    want_h = call["target"]
                else:
                    want_h = min(hs, key=lambda h: abs(h - call["target"]))
                    if n == 1:
                        want_h = hs[0]
                rep = {"function": "GFunction.g_function_interpolation", "case": c, "call": j}
                ctx.count(f"interp_node_predicate_evaluated:n{min(n, 6)}")
                ptol = 1e-6 if (kind == "lagrange" or "lagrange" in cache[i]) else TOL
                if "raise" in r:
                    finding(ctx, f"interp-node-raises-{r['raise']}-n{min(n, 6)}-{kind}", f"interpolation at a stored height raised {r['raise']}", rep)
                else:
                    cv = stored[want_h]
                    snapped_ok = (r["h_eq"] == want_h) if call["where"] == "snap" else close(r["h_eq"], want_h, 1e-12)
                    if not snapped_ok:
                        finding(ctx, f"interp-node-heq-n{min(n, 6)}-{call['where']}", f"h_eq = {r['h_eq']!r}, stored height {want_h!r}", rep)
                    elif not (len(r["g"]) == len(cv[2]) and all(close(a, b, ptol) for a, b in zip(r["g"], cv[2])) and close(r["rb"], cv[1], ptol)):
                        finding(ctx, f"interp-node-curve-n{min(n, 6)}-{kind}", "interpolating at a stored height does not return the stored curve", rep)
                    elif r["warned"]:
                        finding(ctx, f"interp-node-warned-n{min(n, 6)}", "extrapolation warning at a stored height", rep)
                    elif r["d"] != c["d"]:
                        finding(ctx, "interp-buried-depth", f"returned buried depth {r['d']!r}, stored {c['d']!r}", rep)


# ----------------------------------------------------------------------------- 3. radius correction
def dec_log(x: float) -> Decimal:
    return Decimal(x).ln()


def check_radius(ctx, rng, n):
    from ghedesigner.gfunction import GFunction

    lines, keep = [], []
    for k in range(n):
        g = [rng.uniform(-2, 60) for _ in range(rng.choice([0, 1, 5, 27]))]
        r0, r1, r2 = (rng.choice([0.0375, 0.05, 0.075, rng.uniform(0.02, 0.2)]) for _ in range(3))
        mode = rng.choice(["ok"] * 8 + ["zero", "neg"])
        rb, rbs = (0.0, r1) if mode == "zero" else ((-r0, r1) if mode == "neg" else (r0, r1))
        ctx.count(f"rcorr_mode:{mode}")
        ctx.case(("rcorr", mode, len(g), rb, rbs), True, None)
        try:
            out = GFunction.borehole_radius_correction(list(g), rb, rbs)
            res = ("ok", out)
        except Exception as e:  # noqa: BLE001
            res = ("raise", type(e).__name__)
        lval = math.log(rbs / rb) if (rb != 0 and rbs / rb > 0) else 0.0
        lines.append(f"gj_rcorr {core.rs(lval)} {L(g)} {core.rs(rb)} {core.rs(rbs)}")
        keep.append((g, rb, rbs, res, r2))
        if mode != "ok":
            continue
        rep = {"function": "GFunction.borehole_radius_correction", "g": g, "rb": rb, "rb_star": rbs, "r2": r2}
        # identity for equal radii (exact), shift = ln(ratio) (decimal oracle), additivity
        same = GFunction.borehole_radius_correction(list(g), rb, rb)
        if same != g:
            finding(ctx, "rcorr-identity", "radius correction with rb* = rb changes the curve", rep)
        shift = float(dec_log(rbs) - dec_log(rb))
        if not all(close(o, v - shift, 1e-12) for o, v in zip(res[1], g)):
            finding(ctx, "rcorr-shift", "corrected curve is not g - ln(rb*/rb)", rep)
        two = GFunction.borehole_radius_correction(res[1], rbs, r2)
        one = GFunction.borehole_radius_correction(list(g), rb, r2)
        if not all(close(a, b, 1e-12) for a, b in zip(two, one)):
            finding(ctx, "rcorr-additive", "two successive corrections differ from the direct one", rep)
    out = ctx.driver(lines)
    if out is None:
        return
    for (g, rb, rbs, res, _), mo in zip(keep, out):
        if res[0] == "raise":
            ok = mo == "raise " + res[1]
        else:
            ok = not mo.startswith("raise") and len(PL(mo)) == len(res[1]) and all(close(a, b, 1e-12) for a, b in zip(res[1], PL(mo)))
        if not ok:
            note_broken(ctx, "rcorr-correspondence", {"g": g, "rb": rb, "rb_star": rbs, "impl": res, "model": mo[:300]})


# ----------------------------------------------------------------------------- 4. grab_g_function on real objects
RB_OFFSETS = [7.0e-4, -5.0e-4, 9.0e-5, -9.0e-5, 9.0e-7, -9.0e-7, 9.9e-4, -2.0e-4]


def gen_real_case(rng, k):
    H = round(math.exp(rng.uniform(math.log(20.0), math.log(400.0))), 1)
    alpha = rng.uniform(0.3e-6, 2.0e-6)
    ksoil = round(rng.uniform(1.0, 3.5), 2)
    nh = rng.choice([1, 1, 3, 3, 2, 4, 5]) if k >= 4 else [1, 3, 3, 1][k]
    if k < 4:  # make sure both branches are present in every run
        H, alpha = [(25.0, 1.5e-6), (60.0, 1.0e-6), (250.0, 0.5e-6), (400.0, 0.3e-6)][k]
    if nh == 1:
        heights = [H]
    else:
        lo = max(15.0, H * rng.uniform(0.5, 0.8))
        hi = H * rng.uniform(1.0, 1.4) if rng.random() < 0.5 else H
        heights = [round(lo + (hi - lo) * i / (nh - 1), 3) for i in range(nh)]
    at = rng.choice(["stored", "stored", "other"]) if nh > 1 else "stored"
    target = rng.choice(heights) if at == "stored" else round(rng.uniform(min(heights), max(heights)), 2)
    coords = rng.choice([[(0.0, 0.0)], [(0.0, 0.0), (5.0, 0.0)], [(0.0, 0.0), (5.0, 0.0), (0.0, 5.0)],
                         [(0.0, 0.0), (6.0, 0.0), (0.0, 6.0), (6.0, 6.0)]])
    return {"H": target, "alpha": alpha, "k": ksoil, "heights": heights, "at": at, "coords": coords,
            "dia": rng.choice([0.11, 0.14, 0.15]), "D": rng.choice([0.0, 0.1, 0.5, round(rng.uniform(1.0, 4.0), 1), 2.0]),
            "rb_ref_factor": [1.0, 1.0, 0.8, 1.3][k % 4] if k % 3 else 1.0,
            # library radius within a millimetre / 1e-4 m / 1e-6 m of the borehole radius (not equal): k % 3 == 0
            "rb_ref_offset": RB_OFFSETS[(k // 3) % len(RB_OFFSETS)] if k % 3 == 0 else 0.0,
            "rb2_offset": [7.0e-4, -5.0e-4, 2.5e-3, 9.0e-5, -9.0e-7][k % 5], "pipe": rng.choice(["SINGLEUTUBE", "SINGLEUTUBE", "DOUBLEUTUBEPARALLEL", "COAXIAL"])}


def real_worker(case):
    phys = ghelib.default_physics()
    phys["soil"] = (case["k"], case["k"] / case["alpha"], 15.0)
    phys["borehole"] = (case["H"], case["D"], case["dia"])
    try:
        ghe = ghelib.build_ghe(phys, case["pipe"], case["coords"], [0.0] * 8760, 12, max_h=max(case["heights"]),
                               min_h=min(case["heights"]), heights=list(case["heights"]), b=5.0)
    except Exception as e:  # noqa: BLE001
        return {"build_error": f"{type(e).__name__}: {e}"}
    gf = ghe.gFunction
    if case["rb_ref_factor"] != 1.0 or case.get("rb_ref_offset", 0.0) != 0.0:  # curves tabulated for another borehole radius
        gf.r_b_values = {h: rb * case["rb_ref_factor"] + case.get("rb_ref_offset", 0.0) for h, rb in gf.r_b_values.items()}
    boh = ghe.B_spacing / float(ghe.bhe.b.H)
    with warnings.catch_warnings():
        warnings.simplefilter("ignore")
        try:
            g, gb = ghe.grab_g_function(boh)
        except Exception as e:  # noqa: BLE001
            return {"grab_error": type(e).__name__}
        gi, rbv, _, heq = gf.g_function_interpolation(boh)   # table reused
        # a second borehole radius against the same library (additivity of the correction through grab_g_function)
        rb1 = ghe.bhe.b.r_b
        rb2 = rb1 + case.get("rb2_offset", 0.0)
        ghe.bhe.b.r_b = rb2
        try:
            g2, _ = ghe.grab_g_function(boh)
            gy2 = [float(v) for v in g2.y]
        except Exception as e:  # noqa: BLE001
            gy2 = type(e).__name__
        ghe.bhe.b.r_b = rb1
    rn = ghe.radial_numerical
    return {
        "B": float(gf.B), "d": float(gf.d), "d_in": float(case["D"]), "log_time": [float(v) for v in gf.log_time],
        "curves": [[float(h), float(gf.r_b_values[h]), [float(v) for v in gf.g_lts[h]]] for h in gf.g_lts],
        "boh": float(boh), "rb_star": float(ghe.bhe.b.r_b), "rb2": float(rb2), "gy2": gy2,
        "sts": [float(v) for v in rn.lntts.tolist()], "g_sts": [float(v) for v in rn.g.tolist()],
        "gb_sts": [float(v) for v in rn.g_bhw.tolist()],
        "gx": [float(v) for v in g.x], "gy": [float(v) for v in g.y], "bx": [float(v) for v in gb.x], "by": [float(v) for v in gb.y],
        "gi": [float(v) for v in gi], "rbv": float(rbv), "heq": float(heq),
        "g_at_lts": [float(g(v)) for v in gf.log_time], "g_at_sts": [float(g(v)) for v in rn.lntts.tolist() if v < gf.log_time[0]],
    }


def check_real(ctx, cases, results):
    lines, idx = [], []
    for i, (c, r) in enumerate(zip(cases, results)):
        if "build_error" in r or "grab_error" in r:
            continue
        lval = math.log(r["rb_star"] / r["rbv"])
        lines.append(f"gj_grab {core.rs(r['B'])} {core.rs(r['d'])} {L(r['log_time'])} {curves_wire(r['curves'])} "
                     f"{core.rs(boh_for_model(r['B'], r['boh']))} none {core.rs(r['rb_star'])} {core.rs(lval)} "
                     f"{L(r['sts'])} {L(r['g_sts'])} {L(r['gb_sts'])}")
        idx.append(i)
    out = ctx.driver(lines) if lines else []
    mout = dict(zip(idx, out)) if out is not None else {}
    for i, (c, r) in enumerate(zip(cases, results)):
        n = len(c["heights"])
        if "build_error" in r:
            ctx.count("real_build_error")
            ctx.case(("real-build-error", i), False, None)
            continue
        rep = {"function": "GHE.grab_g_function", "case": c}
        if "grab_error" in r:
            finding(ctx, f"grab-raises-{r['grab_error']}", f"grab_g_function raised {r['grab_error']} on a real exchanger", rep)
            continue
        lts = r["log_time"]
        branch = "concat" if max(r["sts"]) < min(lts) else "truncate"
        ctx.count(f"real_branch:{branch}")
        ctx.count(f"real_heights:{n}")
        ctx.count(f"real_at:{c['at']}")
        lib_rb = r["curves"][0][1]
        ctx.count("real_radius_gap:" + ("0" if lib_rb == r["rb_star"] else "<1e-6" if abs(lib_rb - r["rb_star"]) < 1e-6 else
                                        "<1e-4" if abs(lib_rb - r["rb_star"]) < 1e-4 else "<1mm" if abs(lib_rb - r["rb_star"]) < 1e-3 else ">=1mm"))
        ctx.case(("real", c["H"], round(c["alpha"] * 1e9), n, c["at"], branch, c["pipe"], len(c["coords"])), True,
                 {"real_H": c["H"], "alpha": c["alpha"], "heights": c["heights"], "branch": branch, "sts_end": r["sts"][-1],
                  "kept_sts": r["gx"].index(lts[0]) if lts[0] in r["gx"] else None} if i < 4 else None)
        # ---- correspondence with the model
        if i in mout:
            mo = mout[i]
            ok = False
            if not mo.startswith("raise") and mo != "bad-arg":
                gx, gy, bx, by, mrb, mh, _ = mo.split(" ")
                gx, gy, bx, by = PL(gx), PL(gy), PL(bx), PL(by)
                ok = (gx == [Fraction(v) for v in r["gx"]] and bx == [Fraction(v) for v in r["bx"]]
                      and len(gy) == len(r["gy"]) and all(close(a, b) for a, b in zip(r["gy"], gy))
                      and all(close(a, b) for a, b in zip(r["by"], by))
                      and close(r["rbv"], core.pr(mrb)) and Fraction(r["heq"]) == core.pr(mh))
            if not ok:
                note_broken(ctx, "grab-correspondence", {"case": c, "model": mo[:300], "impl_x": r["gx"][:5]})
        # ---- predicate (oracle: list comprehension + stored curves + decimal log)
        keep = [j for j, s in enumerate(r["sts"]) if s < lts[0]]
        want_x = [r["sts"][j] for j in keep] + lts
        if not strictly_increasing(r["gx"]) or not strictly_increasing(r["bx"]):
            finding(ctx, f"grab-axis-not-increasing-{branch}", "simulation g-function axis not strictly increasing", rep)
            continue
        if r["gx"] != want_x or r["bx"] != want_x:
            finding(ctx, f"grab-axis-wrong-{branch}", "axis is not (short-time points below the first long-time point) + (all long-time points)", {**rep, "x": r["gx"]})
            continue
        nk = len(keep)
        if r["gy"][:nk] != [r["g_sts"][j] for j in keep] or r["by"][:nk] != [r["gb_sts"][j] for j in keep]:
            finding(ctx, f"grab-sts-values-{branch}", "short-time values not reproduced before the first long-time point", rep)
        if r["gy"][nk:] != r["by"][nk:]:
            finding(ctx, "grab-g-vs-gbhw", "g and g_bhw differ on the long-time points", rep)
        ctx.count("real_predicate_evaluated")
        ctx.count("real_depth:" + ("0" if c["D"] == 0 else "0-1" if c["D"] < 1 else "1-4"))
        if r["d"] != c["D"]:
            finding(ctx, "grab-buried-depth", f"GFunction.d = {r['d']!r} for a borehole buried at {c['D']!r}", rep)
        if c["at"] == "stored":
            cv = next(cv for cv in r["curves"] if cv[0] == c["H"])
            shift = float(dec_log(r["rb_star"]) - dec_log(cv[1]))
            if not all(close(a, v - shift) for a, v in zip(r["gy"][nk:], cv[2])):
                dev = max(abs(a - (v - shift)) for a, v in zip(r["gy"][nk:], cv[2]))
                finding(ctx, f"grab-lts-values-n{n}", f"long-time part is off the stored curve at this height minus ln(rb*/rb) by {dev:.3g} "
                        f"(borehole radius {r['rb_star']!r}, library radius {cv[1]!r}, ln ratio {shift:.3g})", rep)
        # two borehole radii against one library: the tails differ by ln(rb2/rb1) exactly (additivity seen through grab)
        if isinstance(r.get("gy2"), list):
            d12 = float(dec_log(r["rb2"]) - dec_log(r["rb_star"]))
            if not all(close(b, a - d12) for a, b in zip(r["gy"][nk:], r["gy2"][nk:])):
                dev = max(abs(b - (a - d12)) for a, b in zip(r["gy"][nk:], r["gy2"][nk:]))
                finding(ctx, "grab-radius-additivity", f"long-time parts for borehole radii {r['rb_star']!r} and {r['rb2']!r} against one library "
                        f"(stored radius {lib_rb!r}) differ from ln(rb2/rb1) by {dev:.3g}", {**rep, "rb2": r["rb2"]})
        elif "gy2" in r:
            finding(ctx, f"grab-raises-{r['gy2']}", f"grab_g_function raised {r['gy2']} after the borehole radius changed", rep)
        if not all(close(a, b, 1e-12) for a, b in zip(r["g_at_lts"], r["gy"][nk:])) or \
                not all(close(a, b, 1e-12) for a, b in zip(r["g_at_sts"], r["gy"][:nk])):
            finding(ctx, "grab-interpolant-at-nodes", "returned interp1d does not reproduce its nodes", rep)


# ----------------------------------------------------------------------------- 4b. call histories on one GHE object
HISTORY_MUTATIONS = ["replace-gfunction", "compute_g_functions", "rb-table", "bhe-radius", "short-time-response", "none",
                     # in-place changes of the live exchanger that leave H and alpha alone, followed by simulate() (which recomputes the
                     # short-time response of `bhe.to_single()` — the same object for a single U-tube)
                     "inplace-bhe-radius+simulate", "inplace-grout-rhoCp+simulate", "inplace-grout-k+simulate", "inplace-pipe-k+simulate",
                     "inplace-soil-k-same-alpha+simulate",
                     # compute_g_functions() -> grab -> narrow the height window / change the burial depth -> compute_g_functions() again
                     "recompute-window", "recompute-depth",
                     # one GFunction object handed to two GHEs; the first refreshes its family
                     "shared-gfunction"]


def gen_history_case(rng, k):
    mut = HISTORY_MUTATIONS[k % len(HISTORY_MUTATIONS)]
    H = float(rng.choice([40, 60, 80, 100, 120, 150, 200]))
    lo = round(H * rng.uniform(0.4, 0.7), 1)
    pos = rng.choice(["max", "avg"])
    hi = H if pos == "max" else round(2 * H - lo, 1)       # H is max_height or the average: stored after compute_g_functions
    if mut.startswith("recompute"):                           # H must be stored in both families: the average of both windows
        lo = round(H * rng.uniform(0.5, 0.65), 1)
        hi = round(2 * H - lo, 1)
    return {"mutation": mut, "H": H, "min_h": lo, "max_h": hi, "alpha": rng.uniform(0.4e-6, 1.6e-6), "k": round(rng.uniform(1.2, 3.0), 2),
            "D": rng.choice([0.0, 1.0, 2.0, 4.0]), "dia": rng.choice([0.14, 0.15]),
            "coords": rng.choice([[(0.0, 0.0)], [(0.0, 0.0), (5.0, 0.0)], [(0.0, 0.0), (5.0, 0.0), (0.0, 5.0), (5.0, 5.0)]]),
            "first_boundary": rng.choice(["UHTR", "UHTR", "UBWT"]), "grabs_before": rng.choice([1, 1, 2]),
            "factor": rng.choice([0.8, 1.25, 1.5, 1.009, 0.993]) if mut in ("rb-table", "bhe-radius") else rng.choice([0.8, 1.25, 1.5]),
            "narrow": rng.choice([0.4, 0.5, 0.7]), "new_D": rng.choice([0.0, 0.5, 6.0])}


def _grab_record(ghe, boh):
    with warnings.catch_warnings():
        warnings.simplefilter("ignore")
        g, gb = ghe.grab_g_function(boh)
    return {"gx": [float(v) for v in g.x], "gy": [float(v) for v in g.y], "bx": [float(v) for v in gb.x], "by": [float(v) for v in gb.y]}


def history_worker(case):
    """grab -> change one ingredient -> grab again at the SAME B/H, all on one object; plus a fresh object built
    directly in the final state (only where that is the same physical object: g-function replaced)."""
    from ghedesigner.borehole import GHEBorehole
    from ghedesigner.gfunction import GFunction, calc_g_func_for_multiple_lengths
    from ghedesigner.ground_heat_exchangers import GHE
    from ghedesigner.simulation import SimulationParameters
    from ghedesigner.utilities import eskilson_log_times

    phys = ghelib.default_physics()
    phys["soil"] = (case["k"], case["k"] / case["alpha"], 15.0)
    phys["borehole"] = (case["H"], case["D"], case["dia"])
    fluid, pipe, grout, soil, borehole, bhe_type = ghelib.media(phys, "SINGLEUTUBE")
    sim = SimulationParameters(1, 12, 35.0, 5.0, case["max_h"], case["min_h"])
    coords = [tuple(p) for p in case["coords"]]
    n = len(coords)
    m_bh = phys["flow"] / 1000.0 * fluid.rho

    def new_ghe(gfun, sim_for=None):
        return GHE(phys["flow"] * n, 5.0, bhe_type, fluid, GHEBorehole(case["H"], case["D"], case["dia"] / 2.0, x=0.0, y=0.0), pipe, grout, soil,
                   gfun, sim if sim_for is None else sim_for, loads)

    sim_for = None
    loads = [2000.0 * n * math.sin(i / 8760.0 * 2 * math.pi) for i in range(8760)]
    extra = {}

    try:
        with ghelib.quiet(), warnings.catch_warnings():
            warnings.simplefilter("ignore")
            g0 = calc_g_func_for_multiple_lengths(5.0, [case["H"]], borehole.r_b, borehole.D, m_bh, bhe_type, eskilson_log_times(), coords,
                                                  fluid, pipe, grout, soil, boundary=case["first_boundary"])
            ghe = new_ghe(g0)
            boh = ghe.B_spacing / float(ghe.bhe.b.H)
            first = None
            for _ in range(case["grabs_before"]):
                first = _grab_record(ghe, boh)
            mut = case["mutation"]
            fresh = None
            if mut.endswith("+simulate"):
                from ghedesigner.enums import TimestepType
                from ghedesigner.radial_numerical_borehole import RadialNumericalBH

                ghe.simulate(method=TimestepType.HYBRID)
                first = _grab_record(ghe, boh)
                what = mut.split("+")[0]
                if what == "inplace-bhe-radius":
                    ghe.bhe.b.r_b = ghe.bhe.b.r_b * case["factor"] if case["factor"] < 1.3 else ghe.bhe.b.r_b * 1.25
                elif what == "inplace-grout-rhoCp":
                    ghe.bhe.grout.rhoCp = ghe.bhe.grout.rhoCp / (2.0 * case["factor"])
                elif what == "inplace-grout-k":
                    ghe.bhe.grout.k = ghe.bhe.grout.k * case["factor"]
                elif what == "inplace-pipe-k":
                    ghe.bhe.pipe.k = ghe.bhe.pipe.k * case["factor"]
                elif what == "inplace-soil-k-same-alpha":
                    ghe.bhe.soil.k = ghe.bhe.soil.k * case["factor"]
                    ghe.bhe.soil.rhoCp = ghe.bhe.soil.rhoCp * case["factor"]
                ghe.simulate(method=TimestepType.HYBRID)
                # the short-time response of the exchanger as it is NOW, from a new radial model
                fr = RadialNumericalBH(ghe.bhe_eq)
                fr.calc_sts_g_functions(ghe.bhe_eq)
                extra["fresh_sts"] = {"x": [float(v) for v in fr.lntts.tolist()], "g": [float(v) for v in fr.g.tolist()],
                                      "gb": [float(v) for v in fr.g_bhw.tolist()]}
            elif mut in ("recompute-window", "recompute-depth"):
                ghe.compute_g_functions()
                first = _grab_record(ghe, boh)
                if mut == "recompute-window":
                    half = (case["H"] - case["min_h"]) * case["narrow"]
                    ghe.sim_params.min_height, ghe.sim_params.max_height = case["H"] - half, case["H"] + half
                else:
                    ghe.bhe.b.D = case["new_D"]
                ghe.compute_g_functions()
                gfn = ghe.gFunction
                extra["at_stored"] = []
                for h in list(gfn.g_lts):
                    gi_h = gfn.g_function_interpolation(gfn.B / h)[0]
                    extra["at_stored"].append({"h": float(h), "got": [float(v) for v in gi_h], "stored": [float(v) for v in gfn.g_lts[h]]})
                # a fresh GHE brought to the same final state by one compute_g_functions()
                sim2 = SimulationParameters(1, 12, 35.0, 5.0, ghe.sim_params.max_height, ghe.sim_params.min_height)
                g1 = calc_g_func_for_multiple_lengths(5.0, [case["H"]], borehole.r_b, ghe.bhe.b.D, m_bh, bhe_type, eskilson_log_times(), coords,
                                                      fluid, pipe, grout, soil, boundary=case["first_boundary"])
                fg = GHE(phys["flow"] * n, 5.0, bhe_type, fluid, GHEBorehole(case["H"], ghe.bhe.b.D, case["dia"] / 2.0, x=0.0, y=0.0), pipe, grout,
                         soil, g1, sim2, loads)
                fg.compute_g_functions()
                extra["fresh_final"] = _grab_record(fg, boh)
            elif mut == "shared-gfunction":
                other = new_ghe(g0)                    # second exchanger holding the same GFunction object
                before = _grab_record(other, boh)
                keys_before = sorted(float(h) for h in g0.g_lts)
                ghe.compute_g_functions()              # the first one refreshes its family
                extra["shared"] = {"before": before, "after": _grab_record(other, boh), "keys_before": keys_before,
                                   "keys_after": sorted(float(h) for h in other.gFunction.g_lts),
                                   "same_object_still": other.gFunction is g0, "first_has_new_object": ghe.gFunction is not g0}
            elif mut == "replace-gfunction":
                old = ghe.gFunction
                ghe.gFunction = GFunction(b=old.B, d=old.d, r_b_values=dict(old.r_b_values),
                                          g_lts={h: [v * case["factor"] + 0.3 for v in g] for h, g in old.g_lts.items()},
                                          log_time=list(old.log_time), bore_locations=list(old.bore_locations))
            elif mut == "compute_g_functions":
                ghe.compute_g_functions()
            elif mut == "rb-table":
                old = ghe.gFunction
                ghe.gFunction = GFunction(b=old.B, d=old.d, r_b_values={h: rb * case["factor"] for h, rb in old.r_b_values.items()},
                                          g_lts={h: list(g) for h, g in old.g_lts.items()}, log_time=list(old.log_time),
                                          bore_locations=list(old.bore_locations))
            elif mut == "bhe-radius":
                ghe.bhe.b.r_b = ghe.bhe.b.r_b * case["factor"]
            elif mut == "short-time-response":
                rn = ghe.radial_numerical
                rn.g = rn.g * case["factor"] + 0.05
                rn.g_bhw = rn.g_bhw * case["factor"]
            second = _grab_record(ghe, boh)
            if mut in ("replace-gfunction", "compute_g_functions", "rb-table"):
                fresh = _grab_record(new_ghe(ghe.gFunction), boh)
            gf = ghe.gFunction
            gf.interpolation_table = {}
            gi, rbv, _, heq = gf.g_function_interpolation(boh)
    except Exception as e:  # noqa: BLE001
        return {"error": f"{type(e).__name__}: {e}"}
    rn = ghe.radial_numerical
    return {"first": first, "second": second, "fresh": fresh, "boh": float(boh), "rb_star": float(ghe.bhe.b.r_b),
            "B": float(gf.B), "d": float(gf.d), "log_time": [float(v) for v in gf.log_time],
            "curves": [[float(h), float(gf.r_b_values[h]), [float(v) for v in gf.g_lts[h]]] for h in gf.g_lts],
            "sts": [float(v) for v in rn.lntts.tolist()], "g_sts": [float(v) for v in rn.g.tolist()], "gb_sts": [float(v) for v in rn.g_bhw.tolist()],
            "rbv": float(rbv), "heq": float(heq), **extra}


def check_history(ctx, cases, results):
    lines, idx = [], []
    for i, r in enumerate(results):
        if "error" in r:
            continue
        lval = math.log(r["rb_star"] / r["rbv"])
        lines.append(f"gj_grab {core.rs(r['B'])} {core.rs(r['d'])} {L(r['log_time'])} {curves_wire(r['curves'])} "
                     f"{core.rs(boh_for_model(r['B'], r['boh']))} none {core.rs(r['rb_star'])} {core.rs(lval)} "
                     f"{L(r['sts'])} {L(r['g_sts'])} {L(r['gb_sts'])}")
        idx.append(i)
    out = ctx.driver(lines) if lines else []
    mout = dict(zip(idx, out)) if out is not None else {}
    for i, (c, r) in enumerate(zip(cases, results)):
        mut = c["mutation"]
        if "error" in r:
            ctx.count("history_error")
            ctx.case(("history-error", i), False, None)
            note_broken(ctx, "history-run", {"case": c, "error": r["error"]})
            continue
        sec = r["second"]
        changed = r["first"] != sec
        ctx.count(f"history_mutation:{mut}")
        ctx.count("history_second_differs_from_first:" + ("yes" if changed else "no"))
        ctx.case(("history", mut, c["H"], c["min_h"], c["max_h"], len(c["coords"]), c["first_boundary"], c["grabs_before"], c["factor"]), True,
                 {"history": ["grab(B/H)"] * c["grabs_before"] + [mut, "grab(B/H)"], "H": c["H"], "second_differs": changed} if i < 2 else None)
        rep = {"function": "GHE.grab_g_function (call history on one object)", "history_case": c,
               "history": ["build with one stored height, boundary " + c["first_boundary"]] + ["grab_g_function(B/H)"] * c["grabs_before"]
               + [mut, "grab_g_function(B/H) at the same B/H"]}
        # ---- predicate: the second curve is made of the ingredients the object holds NOW (oracle: list
        #      comprehension over the present short-time table, present stored curve at H, decimal log)
        lts = r["log_time"]
        keep = [j for j, v in enumerate(r["sts"]) if v < lts[0]]
        nk = len(keep)
        want_x = [r["sts"][j] for j in keep] + lts
        cv = next((cv for cv in r["curves"] if cv[0] == c["H"]), None)
        bad = None
        if sec["gx"] != want_x or sec["bx"] != want_x or not strictly_increasing(sec["gx"]):
            bad = "axis is not (present short-time points below the first long-time point) + (long-time points)"
        elif sec["gy"][:nk] != [r["g_sts"][j] for j in keep] or sec["by"][:nk] != [r["gb_sts"][j] for j in keep]:
            bad = "short-time part is not the short-time response the object holds now"
        elif cv is not None:
            shift = float(dec_log(r["rb_star"]) - dec_log(cv[1]))
            if not (all(close(a, v - shift) for a, v in zip(sec["gy"][nk:], cv[2])) and all(close(a, v - shift) for a, v in zip(sec["by"][nk:], cv[2]))):
                dev = max(abs(a - (v - shift)) for a, v in zip(sec["gy"][nk:], cv[2]))
                bad = (f"long-time part differs by {dev:.3g} from the radius-corrected long-time curve of the g-function object the GHE holds now"
                       + ("" if changed else " (the curve of the first call was returned unchanged)"))
        if bad:
            finding(ctx, f"history-stale-after-{mut}", bad, rep)
        # short-time part against a NEW radial model of the exchanger's current state
        if "fresh_sts" in r:
            fs = r["fresh_sts"]
            fk = [j for j, v in enumerate(fs["x"]) if v < lts[0]]
            got_x, got_y, got_b = sec["gx"][:nk], sec["gy"][:nk], sec["by"][:nk]
            if len(fk) != nk or not all(close(a, fs["x"][j], 1e-12) for a, j in zip(got_x, fk)):
                finding(ctx, f"history-stale-short-time-after-{mut}", "short-time abscissae of the combined curve are not those of the exchanger's "
                        "current short-time response (new RadialNumericalBH on the same exchanger)", rep)
            elif not (all(close(a, fs["g"][j]) for a, j in zip(got_y, fk)) and all(close(a, fs["gb"][j]) for a, j in zip(got_b, fk))):
                dev = max(abs(a - fs["g"][j]) for a, j in zip(got_y, fk))
                finding(ctx, f"history-stale-short-time-after-{mut}", f"short-time part of the combined curve differs by {dev:.3g} from the exchanger's "
                        f"current short-time response (last short-time g {got_y[-1]:.4f}, new radial model {fs['g'][fk[-1]]:.4f})", rep)
            ctx.count("history_fresh_radial_compared")
        # after a second compute_g_functions(): every stored height returns its stored curve; same as a fresh GHE in the final state
        for e in r.get("at_stored", []):
            ctx.count("history_recompute_stored_height_checked")
            if not (len(e["got"]) == len(e["stored"]) and all(close(a, b) for a, b in zip(e["got"], e["stored"]))):
                dev = max(abs(a - b) for a, b in zip(e["got"], e["stored"]))
                finding(ctx, f"history-stale-family-after-{mut}", f"after the second compute_g_functions() interpolating at the stored height {e['h']} "
                        f"is off the stored curve by {dev:.3g}", rep)
                break
        if "fresh_final" in r and r["fresh_final"] != sec:
            note_broken(ctx, "history-correspondence", {"case": c, "what": "differs from a fresh GHE brought to the final state by one compute_g_functions()"})
        if "shared" in r:
            sh = r["shared"]
            ctx.count("history_shared_gfunction:" + ("kept-separate" if sh["same_object_still"] and sh["first_has_new_object"] else "aliased"))
            if sh["before"] != sh["after"] or sh["keys_before"] != sh["keys_after"]:
                finding(ctx, "history-shared-gfunction-overwritten", "a GFunction object shared by two GHEs was overwritten when one of them called "
                        f"compute_g_functions(): stored heights {sh['keys_before']} -> {sh['keys_after']}, the other exchanger's combined curve changed", rep)
        # ---- correspondence: fresh object in the final state, and the model's join of the final ingredients
        ok = True
        if r["fresh"] is not None and r["fresh"] != sec:
            ok = False
        if i in mout:
            mo = mout[i]
            if mo.startswith("raise") or mo == "bad-arg":
                ok = False
            else:
                gx, gy, bx, by, _mrb, _mh, _ = mo.split(" ")
                gx, gy, bx, by = PL(gx), PL(gy), PL(bx), PL(by)
                ok = ok and (gx == [Fraction(v) for v in sec["gx"]] and bx == [Fraction(v) for v in sec["bx"]] and len(gy) == len(sec["gy"])
                             and all(close(a, b) for a, b in zip(sec["gy"], gy)) and all(close(a, b) for a, b in zip(sec["by"], by)))
        if not ok:
            note_broken(ctx, "history-correspondence", {"case": c, "fresh_equal": r["fresh"] is None or r["fresh"] == sec})
        if mut != "none" and not changed:
            ctx.count("history_unchanged_although_mutated")


# ----------------------------------------------------------------------------- 5. finite-line-source anchor
def large_fields(rng, thorough):
    """Fields of more than 100 boreholes (regular shapes: few distinct distances, cheap for both sides), shallow
    (g ~ 1-3 at the early Eskilson points, where a relative 1e-4 bites) and one deep."""
    def grid(nx, ny, b):
        return [(i * b, j * b) for i in range(nx) for j in range(ny)]

    def ell(a, b):
        return [(i * b, 0.0) for i in range(a)] + [(0.0, j * b) for j in range(1, a)]

    def you(a, b):
        return [(i * b, 0.0) for i in range(a)] + [(0.0, j * b) for j in range(1, a)] + [((a - 1) * b, j * b) for j in range(1, a)]

    shapes = [("grid", grid(11, 10, 5.0)), ("L", ell(56, 6.0)), ("U", you(37, 5.0)), ("grid", grid(15, 10, 7.0))]
    if thorough:
        shapes += [("grid", grid(17, 6, 4.5)), ("L", ell(75, 5.0)), ("U", you(50, 6.0)), ("grid", grid(12, 12, 6.0)), ("line", [(i * 5.0, 0.0) for i in range(101)])]
    out = []
    for k, (name, coords) in enumerate(shapes):
        H = round(rng.uniform(20.0, 40.0), 1) if k % 4 != 3 else round(rng.uniform(150.0, 350.0), 1)
        out.append({"name": name, "coords": coords, "heights": [H], "D": [2.0, 0.0, 1.0, 4.0][k % 4], "rb": rng.choice([0.055, 0.075]),
                    "alpha": rng.uniform(0.5e-6, 1.5e-6)})
    return out


DEPTHS = [0.0, 0.0, 0.1, 0.5, None, 2.0, 0.0, 1.0, None, 5.0, 0.1]   # None: uniform 1-6 m


def gen_field(rng, k, max_n):
    if k == 0:
        name, coords = "single", [(0.0, 0.0)]
    else:
        b = round(rng.uniform(3.0, 9.0), 1)
        kind = ["grid", "L", "U", "irregular", "line", "grid"][k % 6]
        if kind == "grid":
            nx = rng.randint(1, max(1, int(math.sqrt(max_n))))
            ny = rng.randint(1, max(1, max_n // nx))
            coords = [(i * b, j * b) for i in range(nx) for j in range(ny)]
        elif kind == "line":
            coords = [(i * b, 0.0) for i in range(rng.randint(2, min(max_n, 20)))]
        elif kind == "L":
            a = rng.randint(2, max(2, min(max_n // 2, 40)))
            coords = [(i * b, 0.0) for i in range(a)] + [(0.0, j * b) for j in range(1, a)]
        elif kind == "U":
            a = rng.randint(2, max(2, min(max_n // 3, 30)))
            coords = [(i * b, 0.0) for i in range(a)] + [(0.0, j * b) for j in range(1, a)] + [((a - 1) * b, j * b) for j in range(1, a)]
        else:
            n = rng.randint(2, max_n)
            coords = []
            while len(coords) < n:
                p = (round(rng.uniform(0, 6 * math.sqrt(n)), 2), round(rng.uniform(0, 6 * math.sqrt(n)), 2))
                if all(math.hypot(p[0] - q[0], p[1] - q[1]) >= 2.0 for q in coords):
                    coords.append(p)
        name = kind
        coords = coords[:max_n]
    H1 = round(math.exp(rng.uniform(math.log(20.0), math.log(400.0))), 1)
    H2 = round(H1 * rng.uniform(0.5, 0.9), 1)
    # buried depth: the boundary value 0.0 (head at the surface; borehole.schema.json allows it), small and
    # typical ones — by position, so that every tier has 0.0 on a single borehole *and* on a field
    depth = DEPTHS[k % len(DEPTHS)]
    if depth is None:
        depth = round(rng.uniform(1.0, 6.0), 2)
    return {"name": name, "coords": coords, "heights": [H1, H2] if k % 2 == 0 else [H1], "D": depth,
            "rb": rng.choice([0.055, 0.0635, 0.075, 0.1]), "alpha": rng.uniform(0.3e-6, 2e-6)}


def fls_worker(f):
    from ghedesigner.gfunction import calc_g_func_for_multiple_lengths
    from ghedesigner.utilities import eskilson_log_times

    phys = ghelib.default_physics()
    k = 2.0
    phys["soil"] = (k, k / f["alpha"], 15.0)
    phys["borehole"] = (f["heights"][0], f["D"], 2 * f["rb"])
    fluid, pipe, grout, soil, borehole, bhe_type = ghelib.media(phys, "SINGLEUTUBE")
    lt = eskilson_log_times()
    out = {}
    with ghelib.quiet(), warnings.catch_warnings():
        warnings.simplefilter("ignore")
        gU = calc_g_func_for_multiple_lengths(5.0, list(f["heights"]), f["rb"], f["D"], 0.3, bhe_type, lt, f["coords"],
                                              fluid, pipe, grout, soil, boundary="UHTR")
        out["uhtr"] = {h: [float(v) for v in gU.g_lts[h]] for h in f["heights"]}
        if len(f["coords"]) == 1:
            # default call: record what reaches pygfunction (boundary, segments, solver)
            import pygfunction as gt
            import ghedesigner.gfunction as gfm

            seen = []
            real = gt.gfunction.gFunction

            def spy(*a, **kw):
                seen.append({"boundary": kw.get("boundary_condition"), "method": kw.get("method"),
                             "nSegments": (kw.get("options") or {}).get("nSegments"),
                             "ratios": [float(v) for v in (kw.get("options") or {}).get("segment_ratios", [])],
                             "network": type(a[0]).__name__ if a else None, "n_times": len(kw.get("time", []))})
                return real(*a, **kw)

            gfm.gt.gfunction.gFunction = spy
            try:
                gM = calc_g_func_for_multiple_lengths(5.0, list(f["heights"]), f["rb"], f["D"], 0.3, bhe_type, lt, f["coords"],
                                                      fluid, pipe, grout, soil)
            finally:
                gfm.gt.gfunction.gFunction = real
            out["mift"] = {h: [float(v) for v in gM.g_lts[h]] for h in f["heights"]}
            out["mift_calls"] = seen
    return out


def detailed_worker(job):
    """The same long-time curve with pygfunction's exact pairwise solver (one segment is exact under a
    uniform heat rate) — used only to attribute a deviation to the `equivalent` solver's borehole grouping."""
    from ghedesigner.gfunction import calc_g_func_for_multiple_lengths
    from ghedesigner.utilities import eskilson_log_times

    f, h = job
    phys = ghelib.default_physics()
    phys["soil"] = (2.0, 2.0 / f["alpha"], 15.0)
    phys["borehole"] = (h, f["D"], 2 * f["rb"])
    fluid, pipe, grout, soil, borehole, bhe_type = ghelib.media(phys, "SINGLEUTUBE")
    with ghelib.quiet(), warnings.catch_warnings():
        warnings.simplefilter("ignore")
        g = calc_g_func_for_multiple_lengths(5.0, [h], f["rb"], f["D"], 0.3, bhe_type, eskilson_log_times(), f["coords"],
                                             fluid, pipe, grout, soil, boundary="UHTR", solver="detailed", n_segments=1, segments="equal")
    return [float(v) for v in g.g_lts[h]]


def check_fls(ctx, fields, results, esk):
    lines, meta = [], []
    for f in fields:
        for h in f["heights"]:
            lines.append(f"gj_fls {bits(h)} {bits(f['D'])} {bits(f['rb'])} {','.join(bits(v) for v in esk)} "
                         + ",".join(f"{bits(x)}:{bits(y)}" for x, y in f["coords"]))
            meta.append((f, h))
    out = ctx.driver(lines, timeout=1500)
    if out is None:
        return
    worst = {"multi": 0.0, "single": 0.0, "mift_rel": 0.0}
    table, suspects = [], []
    for (f, h), mo, in zip(meta, out):
        r = results[fields.index(f)]
        gF = [unbits(t) for t in mo.split(",")]
        gU = r["uhtr"][h]
        n = len(f["coords"])
        ctx.count(f"fls_field:{f['name']}")
        ctx.count("fls_size:" + ("1" if n == 1 else "2-16" if n <= 16 else "17-64" if n <= 64 else "65-150"))
        ctx.count("fls_depth:" + ("0" if f["D"] == 0 else "0-1" if f["D"] < 1 else "1-6"))
        ctx.case(("fls", f["name"], n, h, f["D"], f["rb"]), True, {"fls_field": f["name"], "n": n, "H": h, "D": f["D"], "rb": f["rb"],
                                                                      "g_last": gU[-1]} if len(ctx.samples) < 6 else None)
        dev = max(abs(a - b) for a, b in zip(gU, gF))
        rdev = max(abs(a - b) / abs(b) for a, b in zip(gU, gF))
        lim = 1e-6 if n == 1 else 1e-4
        worst["single" if n == 1 else "multi"] = max(worst["single" if n == 1 else "multi"], dev)
        table.append({"field": f["name"], "n": n, "H": h, "max_abs_dev": dev, "max_rel_dev": max(abs(a - b) / b for a, b in zip(gU, gF))})
        rep = {"function": "calc_g_func_for_multiple_lengths(boundary='UHTR')", "field": f, "H": h, "max_abs_dev": dev}
        ctx.count("fls_size_over_100" if n > 100 else "fls_size_up_to_100")
        if not (len(gU) == len(gF) and dev <= lim and rdev <= lim):   # "within 1e-4": neither absolutely nor relative to the analytical value
            rep["max_rel_dev"] = rdev
            if n == 1:
                finding(ctx, "fls-anchor-single", f"UHTR curve of a single borehole differs from the finite line source by {dev:.3g} (> 1e-06), H={h}", rep)
            else:
                suspects.append((f, h, gF, dev, rep))
        if not all(a < b for a, b in zip(gU, gU[1:])):
            finding(ctx, "fls-uhtr-not-increasing", "UHTR curve not increasing in time", rep)
        if "mift_calls" in r and h == f["heights"][0]:
            ctx.count("mift_default_calls_recorded", len(r["mift_calls"]))
            for cl in r["mift_calls"]:
                ok = (cl["boundary"] == "MIFT" and cl["method"] == "equivalent" and cl["nSegments"] == 8 and cl["network"] == "Network"
                      and cl["n_times"] == len(esk) and len(cl["ratios"]) == 8 and len(set(round(v, 12) for v in cl["ratios"])) > 1
                      and abs(sum(cl["ratios"]) - 1.0) < 1e-12 and cl["ratios"] == cl["ratios"][::-1])
                if not ok:
                    note_broken(ctx, "pygfunction-default-call-options", {"seen": cl, "expected": "MIFT network, 8 unequal symmetric segments, equivalent solver, 27 times"})
        if "mift" in r:
            rel = max(abs(a - b) / b for a, b in zip(r["mift"][h], gF))
            worst["mift_rel"] = max(worst["mift_rel"], rel)
            if rel > 0.2:
                finding(ctx, "mift-single-20pct", f"default MIFT curve of a single borehole is {rel:.1%} from the finite line source", {**rep, "rel": rel})
    # Deviations above 1e-4: exact pairwise solver as the discriminator.  If that one agrees with the finite line
    # source (1e-6) and the default curve is within 1e-3 relative, the gap is the `equivalent` solver's borehole
    # grouping (known finding, signature-checked); anything else is a violation.
    if suspects:
        det = core.pool_map(detailed_worker, [(f, h) for f, h, *_ in suspects])
        for (f, h, gF, dev, rep), gD in zip(suspects, det):
            n = len(f["coords"])
            dev_det = max(abs(a - b) for a, b in zip(gD, gF))
            rel = max(abs(a - b) / b for a, b in zip(results[fields.index(f)]["uhtr"][h], gF))
            ctx.count("fls_above_1e-4:" + f["name"])
            rep = {**rep, "max_abs_dev_detailed_solver": dev_det, "max_rel_dev": rel}
            if dev_det <= 1e-6 and rel <= 1e-3:
                finding(ctx, "fls-anchor-equivalent-solver",
                        f"UHTR curve ({n} boreholes, {f['name']}, H={h}) is {dev:.3g} from the finite-line-source superposition (> 1e-4) "
                        f"while solver='detailed' is within {dev_det:.1g}", rep)
            else:
                finding(ctx, "fls-anchor-field", f"UHTR long-time curve differs from the finite-line-source superposition by {dev:.3g} absolute, "
                        f"{rel:.3g} relative (> 0.0001; exact pairwise solver: {dev_det:.3g}), {n} boreholes ({f['name']}), H={h}, D={f['D']}", rep)
    ctx.extra["fls_table"] = sorted(table, key=lambda t: -t["max_abs_dev"])[:12]
    ctx.extra["fls_anchor"] = {"level": "translation_validation (differential run of the Lean Float evaluator, not a theorem)",
                               "max_abs_dev_fields": worst["multi"], "max_abs_dev_single": worst["single"],
                               "max_rel_dev_mift_single": worst["mift_rel"], "curves": len(meta)}


def check_erf(ctx, rng):
    xs = [0.0, 1e-8, 1e-3, 0.1, 0.5, 1.0, 2.0, 3.0, 4.5, 5.9, 6.0, 6.5, 30.0, -1.3] + [rng.uniform(0, 6.5) for _ in range(300)]
    out = ctx.driver([f"gj_erf {bits(x)}" for x in xs])
    if out is None:
        return
    dev = max(abs(unbits(o) - math.erf(x)) for x, o in zip(xs, out))
    ctx.extra["erf_max_abs_dev"] = dev
    if dev > 5e-15:
        note_broken(ctx, "fls-erf-evaluator", {"max_abs_dev": dev})


# ----------------------------------------------------------------------------- corpus / replay
def run_corpus(ctx):
    d = core.CORPUS / "C11"
    files = sorted(d.glob("*.json")) if d.exists() else []
    joins, interps, flds = [], [], []
    for p in files:
        c = json.loads(p.read_text())
        {"join": joins, "fls": flds}.get(c.get("type"), interps).append(c)
    if ctx.replay:
        rp = json.loads(Path(ctx.replay).read_text())
        rp = rp.get("replay", rp)
        if "sts" in rp:
            joins.append({"kind": rp.get("kind", "replay"), **{k: rp[k] for k in ("lts", "g_lts", "sts", "g_sts")}})
        elif "case" in rp and "curves" in rp["case"]:
            interps.append(rp["case"])
        elif "case" in rp and "heights" in rp["case"]:
            rc = rp["case"]
            rc["coords"] = [tuple(q) for q in rc["coords"]]
            check_real(ctx, [rc], [real_worker(rc)])
        elif "history_case" in rp:
            hc = rp["history_case"]
            check_history(ctx, [hc], [history_worker(hc)])
        elif "field" in rp:
            flds.append({**rp["field"], "heights": [rp["H"]] if "H" in rp else rp["field"]["heights"]})
    ctx.count("corpus_cases", len(joins) + len(interps) + len(flds))
    if joins:
        check_join(ctx, joins)
    if interps:
        check_interp(ctx, interps)
    return [{k: (tuple(map(tuple, v)) if k == "coords" else v) for k, v in f.items() if k != "type"} for f in flds]


# ----------------------------------------------------------------------------- run
def run(ctx: core.Ctx):
    from ghedesigner.utilities import eskilson_log_times

    quick = ctx.tier == "quick"
    rng = ctx.rng
    esk = [float(v) for v in eskilson_log_times()]
    ctx.rule = ("join: random strictly increasing / degenerate lists with the short-time end below, above, around and one ulp from the first "
                "long-time point (distinct = generator kind x branch x lengths x end points); interpolation: synthetic GFunction objects with "
                "0..6 curves, all kinds, 1-3 successive calls, at / near / between / outside stored heights (distinct = curves x kind x position x "
                "call number x outcome x target); real GHE objects H 20-400 m, alpha 0.3-2e-6 (distinct = H, alpha, heights, branch, pipe); "
                "call histories on one GHE: grab, change one ingredient (g-function object replaced, compute_g_functions(), r_b table, borehole radius, "
                "short-time response, or nothing), grab again at the same B/H; simulate, in-place change of the live single-U exchanger (radius, grout, "
                "pipe, soil k at fixed alpha), simulate, compare the short-time part with a new radial model; compute_g_functions twice with a narrowed "
                "window / other depth in between; one GFunction shared by two GHEs; library radii within 1 mm / 1e-4 / 1e-6 m of the borehole radius; FLS anchor: distinct fields x heights incl. four fields of > 100 boreholes "
                "(nine in thorough), threshold 1e-4 absolute and relative. Non-trivial = every case with at least one curve / non-degenerate build")
    ctx.trusted_base += [
        "translator translate/gen_gjoin.py (comparison operators of combine_sts_lts, tolerance, close_tolerance, kind ladder, required-curves table; "
        "literal statements of the transcribed functions compared with their expected text)",
        "hand-written model Model/GJoin.lean, tied to the code by differential runs on the same inputs (exact rationals)",
        "scipy.interpolate.interp1d / lagrange, numpy argsort (modelled: sorted table, piecewise-linear, not-a-knot spline as a collocation system over Rat)",
        "math.log (its value is handed to the model; checked against decimal ln to 1e-12)",
        "CPython float rounding within 1e-9 relative (1e-6 for scipy.lagrange's poly1d in coefficient form)",
        "FLS anchor: Lean Float evaluator (own erf series, 12-point Gauss-Legendre in ln s) and pygfunction — a differential test, level translation_validation",
    ]
    ctx.extra["fls_depths"] = "buried depth by field position from [0, 0, 0.1, 0.5, U(1,6), 2, 0, 1, U(1,6), 5, 0.1] m; the FLS evaluator gets the same depth"
    ctx.assumptions += [
        "r_b_values and g_lts have the same keys in the same order (true for every object built by calc_g_func_for_multiple_lengths)",
        "the model receives 1/b_over_h*B as the double the implementation computes (the harness evaluates that one expression in floats); "
        "all branch decisions on h_eq are then exact",
        "a short-time abscissa bit-equal to the first long-time abscissa is a recorded boundary (theorems join_equal_last / join_equal_inner), not a violation",
        "theorems cover 1-3 curves, the 4-node cubic, linear and Lagrange with any number; 4-5 curves under kind=default are scipy splines: correspondence only",
    ]
    ctx.lean_prepare()
    corpus_fields = run_corpus(ctx)

    # 1. join
    n_join = 3000 if quick else 40000
    check_join(ctx, [gen_join_case(rng, esk) for _ in range(n_join)])

    # 2. interpolation over height
    n_int = 2500 if quick else 30000
    cases = [gen_interp_case(rng, esk) for _ in range(n_int)]
    for s in range(0, len(cases), 5000):
        check_interp(ctx, cases[s:s + 5000])

    # 3. radius correction
    check_radius(ctx, rng, 400 if quick else 5000)

    # 4. real exchangers
    n_real = 24 if quick else 240
    rcases = [gen_real_case(rng, k) for k in range(n_real)]
    rres = core.pool_map(real_worker, rcases)
    check_real(ctx, rcases, rres)

    # 4b. call histories on one object
    n_hist = len(HISTORY_MUTATIONS) if quick else 6 * len(HISTORY_MUTATIONS)
    hcases = [gen_history_case(rng, k) for k in range(n_hist)]
    check_history(ctx, hcases, core.pool_map(history_worker, hcases))

    # 5. finite-line-source anchor
    check_erf(ctx, rng)
    if quick:
        fields = [gen_field(rng, k, 16) for k in range(6)]
    else:
        fields = [gen_field(rng, k, 16) for k in range(20)] + [gen_field(rng, k, 64) for k in range(1, 25)] + \
                 [gen_field(rng, k, 150) for k in range(1, 17)]
    fields = [{**f, "coords": [tuple(p) for p in f["coords"]]} for f in corpus_fields] + fields + large_fields(rng, not quick)
    fres = core.pool_map(fls_worker, fields)
    check_fls(ctx, fields, fres, esk)

    ctx.programs = 5
    ctx.exhaustive = False
    if not quick:
        ctx.leanchecker(["GHEVerif.Props.C11", "GHEVerif.Lemmas.GJoin", "GHEVerif.Model.GJoin"])
