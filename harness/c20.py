"""C20 — Per-borehole and system flow specifications are equivalent.

Proof: lean/GHEVerif/Props/C20.lean about definitions regenerated from the source on every run
(both `retrieve_flow` copies, the flow slice of `BaseGHE.__init__`, the call wiring of
`initialize_ghe`): BOREHOLE v and SYSTEM N·v leave the identical flow state for every N ≥ 1, every
v, ρ and either copy; ṁ = (per-borehole L/s)/1000·ρ at every place the code keeps it; ṁ·N constant
and strictly decreasing along any candidate list under a system flow; the two copies are equal; error
branches.  Tie to the code: regeneration + the model run against the real `retrieve_flow`,
`BaseGHE.__init__`, `Bisection1D.__init__` and every search class's `initialize_ghe` /
`calculate_excess` on real objects (fields of 0..400+ boreholes, all fluids, four pipe types), with
an independent `fractions.Fraction` oracle, R_b* and simulated temperatures compared under the two
specifications, and whole `GHEManager.find_design` runs observed GHE by GHE.
"""
from __future__ import annotations

import functools
import json
import math
import os
import time
import traceback
from fractions import Fraction

import core
import ghelib

PROPERTY = "C20"
LEVEL = "proof"
MANIFEST = {
    "text": "C20 — flow specifications: Lean theorems (all N ≥ 1, all rational v, ρ, both retrieve_flow copies and the "
            "BaseGHE.__init__ slice, regenerated from source) + correspondence on real search objects + Fraction oracle",
    "design_ref": "DESIGN.md C20",
    "technique": "Lean 4 theorems about definitions translated from the source on every run, composed by a hand model of "
                 "initialize_ghe that is run against the real classes; equivalence of R_b* and simulated temperatures measured",
}

REL15 = 1e-15   # (v·N)/N may differ from v in the last bit; 2–4 float roundings on each side
REL9 = 1e-9
FLUIDS = ["Water", "PropyleneGlycol", "EthyleneGlycol", "MethylAlcohol", "EthylAlcohol"]
SEARCH_CLASSES = ["Bisection1D", "Bisection2D", "BisectionZD", "RowWiseModifiedBisectionSearch"]
COPY_OF = {"Bisection1D": "1d", "Bisection2D": "1d", "BisectionZD": "1d", "RowWiseModifiedBisectionSearch": "rw"}
BAD_FLOW_TYPES = ["none", "str-system", "str-borehole", "int-1", "int-2", "other-enum"]
ERR_NAMES = {"ValueError", "ZeroDivisionError", "IndexError", "TypeError", "KeyError"}


def close(a, b, rel, floor=0.0):
    return abs(a - b) <= rel * max(abs(a), abs(b), floor)


def bad_flow_type(tag):
    from ghedesigner.enums import TimestepType
    return {"none": None, "str-system": "SYSTEM", "str-borehole": "BOREHOLE", "int-1": 1, "int-2": 2,
            "other-enum": TimestepType.HYBRID}[tag]


def flow_type_obj(ft):
    from ghedesigner.enums import FlowConfigType
    if ft == "B":
        return FlowConfigType.BOREHOLE
    if ft == "S":
        return FlowConfigType.SYSTEM
    return bad_flow_type(ft[2:])  # "X:<tag>"


def ft_code(ft):
    return ft if ft in ("B", "S") else "X"


# --------------------------------------------------------------------------------------- oracle (shares no code)
def oracle(ft, v, n, rho):
    """Exact expected flow state for the given doubles, or the name of the exception."""
    if ft_code(ft) == "X":
        return "ValueError"
    if n == 0:
        return "ZeroDivisionError" if ft == "S" else "IndexError"
    v, rho = Fraction(v), Fraction(rho)
    vb = v if ft == "B" else v / n
    return {"vsys": v * n if ft == "B" else v, "vb": vb, "m": vb * rho / 1000}


# --------------------------------------------------------------------------------------- fields
@functools.lru_cache(maxsize=64)
def _domain(kind, *p):
    from ghedesigner import domains
    with ghelib.quiet():
        if kind == "nearsquare":
            return domains.square_and_near_square(1, int(p[1]), p[0])
        if kind == "rectangular":
            return domains.rectangular(*p)
        if kind == "birect":
            return domains.bi_rectangle_nested(*p)
        if kind == "zoned":
            return domains.bi_rectangle_zoned_nested(*p)
    raise ValueError(kind)


def make_field(spec):
    """spec (a JSON list) -> (coordinates, descriptor)."""
    kind = spec[0]
    if kind == "empty":
        return [], "empty"
    if kind == "grid":
        _, nx, b, n = spec
        return [(b * (i % nx), b * (i // nx)) for i in range(n)], f"grid{n}"
    if kind in ("nearsquare", "rectangular"):
        cd, fd = _domain(kind, *spec[1:-1])
        return cd[spec[-1]], fd[spec[-1]]
    cdn, fdn = _domain(kind, *spec[1:-2])
    return cdn[spec[-2]][spec[-1]], fdn[spec[-2]][spec[-1]]


def synthetic_g(n, log_time):
    """A smooth, increasing stand-in for a long-time g-function of an n-borehole field."""
    return [max(0.1, 6.0 + 0.9 * x + 3.0 * math.log(max(n, 1)) / (1.0 + math.exp(-0.5 * x))) for x in log_time]


# --------------------------------------------------------------------------------------- real objects
def ref_rho(phys):
    """Density of the fluid the USER specified (name, percent, temperature), from pygfunction's own Fluid with pygfunction's
    documented mixture codes (ghelib.independent_fluid) - not from the package's GHEFluid object."""
    return float(ghelib.independent_fluid(phys).rho)


def fluid_label(phys):
    return f"{phys['fluid'][0]} {phys['fluid'][1]:g}% at {phys.get('fluid_temp', 20.0):g}C"


def _phys(case):
    p = dict(case["phys"])
    p["fluid"] = tuple(p["fluid"])
    p["grout"], p["soil"], p["borehole"] = tuple(p["grout"]), tuple(p["soil"]), tuple(p["borehole"])
    return p


def run_spec(case, ft, v):
    """One real search object of class case['cls'] under flow specification (ft, v) on the case's field:
    constructor path, then calculate_excess (= initialize_ghe + simulate).  Returns plain data."""
    import ghedesigner.search_routines as sr
    from ghedesigner.enums import TimestepType
    from ghedesigner.gfunction import GFunction
    from ghedesigner.simulation import SimulationParameters

    coords, desc = make_field(case["field"])
    coords = list(coords)
    n = len(coords)
    phys = _phys(case)
    fluid, pipe, grout, soil, borehole, bhe_type = ghelib.media(phys, case["pipe"])
    sim = SimulationParameters(1, case["months"], 35.0, 5.0, 135.0, 60.0)
    scale = case["load_scale"] * max(n, 1) / 100.0
    loads = [x * scale for x in ghelib.atlanta_loads()]
    cls = getattr(sr, case["cls"])
    rec = []
    real_g = sr.calc_g_func_for_multiple_lengths

    def recorder(b, h_values, r_b, depth, m_flow_borehole, bhe_t, log_time, coordinates, fl, *a, **k):
        rec.append({"m": float(m_flow_borehole), "n": len(coordinates), "same_fluid": fl is fluid, "same_coords": coordinates == coords})
        if case["g"] == "real":
            return real_g(b, h_values, r_b, depth, m_flow_borehole, bhe_t, log_time, coordinates, fl, *a, **k)
        return GFunction(b, depth, {h: r_b for h in h_values}, {h: synthetic_g(len(coordinates), log_time) for h in h_values},
                         log_time, coordinates)

    def state(obj, r):
        g = obj.ghe
        return {"vsys": float(g.V_flow_system), "mg": r["m"], "vb": float(g.V_flow_borehole), "mghe": float(g.m_flow_borehole),
                "mbhe": float(g.bhe.m_flow_borehole), "nbh": int(g.nbh), "g_n": r["n"], "bore_n": len(g.gFunction.bore_locations),
                "same_fluid": bool(r["same_fluid"] and g.bhe.fluid is fluid), "same_coords": bool(r["same_coords"])}

    out = {"ft": ft, "v": v, "n": n, "rho": float(fluid.rho), "cp": float(fluid.cp), "rho_ref": ref_rho(phys)}
    sr.calc_g_func_for_multiple_lengths = recorder
    try:
        with ghelib.quiet():
            fto = flow_type_obj(ft)
            # ---- constructor path
            try:
                if case["cls"] == "RowWiseModifiedBisectionSearch":
                    obj = cls(v, borehole, bhe_type, fluid, pipe, grout, soil, sim, loads, None, TimestepType.HYBRID, fto, search=False)
                    out["ctor"] = {"none": True}
                else:
                    # what Bisection1D / Bisection2D / BisectionZD constructors do first (search=False)
                    obj = cls.__new__(cls)
                    sr.Bisection1D.__init__(obj, [coords], [desc], v, borehole, bhe_type, fluid, pipe, grout, soil, sim, loads,
                                            TimestepType.HYBRID, fto, search=False, field_type="c20")
                    out["ctor"] = state(obj, rec[-1])
            except Exception as e:  # noqa: BLE001
                out["ctor"] = {"raise": type(e).__name__, "after_g": len(rec) > 0}
                if case["cls"] != "RowWiseModifiedBisectionSearch":
                    # initialize_ghe of the 1D family needs an existing self.ghe; nothing more to observe
                    out["init"] = {"raise": type(e).__name__, "via": "ctor", "after_g": len(rec) > 0}
                    return out
            # ---- calculate_excess = initialize_ghe + simulate + cost
            try:
                k0 = len(rec)
                t_excess = obj.calculate_excess(coords, case["h"], desc)
                st = state(obj, rec[k0])
                st["calls"] = len(rec) - k0
                st["H"] = float(obj.ghe.bhe.b.H)
                st["rb"] = float(obj.ghe.bhe.calc_effective_borehole_resistance())
                tr = obj.searchTracker[-1]
                st["t_excess"], st["max_eft"], st["min_eft"] = float(t_excess), float(tr[2]), float(tr[3])
                out["init"] = st
            except Exception as e:  # noqa: BLE001
                # after_g: the g-function calculation had already been reached, i.e. retrieve_flow and borehole_spacing
                # had returned; for N >= 1 nothing in the flow path can raise after that point (only V_sys / nbh is left)
                out["init"] = {"raise": type(e).__name__, "after_g": len(rec) > k0, "tb": traceback.format_exc(limit=2)[-300:]}
    finally:
        sr.calc_g_func_for_multiple_lengths = real_g
    return out


def pipeline_worker(case):
    import warnings
    warnings.simplefilter("ignore")
    try:
        t = time.time()
        res = [run_spec(case, ft, v) for ft, v in case["specs"]]
        return {"id": case["id"], "res": res, "s": round(time.time() - t, 2)}
    except Exception:  # noqa: BLE001
        return {"id": case["id"], "infra": traceback.format_exc()[-1500:]}


def base_ghe_worker(case):
    """Direct call of BaseGHE.__init__ / GHE.__init__ with a synthetic g-function table of n locations."""
    import warnings
    warnings.simplefilter("ignore")
    try:
        from ghedesigner.gfunction import GFunction
        from ghedesigner.ground_heat_exchangers import GHE, BaseGHE
        from ghedesigner.simulation import SimulationParameters
        from ghedesigner.utilities import eskilson_log_times

        phys = _phys(case)
        fluid, pipe, grout, soil, borehole, bhe_type = ghelib.media(phys, case["pipe"])
        n = case["n"]
        coords = [(5.0 * (i % 20), 5.0 * (i // 20)) for i in range(n)]
        lt = eskilson_log_times()
        gf = GFunction(5.0, borehole.D, {borehole.H: borehole.r_b}, {borehole.H: synthetic_g(n, lt)}, lt, coords)
        sim = SimulationParameters(1, 12, 35.0, 5.0, 135.0, 60.0)
        klass = GHE if case["klass"] == "GHE" else BaseGHE
        out = {"id": case["id"], "rho": float(fluid.rho), "rho_ref": ref_rho(phys)}
        try:
            with ghelib.quiet():
                g = klass(case["vsys"], 5.0, bhe_type, fluid, borehole, pipe, grout, soil, gf, sim, ghelib.atlanta_loads())
            out.update(vb=float(g.V_flow_borehole), mghe=float(g.m_flow_borehole), mbhe=float(g.bhe.m_flow_borehole), nbh=int(g.nbh),
                       vsys=float(g.V_flow_system))
        except Exception as e:  # noqa: BLE001
            out["raise"] = type(e).__name__
        return out
    except Exception:  # noqa: BLE001
        return {"id": case["id"], "infra": traceback.format_exc()[-1500:]}


GEOMS = {
    "NEARSQUARE": ("NEARSQUARE", 5.0, 70.0),
    "RECTANGLE": ("RECTANGLE", 70.0, 50.0, 3.0, 10.0),
    "BIRECTANGLE": ("BIRECTANGLE", 70.0, 50.0, 3.0, 9.0, 9.0),
    "BIZONEDRECTANGLE": ("BIZONEDRECTANGLE", 70.0, 50.0, 3.0, 9.0, 9.0),
    "BIRECTANGLECONSTRAINED": ("BIRECTANGLECONSTRAINED", 4.0, 9.0, 9.0, [[0.0, 0.0], [70.0, 0.0], [70.0, 55.0], [0.0, 55.0]],
                               [[[20.0, 20.0], [30.0, 20.0], [30.0, 30.0], [20.0, 30.0]]]),
    "ROWWISE": ("ROWWISE", 0.8, 9.0, 4.0, 1.0, 0.0, -math.pi / 2, math.pi / 4, [[0.0, 0.0], [70.0, 0.0], [70.0, 55.0], [0.0, 55.0]],
                [[[20.0, 20.0], [30.0, 20.0], [30.0, 30.0], [20.0, 30.0]]]),
}
SEARCH_OF_GEOM = {"NEARSQUARE": "Bisection1D", "RECTANGLE": "Bisection1D", "BIRECTANGLE": "Bisection2D",
                  "BIZONEDRECTANGLE": "BisectionZD", "BIRECTANGLECONSTRAINED": "BisectionZD", "ROWWISE": "RowWiseModifiedBisectionSearch"}


def design_worker(case):
    """A whole GHEManager run; every GHE built during the search is observed; the returned design is then rebuilt
    under the *other* specification on the same field and both are simulated at the same height."""
    import warnings
    warnings.simplefilter("ignore")
    try:
        import ghedesigner.search_routines as sr
        from ghedesigner.enums import TimestepType
        from ghedesigner.ground_heat_exchangers import BaseGHE
        from ghedesigner.output import OutputManager

        phys = _phys(case)
        loads = [x * case["load_scale"] for x in ghelib.atlanta_loads()]
        cfg = dict(phys=dict(phys, flow=case["v"]), pipe=case["pipe"], loads=loads, months=case["months"], max_eft=35.0, min_eft=5.0,
                   max_h=135.0, min_h=60.0, geom=GEOMS[case["geom"]], flow=case["v"], flow_type={"B": "BOREHOLE", "S": "SYSTEM"}[case["ft"]])
        cfg["phys"]["flow"] = case["v"]
        rec = []
        orig = BaseGHE.__init__

        def wrapped(self, *a, **k):
            orig(self, *a, **k)
            rec.append((int(self.nbh), float(self.V_flow_system), float(self.bhe.m_flow_borehole), float(self.m_flow_borehole)))

        import ghedesigner.ground_heat_exchangers as ghx
        gcalls = []
        real_g = ghx.calc_g_func_for_multiple_lengths

        def g_recorder(b, h_values, r_b, depth, m_flow_borehole, bhe_t, log_time, coordinates, *a, **k):
            gcalls.append((len(coordinates), float(m_flow_borehole), len(h_values)))
            return real_g(b, h_values, r_b, depth, m_flow_borehole, bhe_t, log_time, coordinates, *a, **k)

        out = {"id": case["id"]}
        t = time.time()
        BaseGHE.__init__ = wrapped
        ghx.calc_g_func_for_multiple_lengths = g_recorder   # compute_g_functions (sizing g-functions)
        sr.calc_g_func_for_multiple_lengths = g_recorder    # constructors / initialize_ghe
        try:
            with ghelib.quiet():
                m = ghelib.build_manager(cfg)
                try:
                    m.find_design()
                except ValueError as e:
                    out["search_failed"] = str(e)[:80]
                    out["ghes"] = rec
                    out["gcalls"] = gcalls
                    out["rho"] = float(m._fluid.rho)
                    out["rho_ref"] = ref_rho(phys)
                    return out
        finally:
            BaseGHE.__init__ = orig
            ghx.calc_g_func_for_multiple_lengths = real_g
            sr.calc_g_func_for_multiple_lengths = real_g
        out["gcalls"] = list(gcalls)
        s = m._search
        ghe = s.ghe
        out.update(ghes=rec, rho=float(ghe.bhe.fluid.rho), rho_ref=ref_rho(phys), search=type(s).__name__, n=int(ghe.nbh), H=float(ghe.bhe.b.H),
                   vsys=float(ghe.V_flow_system), mbhe=float(ghe.bhe.m_flow_borehole), find_s=round(time.time() - t, 1))
        with ghelib.quiet():
            om = OutputManager.__new__(OutputManager)
            d = om.get_summary_object(s, 0.0, "p", "n", "a", "m", TimestepType.HYBRID)
            out["summary_m"] = float(d["ghe_system"]["fluid_mass_flow_rate_per_borehole"]["value"])
            out["summary_rho"] = float(d["ghe_system"]["fluid_density"]["value"])
            out["summary_rb"] = float(d["ghe_system"]["effective_borehole_resistance"]["value"])
            out["n_summary"] = int(d["ghe_system"]["number_of_boreholes"]) if "number_of_boreholes" in d["ghe_system"] else None
            mx, mn = ghe.simulate(TimestepType.HYBRID)
        out.update(max_eft=float(mx), min_eft=float(mn), rb=float(ghe.bhe.calc_effective_borehole_resistance()))
        # the other specification on the same field, through the same class's initialize_ghe, same pipeline
        coords = list(ghe.gFunction.bore_locations)
        n = len(coords)
        ft2, v2 = ("S", case["v"] * n) if case["ft"] == "B" else ("B", case["v"] / n)
        fluid, pipe, grout, soil, borehole, bhe_type = ghelib.media(cfg["phys"], case["pipe"])
        sim = m._simulation_parameters
        cls = getattr(sr, type(s).__name__)
        with ghelib.quiet():
            if cls is sr.RowWiseModifiedBisectionSearch:
                o2 = cls(v2, borehole, bhe_type, fluid, pipe, grout, soil, sim, loads, None, TimestepType.HYBRID, flow_type_obj(ft2), search=False)
            else:
                o2 = cls.__new__(cls)
                sr.Bisection1D.__init__(o2, [coords[:1]], ["x"], v2, borehole, bhe_type, fluid, pipe, grout, soil, sim, loads,
                                        TimestepType.HYBRID, flow_type_obj(ft2), search=False, field_type="c20")
            o2.initialize_ghe(coords, sim.max_height, "other-spec")
            o2.ghe.compute_g_functions()
            o2.ghe.bhe.b.H = out["H"]
            mx2, mn2 = o2.ghe.simulate(TimestepType.HYBRID)
        out["other"] = {"ft": ft2, "v": v2, "mbhe": float(o2.ghe.bhe.m_flow_borehole), "rb": float(o2.ghe.bhe.calc_effective_borehole_resistance()),
                        "max_eft": float(mx2), "min_eft": float(mn2), "vsys": float(o2.ghe.V_flow_system)}
        out["s"] = round(time.time() - t, 1)
        return out
    except Exception:  # noqa: BLE001
        return {"id": case["id"], "infra": traceback.format_exc()[-1500:]}


# --------------------------------------------------------------------------------------- call histories on one manager
_LOT = [[0.0, 0.0], [25.0, 0.0], [25.0, 20.0], [0.0, 20.0]]
_NOGO = [[[10.0, 8.0], [14.0, 8.0], [14.0, 12.0], [10.0, 12.0]]]
HIST_GEOMS = {   # small lots: a find_design costs 3-18 s with 12 months of small loads
    "NEARSQUARE": ("NEARSQUARE", 5.0, 20.0),
    "RECTANGLE": ("RECTANGLE", 20.0, 15.0, 3.0, 7.0),
    "BIRECTANGLE": ("BIRECTANGLE", 20.0, 15.0, 3.0, 7.0, 7.0),
    "BIZONEDRECTANGLE": ("BIZONEDRECTANGLE", 25.0, 20.0, 3.0, 7.0, 7.0),
    "BIRECTANGLECONSTRAINED": ("BIRECTANGLECONSTRAINED", 3.0, 7.0, 7.0, _LOT, _NOGO),
    "ROWWISE": ("ROWWISE", 0.8, 7.0, 3.0, 1.0, 0.0, -math.pi / 2, math.pi / 4, _LOT, _NOGO),
}
GEOM_INDEX = {g: i for i, g in enumerate(HIST_GEOMS)}
DESIGN_CLASS = {"NEARSQUARE": "DesignNearSquare", "RECTANGLE": "DesignRectangle", "BIRECTANGLE": "DesignBiRectangle",
                "BIZONEDRECTANGLE": "DesignBiZoned", "BIRECTANGLECONSTRAINED": "DesignBiRectangleConstrained", "ROWWISE": "DesignRowWise"}
FT_STR = {"B": ["borehole", "BOREHOLE", "Borehole"], "S": ["system", "SYSTEM", "System"], "X": ["", "bogus", "SYSTEMS", " system", "per-borehole"]}


def bare_manager(case):
    """A GHEManager with everything set except geometry constraints and design."""
    from ghedesigner.manager import GHEManager
    phys = _phys(case)
    m = GHEManager()
    if "fluid_temp" in phys:
        m.set_fluid(phys["fluid"][0], phys["fluid"][1], phys["fluid_temp"])
    else:
        m.set_fluid(phys["fluid"][0], phys["fluid"][1])
    m.set_grout(*phys["grout"])
    m.set_soil(*phys["soil"])
    h, d, dia = phys["borehole"]
    ghelib.set_pipe(m, case["pipe"], phys, dia)
    m.set_borehole(h, d, dia)
    m.set_simulation_parameters(case["months"], 35.0, 5.0, 135.0, 60.0, None, True)
    m.set_ground_loads_from_hourly_list([x * case["load_scale"] for x in ghelib.atlanta_loads()])
    return m


def call_set_design(m, v, ftstr, throw):
    try:
        return str(m.set_design(v, ftstr, throw=throw))
    except Exception as e:  # noqa: BLE001
        return type(e).__name__ if type(e).__name__ in ERR_NAMES else "Exception"


def design_state(m):
    d = m._design
    if d is None:
        return None
    return {"v": float(d.V_flow), "ft": getattr(d.flow_type, "name", str(d.flow_type)), "cls": type(d).__name__,
            "to_input": {k: (float(x) if isinstance(x, (int, float)) else str(x)) for k, x in d.to_input().items()},
            "same_constraints": d.geometric_constraints is m._geometric_constraints}


def history_worker(case):
    """One manager, several set_design calls (case['calls'] = [[v | None, 'B'|'S'|'X', string, throw], ...]; v None = N·v0 of the
    first design), find_design after the first call when case['find_between'], find_design at the end; the same last
    specification on a fresh manager; optionally both search objects evaluated on the first design's field."""
    import warnings
    warnings.simplefilter("ignore")
    try:
        import ghedesigner.ground_heat_exchangers as ghx
        import ghedesigner.search_routines as sr
        from ghedesigner.enums import TimestepType
        from ghedesigner.ground_heat_exchangers import BaseGHE

        rec, gcalls = [], []
        orig = BaseGHE.__init__
        real_g = ghx.calc_g_func_for_multiple_lengths

        def wrapped(self, *a, **k):
            orig(self, *a, **k)
            rec.append((int(self.nbh), float(self.V_flow_system), float(self.bhe.m_flow_borehole), float(self.m_flow_borehole)))

        def g_recorder(b, h_values, r_b, depth, m_flow_borehole, bhe_t, log_time, coordinates, *a, **k):
            gcalls.append((len(coordinates), float(m_flow_borehole), len(h_values)))
            return real_g(b, h_values, r_b, depth, m_flow_borehole, bhe_t, log_time, coordinates, *a, **k)

        def find(m):
            del rec[:], gcalls[:]
            try:
                m.find_design()
            except Exception as e:  # noqa: BLE001
                return {"raise": type(e).__name__, "msg": str(e)[:80], "ghes": list(rec), "gcalls": list(gcalls), "rho": float(m._fluid.rho),
                        "rho_ref": ref_rho(_phys(case))}
            s, ghe = m._search, m._search.ghe
            o = {"ghes": list(rec), "gcalls": list(gcalls), "rho": float(ghe.bhe.fluid.rho), "rho_ref": ref_rho(_phys(case)), "search": type(s).__name__,
                 "search_v": float(s.V_flow), "search_ft": getattr(s.flow_type, "name", str(s.flow_type)),
                 "n": int(ghe.nbh), "H": float(ghe.bhe.b.H), "coords": [[float(x), float(y)] for x, y in ghe.gFunction.bore_locations],
                 "vsys": float(ghe.V_flow_system), "mbhe": float(ghe.bhe.m_flow_borehole), "rb": float(ghe.bhe.calc_effective_borehole_resistance())}
            m.prepare_results("p", "n", "a", "i")
            d = m.results.output_dict["ghe_system"]
            o["summary_m"] = float(d["fluid_mass_flow_rate_per_borehole"]["value"])
            o["summary_rho"] = float(d["fluid_density"]["value"])
            o["summary_n"] = int(d["number_of_boreholes"])
            o["summary_rb"] = float(d["effective_borehole_resistance"]["value"])
            mx, mn = ghe.simulate(TimestepType.HYBRID)
            o["max_eft"], o["min_eft"] = float(mx), float(mn)
            return o

        def excess_on(s, coords, h):
            s.calculate_excess(coords, h, "c20-history")
            tr = s.searchTracker[-1]
            return {"mbhe": float(s.ghe.bhe.m_flow_borehole), "vsys": float(s.ghe.V_flow_system), "rb": float(s.ghe.bhe.calc_effective_borehole_resistance()),
                    "max_eft": float(tr[2]), "min_eft": float(tr[3]), "nbh": int(s.ghe.nbh)}

        out = {"id": case["id"], "results": [], "calls": []}
        t = time.time()
        BaseGHE.__init__ = wrapped
        ghx.calc_g_func_for_multiple_lengths = g_recorder
        sr.calc_g_func_for_multiple_lengths = g_recorder
        try:
            import contextlib
            import io
            with ghelib.quiet(), contextlib.redirect_stderr(io.StringIO()):
                m = bare_manager(case)
                ghelib.set_geometry(m, HIST_GEOMS[case["geom"]])
                first, s1, v0 = None, None, None
                for i, (v, ft, ftstr, throw) in enumerate(case["calls"]):
                    if v is None:   # the equivalence form: N·v0 for the field the first design returned
                        v = first["n"] * v0 if first and "n" in first else 1.0
                    out["calls"].append([v, ft, ftstr, throw])
                    out["results"].append(call_set_design(m, v, ftstr, throw))
                    if i == 0:
                        v0 = v
                        out["design_after_first"] = design_state(m)
                        if case["find_between"]:
                            first = find(m)
                            s1 = m._search
                out["design"] = design_state(m)
                out["first"] = first
                last = find(m)
                s2 = m._search
                out["last"] = last
                valid = [c for c in out["calls"] if c[1] in ("B", "S")]
                lv, lft = valid[-1][0], valid[-1][1]
                out["last_spec"] = [lv, lft]
                fm = bare_manager(case)
                ghelib.set_geometry(fm, HIST_GEOMS[case["geom"]])
                fm.set_design(lv, FT_STR[lft][0])
                out["fresh_design"] = design_state(fm)
                out["fresh"] = find(fm)
                if case.get("equiv") and first and "raise" not in first and "raise" not in last:
                    coords = [tuple(c) for c in first["coords"]]
                    out["equiv"] = {"n": len(coords), "h": 135.0, "first": excess_on(s1, coords, 135.0), "last": excess_on(s2, coords, 135.0)}
        finally:
            BaseGHE.__init__ = orig
            ghx.calc_g_func_for_multiple_lengths = real_g
            sr.calc_g_func_for_multiple_lengths = real_g
        out["s"] = round(time.time() - t, 1)
        return out
    except Exception:  # noqa: BLE001
        return {"id": case["id"], "infra": traceback.format_exc()[-1500:]}


def any_worker(job):
    kind, case = job
    return {"pipeline": pipeline_worker, "base": base_ghe_worker, "design": design_worker, "history": history_worker}[kind](case)


# --------------------------------------------------------------------------------------- generators
def rand_flow(rng):
    k = rng.random()
    if k < 0.55:
        return round(rng.uniform(0.05, 1.5), rng.choice([1, 2, 3, 6]))
    if k < 0.8:
        return 10 ** rng.uniform(-4, 3)
    if k < 0.9:
        return rng.choice([0.1, 0.2, 0.3, 0.7, 1.1, 31.2 / 156, 0.5, 1.0 / 3.0])
    return rng.uniform(0.01, 3.0)


def phys_flow(rng):
    """Per-borehole flow (L/s) inside the range where the thermal models (pygfunction multipole, convection correlations,
    equivalent single U-tube) are defined; the flow bookkeeping itself is exercised on 1e-4..1e3 at retrieve_flow level."""
    k = rng.random()
    if k < 0.5:
        return round(rng.uniform(0.1, 1.2), rng.choice([1, 2, 3]))
    if k < 0.7:
        return rng.choice([0.1, 0.2, 0.3, 0.7, 1.1, 31.2 / 156, 0.5, 1.0 / 3.0])
    return rng.uniform(0.1, 2.0)


def plant_flow(rng):
    """A large plant: 100-1000 L/s (as a system flow on the 1-3 borehole candidates, or per borehole 100-400 L/s)."""
    return rng.choice([320.0, round(rng.uniform(100.0, 1000.0), 1), float(rng.randrange(100, 1000, 50))])


def rand_phys(rng):
    p = ghelib.random_physics(rng)
    name = rng.choice(FLUIDS)
    p["fluid"] = (name, 0.0 if name == "Water" else float(rng.choice([5, 10, 15, 20, 25, 30, 40, 50, 60])))
    if rng.random() < 0.4:
        p["fluid_temp"] = float(rng.choice([5, 10, 15, 25, 30, 35]))
    return p


def alcohol_physics(rng):
    """Default physics with one of the four mixtures at a non-zero concentration (and sometimes another design temperature)."""
    p = ghelib.default_physics()
    p["fluid"] = (rng.choice(FLUIDS[1:]), float(rng.choice([10, 20, 30, 40])))
    if rng.random() < 0.5:
        p["fluid_temp"] = float(rng.choice([10, 30]))
    return p


def rand_field(rng, tier, want=None):
    """A field spec; `want` = requested number of boreholes (grid) or None for a member of a real candidate list."""
    if want is not None:
        nx = 1 if want == 1 else rng.choice([1, 2, 3, 7]) if want < 30 else rng.choice([10, 20])
        return ["grid", nx, rng.choice([3.0, 5.0, 7.5]), want]
    k = rng.random()
    if k < 0.4:
        return ["nearsquare", rng.choice([4.0, 5.0, 6.5]), 21, rng.randrange(0, 39)]
    if k < 0.6:
        cd, _ = _domain("rectangular", 80.0, 60.0, 3.0, 10.0)
        return ["rectangular", 80.0, 60.0, 3.0, 10.0, rng.randrange(0, len(cd))]
    if k < 0.8:
        cdn, _ = _domain("birect", 60.0, 40.0, 3.0, 9.0, 9.0)
        i = rng.randrange(len(cdn))
        return ["birect", 60.0, 40.0, 3.0, 9.0, 9.0, i, rng.randrange(len(cdn[i]))]
    cdn, _ = _domain("zoned", 60.0, 40.0, 3.0, 9.0, 9.0)
    i = rng.randrange(len(cdn))
    return ["zoned", 60.0, 40.0, 3.0, 9.0, 9.0, i, rng.randrange(len(cdn[i]))]


def n_bucket(n):
    return "n=0" if n == 0 else "n=1" if n == 1 else "n=2..9" if n < 10 else "n=10..99" if n < 100 else "n=100..400" if n <= 400 else "n>400"


def v_bucket(v):
    if v == 0:
        return "v=0"
    return f"v~1e{math.floor(math.log10(abs(v)))}" + ("(neg)" if v < 0 else "")


# --------------------------------------------------------------------------------------- the check
class Checker:
    def __init__(self, ctx):
        self.ctx = ctx
        self.maxdev = {}
        self.seen = set()

    def finding(self, key, what, replay):
        """Report the first failing input of every distinct key; further ones are only counted."""
        if key in self.seen:
            self.ctx.count("more-failures:" + key)
            return
        self.seen.add(key)
        self.ctx.finding(key, what, replay)

    def dev(self, name, a, b):
        d = abs(a - b) / max(abs(a), abs(b), 1e-300)
        self.maxdev[name] = max(self.maxdev.get(name, 0.0), d)

    def disagree(self, stream, detail):
        ctx = self.ctx
        ctx.disagreements_checked += 1
        if stream not in ctx.broken:
            ctx.broken.append(stream)
            ctx.extra.setdefault("first_disagreement", {})[stream] = detail

    # ---- impl state vs model answer vs oracle
    def check_density(self, where, phys, rho, rho_ref, replay):
        """The density the code works with must be that of the fluid the user specified."""
        self.ctx.count("density compared with the independent fluid:" + phys["fluid"][0])
        self.dev("rho-vs-independent-fluid", rho, rho_ref)
        if not close(rho, rho_ref, REL15):
            self.finding(f"fluid-density:{where}:{phys['fluid'][0]}",
                         f"{where}: the fluid object for {fluid_label(phys)} has density {rho!r} kg/m3; pygfunction's Fluid('{ghelib.FLUID_CODES[phys['fluid'][0].upper()]}', "
                         f"{phys['fluid'][1]:g}, {phys.get('fluid_temp', 20.0):g}) - the fluid that was specified - has {rho_ref!r}: the per-borehole mass flow v·rho/1000 is off by "
                         f"{abs(rho / rho_ref - 1) * 100:.3f} % under both flow specifications", replay)

    def check_state(self, where, cls, ft, v, n, rho, st, model_line, replay, rho_ref=None):
        """st: dict with vsys, mg, vb, mghe, mbhe, nbh or {"raise": name}.  model_line: answer of `flow.init`."""
        ctx = self.ctx
        want = oracle(ft, v, n, rho if rho_ref is None else rho_ref)   # the oracle uses the density of the SPECIFIED fluid
        got_raise = st.get("raise")
        if got_raise and st.get("after_g") and n >= 1 and got_raise != "ZeroDivisionError":
            # raised by the thermal models (pygfunction / equivalent U-tube / radial model) after the flow path had completed;
            # not part of the flow bookkeeping.  check_thermal_raise compares the outcome under the two specifications.
            ctx.count(f"outcome:{where}:thermal-model-raise:{got_raise} (outside the flow path)")
            return
        ctx.count(f"outcome:{where}:" + (got_raise or "ok"))
        # -- correspondence (model vs implementation)
        if model_line is not None:
            if model_line.startswith("raise"):
                if got_raise != model_line.split()[1]:
                    self.disagree(f"{where}-correspondence", {"cls": cls, "ft": ft, "v": v, "n": n, "rho": rho, "impl": st, "model": model_line})
            elif got_raise:
                self.disagree(f"{where}-correspondence", {"cls": cls, "ft": ft, "v": v, "n": n, "rho": rho, "impl": st, "model": model_line})
            else:
                p = model_line.split()
                mv = [core.pr(x) for x in p[:5]]
                iv = [st["vsys"], st["mg"], st["vb"], st["mghe"], st["mbhe"]]
                ok = all(close(a, float(b), REL15) for a, b in zip(iv, mv)) and int(p[5]) == st["nbh"]
                for nm, a, b in zip(("vsys", "mg", "vb", "mghe", "mbhe"), iv, mv):
                    self.dev("impl-vs-model:" + nm, a, float(b))
                if not ok:
                    self.disagree(f"{where}-correspondence", {"cls": cls, "ft": ft, "v": v, "n": n, "rho": rho, "impl": st, "model": model_line})
        # -- predicate (oracle vs implementation)
        if isinstance(want, str):
            if got_raise != want:
                self.finding(f"error-branch:{where}:{cls}:{ft_code(ft)}:n{'0' if n == 0 else '+'}",
                            f"{cls} {where} with flow type {ft} on {n} boreholes: expected {want}, observed {got_raise or 'a result'}", replay)
            return
        if got_raise:
            self.finding(f"unexpected-raise:{where}:{cls}:{ft}", f"{cls} {where} raised {got_raise} for flow type {ft}, v={v}, N={n}", replay)
            return
        for nm, key in (("m_flow(g-function)", "mg"), ("GHE.m_flow_borehole", "mghe"), ("bhe.m_flow_borehole", "mbhe")):
            if not close(st[key], float(want["m"]), REL15):
                self.finding(f"mass-flow-formula:{where}:{cls}:{ft}:{key}",
                            f"{cls} {where}: {nm} = {st[key]!r} but (per-borehole L/s)/1000·rho = {float(want['m'])!r} (ft={ft}, v={v!r}, N={n}, rho of the specified fluid={(rho if rho_ref is None else rho_ref)!r})", replay)
        if not close(st["vb"], float(want["vb"]), REL15):
            self.finding(f"per-borehole-flow:{where}:{cls}:{ft}", f"{cls} {where}: V_flow_borehole = {st['vb']!r}, specified {float(want['vb'])!r} (ft={ft}, v={v!r}, N={n})", replay)
        if not close(st["vsys"], float(want["vsys"]), REL15):
            self.finding(f"system-flow:{where}:{cls}:{ft}", f"{cls} {where}: V_flow_system = {st['vsys']!r}, specified {float(want['vsys'])!r} (ft={ft}, v={v!r}, N={n})", replay)
        if st["nbh"] != n or st.get("g_n", n) != n or st.get("bore_n", n) != n:
            self.finding(f"field-size:{where}:{cls}", f"{cls} {where}: nbh={st['nbh']}, g-function got {st.get('g_n')} / stores {st.get('bore_n')} locations, field has {n}", replay)
        if st.get("same_fluid") is False or st.get("same_coords") is False:
            self.disagree(f"{where}-wiring", {"cls": cls, "impl": st})

    def check_history(self, c, r):
        """r: result of history_worker for case c.  Everything is judged against the LAST call that named a flow type."""
        ctx = self.ctx
        g, pat = c["geom"], c["pattern"]
        key = f"history:{g}:{pat}"
        replay = {"part": "history", "case": c, "impl": {k: v for k, v in r.items() if k not in ("first", "last", "fresh")},
                  "last": {k: v for k, v in (r.get("last") or {}).items() if k not in ("ghes", "gcalls", "coords")},
                  "fresh": {k: v for k, v in (r.get("fresh") or {}).items() if k not in ("ghes", "gcalls", "coords")}}
        lv, lft = r["last_spec"]
        hist = " -> ".join(f"set_design({v!r}, {fs!r})" for v, _, fs, _ in r["calls"])
        # (i) the design object
        d = r["design"]
        want_ft = {"B": "BOREHOLE", "S": "SYSTEM"}[lft]
        if d is None or d["ft"] != want_ft or d["v"] != lv or d["to_input"].get("flow_type") != want_ft or d["to_input"].get("flow_rate") != lv:
            self.finding(key + ":design-flow-spec", f"{g}: after {hist} the design holds flow_type={d and d['ft']}, V_flow={d and d['v']!r} "
                         f"(to_input {d and d['to_input']}); the last specification is {want_ft} {lv!r}", replay)
        if d is not None and (d["cls"] != DESIGN_CLASS[g] or not d["same_constraints"]):
            self.finding(key + ":design-object", f"{g}: after {hist} the design is a {d['cls']} (same constraints object: {d['same_constraints']})", replay)
        for which, o, (v, ft) in (("first", r.get("first"), (r["calls"][0][0], r["calls"][0][1])), ("last", r["last"], (lv, lft))):
            if o is None:
                continue
            if which == "first" and ft not in ("B", "S"):
                continue
            rho = o.get("rho_ref", o["rho"])
            self.check_density("find_design after a set_design history", _phys(c), o["rho"], rho, replay)
            if "summary_rho" in o and not close(o["summary_rho"], rho, REL15):
                self.finding(key + f":{which}:summary-density", f"{g}: summary fluid_density {o['summary_rho']!r}, the specified fluid {fluid_label(_phys(c))} has {rho!r}", replay)
            ctx.count("history:GHE objects observed", len(o["ghes"]))
            if "raise" not in o:
                w = oracle(ft, v, o["n"], rho)
                # (iii) the summary
                if not close(o["summary_m"], float(w["m"]), REL15) or o["summary_n"] != o["n"] or not close(o["mbhe"], float(w["m"]), REL15):
                    self.finding(key + f":{which}:summary-mass-flow", f"{g}: after {hist} the summary reports fluid_mass_flow_rate_per_borehole={o['summary_m']!r} kg/s for "
                                 f"{o['summary_n']} boreholes; specification {ft} {v!r} means {float(w['m'])!r}", replay)
                if not close(o["summary_rb"], o["rb"], REL9):
                    self.finding(key + f":{which}:summary-rb", f"{g}: summary effective_borehole_resistance {o['summary_rb']!r} vs design {o['rb']!r}", replay)
            # (ii) every GHE the search built, every g-function calculation, the final GHE
            for (n, vsys, mbhe, mghe) in o["ghes"]:
                w = oracle(ft, v, n, rho)
                if not (close(mbhe, float(w["m"]), REL15) and close(mghe, float(w["m"]), REL15) and close(vsys, float(w["vsys"]), REL15)):
                    self.finding(key + f":{which}:ghe-flow", f"{g}: after {hist}, find_design built a GHE of {n} boreholes with V_flow_system={vsys!r}, "
                                 f"bhe.m_flow_borehole={mbhe!r}; the {'last' if which == 'last' else 'first'} specification {ft} {v!r} means {float(w['vsys'])!r}, {float(w['m'])!r}", replay)
                    break
            for (n, mg, nh) in o["gcalls"]:
                w = oracle(ft, v, n, rho)
                if not close(mg, float(w["m"]), REL15):
                    self.finding(key + f":{which}:g-function-flow", f"{g}: after {hist}, a g-function calculation for {n} boreholes was given m_flow_borehole={mg!r}; expected {float(w['m'])!r}", replay)
                    break
            if "raise" in o:
                ctx.count(f"history:find_design raised {o['raise']}")
                continue
            if o["search_ft"] != {"B": "BOREHOLE", "S": "SYSTEM"}[ft] or o["search_v"] != v:
                self.finding(key + f":{which}:search-flow-spec", f"{g}: after {hist} the search object holds {o['search_ft']} {o['search_v']!r}, expected {ft} {v!r}", replay)
        # (iv) a fresh manager that only ever got the last specification
        a, b = r["last"], r["fresh"]
        if ("raise" in a) != ("raise" in b) or a.get("raise") != b.get("raise"):
            self.finding(key + ":fresh-manager:outcome", f"{g}: after {hist} find_design -> {a.get('raise', 'a design')}; fresh manager with {lft} {lv!r} -> {b.get('raise', 'a design')}", replay)
        elif "raise" not in a:
            if a["n"] != b["n"] or a["coords"] != b["coords"]:
                self.finding(key + ":fresh-manager:field", f"{g}: after {hist} the design has {a['n']} boreholes; a fresh manager given only {lft} {lv!r} selects {b['n']}"
                             + ("" if a["n"] != b["n"] else " (different coordinates)"), replay)
            else:
                for k2, rel, fl in (("mbhe", REL15, 0.0), ("vsys", REL15, 0.0), ("rb", REL9, 0.0), ("H", REL9, 0.0), ("max_eft", REL9, 1.0), ("min_eft", REL9, 1.0)):
                    self.dev("history-vs-fresh:" + k2, a[k2], b[k2])
                    if not close(a[k2], b[k2], rel, fl):
                        self.finding(key + f":fresh-manager:{k2}", f"{g}: after {hist}: {k2}={a[k2]!r}; fresh manager given only {lft} {lv!r}: {b[k2]!r} ({a['n']} boreholes)", replay)
                ctx.count("history:designs equal to the fresh manager's (field, H, EFT compared)")
        # the equivalence form on the re-used manager
        e = r.get("equiv")
        if e:
            ctx.count("history:equivalence pairs on a re-used manager")
            for k2, rel, fl in (("mbhe", REL15, 0.0), ("vsys", REL15, 0.0), ("rb", REL9, 0.0), ("max_eft", REL9, 1.0), ("min_eft", REL9, 1.0)):
                self.dev("history B-vs-S:" + k2, e["first"][k2], e["last"][k2])
                if not close(e["first"][k2], e["last"][k2], rel, fl):
                    self.finding(key + f":equiv:{k2}", f"{g}: set_design({r['calls'][0][0]!r}, borehole) then set_design({lv!r}, system) on the same manager: on the {e['n']}-borehole field "
                                 f"of the first design {k2} = {e['first'][k2]!r} under the first and {e['last'][k2]!r} under the second design", replay)


    def check_equiv(self, where, cls, pipe, a, b, n, replay):
        """a: state under BOREHOLE v, b: under SYSTEM v·N (both ok)."""
        ctx = self.ctx
        for key in ("mg", "mghe", "mbhe", "vb", "vsys"):
            self.dev("B-vs-S:" + key, a[key], b[key])
            if not close(a[key], b[key], REL15):
                self.finding(f"equiv:{where}:{cls}:{key}", f"{cls} {where}: {key} differs between BOREHOLE v and SYSTEM N·v on {n} boreholes: {a[key]!r} vs {b[key]!r}", replay)
        thermal = [x[k] for x in (a, b) for k in ("rb", "max_eft", "min_eft") if k in x]
        if thermal and not all(math.isfinite(t) for t in thermal):
            # R_b* / temperatures are compared only where the code produces finite values (very large flows may leave the
            # validity range of the thermal correlations); the flows above are compared in any case
            ctx.count("equivalence pairs with non-finite R_b*/EFT (thermal comparison skipped)")
            if [math.isfinite(a.get(k, 0.0)) for k in ("rb", "max_eft", "min_eft")] != [math.isfinite(b.get(k, 0.0)) for k in ("rb", "max_eft", "min_eft")]:
                self.finding(f"equiv:{where}:{cls}:{pipe}:finite", f"{cls} {where} ({pipe}): finite thermal results under one specification only on {n} boreholes: {a} vs {b}", replay)
            return
        if "rb" in a and "rb" in b:
            self.dev("B-vs-S:rb", a["rb"], b["rb"])
            if not close(a["rb"], b["rb"], REL9):
                self.finding(f"equiv:{where}:{cls}:{pipe}:rb", f"{cls} {where} ({pipe}): R_b* differs between the two specifications on {n} boreholes: {a['rb']!r} vs {b['rb']!r}", replay)
            for key in ("max_eft", "min_eft"):
                self.dev("B-vs-S:" + key, a[key], b[key])
                if not close(a[key], b[key], REL9, 1.0):
                    self.finding(f"equiv:{where}:{cls}:{pipe}:{key}", f"{cls} {where} ({pipe}): {key} differs between the two specifications on {n} boreholes: {a[key]!r} vs {b[key]!r}", replay)


def run(ctx: core.Ctx):
    import ghedesigner.search_routines as sr
    from ghedesigner.media import GHEFluid

    quick = ctx.tier == "quick"
    rng = ctx.rng
    ck = Checker(ctx)
    ctx.rule = ("(1) retrieve_flow of all four search classes: every N in 0..400 (+ larger), flow rates 1e-4..1e3 L/s and zero/negative, all five "
                "fluids x concentrations, flow types BOREHOLE/SYSTEM/6 invalid values; (2) BaseGHE/GHE constructors on synthetic g-function tables; "
                "(3) constructor + calculate_excess of each search class on members of real candidate lists and arbitrary N (real pygfunction "
                "g-function or synthetic table), four pipe types, under BOREHOLE v, SYSTEM fl(v·N) and an unrelated SYSTEM flow; (4) SYSTEM flow along "
                "whole real candidate lists; (5) whole find_design runs; (6) call histories on ONE GHEManager: 2-4 set_design calls (borehole->system, "
                "system->borehole, same type/other value, refused strings in between) then find_design, judged against the LAST accepted call "
                "(design object, every GHE and g-function calculation of the search, summary, equality with a fresh manager, and BOREHOLE v vs "
                "SYSTEM N·v on the re-used manager), plus random set_design/geometry histories against the state-machine model; (7) the density: every mass-flow oracle takes rho from "
                "pygfunction's own Fluid for the user-level (name, percent, temperature) - five fluids, 0-60 %, 5/20/35 C and random design temperatures - "
                "and the GHEFluid / manager / summary density is compared with it. distinct = distinct (class, flow type, v, N, rho[, pipe]); non-trivial = N >= 2 "
                "with a valid flow type (N = 1 makes the two specifications literally the same number; errors are branch checks)")
    ctx.trusted_base += [
        "translator translate/gen.py + translate/gen_flow.py (retrieve_flow copies, BaseGHE.__init__ flow slice, initialize_ghe wiring; regenerated every run)",
        "hand-written composition Model/Flow.lean (retrieve_flow -> borehole_spacing -> BaseGHE slice), tied to the code by running real search objects",
        "pygfunction (fluid property library, g-functions, multipole R_b), numpy/scipy in simulate(): the same code runs under both specifications",
        "reference density: pygfunction.media.Fluid with pygfunction's documented mixture codes (WATER, MPG, MEG, MMA = methanol, MEA = ethanol) via ghelib.independent_fluid",
        "CPython float rounding: model/oracle are exact rationals, implementation compared at 1e-15 relative for flows, 1e-9 for R_b* and temperatures",
    ]
    ctx.assumptions += [
        "flow rates, densities are finite doubles of ordinary magnitude (1e-6..1e6); overflow/underflow of v·N or v/1000 is outside the comparison",
        "SYSTEM N·v is the double fl(v·N): (v·N)/N may differ from v in the last bit, hence 1e-15 relative instead of bit equality",
        "g_function.bore_locations is the coordinates list given to calc_g_func_for_multiple_lengths (measured on every case)",
    ]
    ctx.lean_prepare()

    # --replay: re-run only the stream the failing input belongs to, on that input
    rp, only = {}, None
    if ctx.replay:
        rp = json.loads(open(ctx.replay).read()).get("replay", {})
        only = rp.get("part") or "unknown"
        ctx.extra["replay_of"] = {"file": str(ctx.replay), "part": only}

    def drive(lines):
        return ctx.driver(lines) if lines else []

    # fluids -------------------------------------------------------------------------------------------
    fluids = []
    for name in FLUIDS:
        for pc in ([0.0] if name == "Water" else [30.0, 0.0, 5.0, 10.0, 20.0, 40.0, 50.0, 60.0]):
            for temp in (20.0, 5.0, 35.0):
                ph = {"fluid": (name, pc), "fluid_temp": temp}
                try:
                    rr = ref_rho(ph)
                except Exception:  # noqa: BLE001
                    ctx.count("fluid-rejected-by-pygfunction")
                    continue
                fluids.append((name, pc, temp, rr))
                try:
                    f = GHEFluid(name, pc, temp)
                except Exception as e:  # noqa: BLE001
                    ck.finding(f"fluid-density:GHEFluid:{name}:raise", f"GHEFluid({name!r}, {pc}, {temp}) raised {type(e).__name__} although pygfunction knows that fluid", {"part": "fluid", "phys": ph})
                    continue
                ctx.case(("fluid", name, pc, temp), pc > 0, {"part": "fluid", "phys": ph, "GHEFluid.rho": float(f.rho), "independent rho": rr} if (name, pc, temp) == ("MethylAlcohol", 30.0, 20.0) else None)
                ck.check_density("GHEFluid", ph, float(f.rho), rr, {"part": "fluid", "phys": ph, "GHEFluid.rho": float(f.rho), "independent rho": rr})
    ctx.extra["fluids"] = len(fluids)
    ctx.extra["rho_range"] = [min(f[3] for f in fluids), max(f[3] for f in fluids)]

    # =============================================================================== (1) retrieve_flow
    big = [(float(i % 50), float(i // 50)) for i in range(5000)]
    rf_cases = []
    n_list = list(range(0, 401)) + [401, 420, 432, 540, 1000, 2500, 4999]
    reps = 0 if only else (1 if quick else 6)
    if only == "retrieve_flow":
        if "borehole_case" in rp:
            rf_cases.append((rp["cls"], "B", rp["borehole_case"]["v"], rp["n"], rp["rho"]))
        rf_cases.append((rp["cls"], rp["ft"], rp["v"], rp["n"], rp["rho"]))
    for _ in range(reps):
        for n in n_list:
            for cls in SEARCH_CLASSES:
                v = rand_flow(rng)
                k = rng.random()
                if k < 0.03:
                    v = 0.0
                elif k < 0.06:
                    v = -v
                rho = rng.choice(fluids)[3]
                rf_cases.append((cls, "B", v, n, rho))
                rf_cases.append((cls, "S", v * n if n else v, n, rho))
                if rng.random() < 0.5:
                    rf_cases.append((cls, "S", rand_flow(rng), n, rho))
                if rng.random() < 0.15:
                    rf_cases.append((cls, "X:" + rng.choice(BAD_FLOW_TYPES), v, n, rho))
    impl = []
    for cls, ft, v, n, rho in rf_cases:
        obj = getattr(sr, cls).__new__(getattr(sr, cls))
        obj.V_flow, obj.flow_type = v, flow_type_obj(ft)
        try:
            r = obj.retrieve_flow(big[:n], rho)
            impl.append({"vsys": float(r[0]), "m": float(r[1])})
        except Exception as e:  # noqa: BLE001
            impl.append({"raise": type(e).__name__})
    out = drive([f"flow.rf {COPY_OF[cls]} {ft_code(ft)} {core.rs(v)} {n} {core.rs(rho)}" for cls, ft, v, n, rho in rf_cases])
    prev_b = None
    for i, (cls, ft, v, n, rho) in enumerate(rf_cases):
        st = impl[i]
        replay = {"part": "retrieve_flow", "cls": cls, "ft": ft, "v": v, "n": n, "rho": rho, "impl": st}
        ctx.case(("rf", cls, ft, v, n, rho), n >= 2 and ft in ("B", "S"), replay if i in (5, 1207) else None)
        ctx.count("rf:" + n_bucket(n)); ctx.count("rf:ft=" + ft_code(ft)); ctx.count("rf:" + v_bucket(v)); ctx.count("rf:cls=" + cls)
        ctx.count("outcome:retrieve_flow:" + st.get("raise", "ok"))
        want = oracle(ft, v, max(n, 1) if ft == "B" else n, rho)  # retrieve_flow alone accepts an empty field under BOREHOLE
        if ft == "B" and n == 0:
            want = {"vsys": Fraction(0), "m": Fraction(v) * Fraction(rho) / 1000}
        if out is not None:
            ml = out[i]
            if ml.startswith("raise") or "raise" in st:
                if not (ml.startswith("raise") and st.get("raise") == ml.split()[1]):
                    ck.disagree("retrieve_flow-correspondence", {**replay, "model": ml})
            else:
                a, b = (core.pr(x) for x in ml.split())
                ck.dev("impl-vs-model:rf.vsys", st["vsys"], float(a)); ck.dev("impl-vs-model:rf.m", st["m"], float(b))
                if not (close(st["vsys"], float(a), REL15) and close(st["m"], float(b), REL15)):
                    ck.disagree("retrieve_flow-correspondence", {**replay, "model": ml})
        if isinstance(want, str):
            if st.get("raise") != want:
                ck.finding(f"error-branch:retrieve_flow:{cls}:{ft_code(ft)}:n{'0' if n == 0 else '+'}",
                            f"{cls}.retrieve_flow with flow type {ft} on {n} coordinates: expected {want}, observed {st.get('raise', 'a result')}", replay)
        elif "raise" in st:
            ck.finding(f"unexpected-raise:retrieve_flow:{cls}:{ft}", f"{cls}.retrieve_flow raised {st['raise']} (v={v}, N={n})", replay)
        else:
            if not close(st["m"], float(want["m"]), REL15):
                ck.finding(f"mass-flow-formula:retrieve_flow:{cls}:{ft}", f"{cls}.retrieve_flow: m_flow_borehole = {st['m']!r}, (per-borehole L/s)/1000·rho = {float(want['m'])!r} (v={v!r}, N={n}, rho={rho!r})", replay)
            if not close(st["vsys"], float(want["vsys"]), REL15):
                ck.finding(f"system-flow:retrieve_flow:{cls}:{ft}", f"{cls}.retrieve_flow: v_flow_system = {st['vsys']!r}, specified {float(want['vsys'])!r} (v={v!r}, N={n})", replay)
        # equivalence of the B case with the S(v·N) case generated right after it
        if ft == "B":
            prev_b = (i, cls, v, n, rho)
        elif prev_b and prev_b[0] == i - 1 and n >= 1 and "raise" not in st and "raise" not in impl[i - 1]:
            b = impl[i - 1]
            if (prev_b[2] * n) / n != prev_b[2]:
                ctx.count("rf:(vN)/N != v in floats")
            ck.dev("B-vs-S:rf.m", b["m"], st["m"])
            if not close(b["m"], st["m"], REL15) or b["vsys"] != st["vsys"]:
                ck.finding(f"equiv:retrieve_flow:{cls}", f"{cls}.retrieve_flow: BOREHOLE {prev_b[2]!r} gives {b}, SYSTEM {v!r} on {n} boreholes gives {st}",
                            {**replay, "borehole_case": {"v": prev_b[2], "impl": b}})

    # =============================================================================== (4) SYSTEM flow along real candidate lists
    lists = [("nearsquare", _domain("nearsquare", 5.0, 21)[0])]
    lists.append(("rectangular", _domain("rectangular", 80.0, 60.0, 3.0, 10.0)[0]))
    cdn = _domain("birect", 60.0, 40.0, 3.0, 9.0, 9.0)[0]
    lists += [(f"birect[{i}]", cdn[i]) for i in (range(0, len(cdn), 3) if quick else range(len(cdn)))]
    lists.append(("birect-outer", [cdn[0][0]] + [c[-1] for c in cdn]))
    lists.append(("zoned[0]", _domain("zoned", 60.0, 40.0, 3.0, 9.0, 9.0)[0][0]))
    if only not in (None, "candidate-list"):
        lists = []
    for lname, dom in lists:
        for cls in SEARCH_CLASSES:
            v_sys = rand_flow(rng) * rng.choice([1, 10, 100])
            rho = rng.choice(fluids)[3]
            obj = getattr(sr, cls).__new__(getattr(sr, cls))
            obj.V_flow, obj.flow_type = v_sys, flow_type_obj("S")
            ms = [float(obj.retrieve_flow(f, rho)[1]) for f in dom]
            ns = [len(f) for f in dom]
            const = Fraction(v_sys) * Fraction(rho) / 1000
            ctx.case(("list", lname, cls, v_sys, rho), True, {"part": "candidate-list", "list": lname, "cls": cls, "V": v_sys, "N": ns[:8], "m": ms[:8]} if cls == "Bisection1D" and lname == "nearsquare" else None)
            ctx.count("list:candidates", len(dom))
            if sorted(ns) != ns:
                ctx.count("list:not sorted by N")
            bad = next((j for j in range(len(dom)) if not close(ms[j] * ns[j], float(const), 2 * REL15)), None)
            if bad is not None:
                ck.finding(f"inverse-N:{cls}:product", f"{cls}: SYSTEM {v_sys!r} L/s along {lname}: m·N = {ms[bad] * ns[bad]!r} at N={ns[bad]}, expected V/1000·rho = {float(const)!r}",
                            {"part": "candidate-list", "list": lname, "cls": cls, "V": v_sys, "rho": rho, "index": bad})
            order = sorted(range(len(dom)), key=lambda j: ns[j])
            badm = next(((a, b) for a, b in zip(order, order[1:]) if (ns[a] < ns[b] and not ms[a] > ms[b]) or (ns[a] == ns[b] and ms[a] != ms[b])), None)
            if badm is not None:
                ck.finding(f"inverse-N:{cls}:monotone", f"{cls}: SYSTEM flow along {lname}: N={ns[badm[0]]} -> m={ms[badm[0]]!r}, N={ns[badm[1]]} -> m={ms[badm[1]]!r} (not decreasing)",
                            {"part": "candidate-list", "list": lname, "cls": cls, "V": v_sys, "rho": rho, "pair": badm})

    # =============================================================================== (6b) set_design as a state machine (no find_design)
    import contextlib
    import io
    hist_lines, hist_impl = [], []
    cls_index = {DESIGN_CLASS[g]: GEOM_INDEX[g] for g in HIST_GEOMS}
    cheap = ["NEARSQUARE", "RECTANGLE", "BIRECTANGLE"]
    base_case = {"phys": ghelib.default_physics(), "pipe": "SINGLEUTUBE", "months": 12, "load_scale": 0.05}
    for j in range(0 if only not in (None, "set_design-history") else (120 if quick else 1500)):
        with ghelib.quiet(), contextlib.redirect_stderr(io.StringIO()):
            m = bare_manager(base_case)
            items, results, geom, want, log = [], [], None, None, []
            for _ in range(rng.randint(1, 7)):
                if rng.random() < (0.7 if geom is None else 0.12):
                    geom = rng.choice(cheap)
                    ghelib.set_geometry(m, HIST_GEOMS[geom])
                    items.append(f"g{GEOM_INDEX[geom]}"); results.append("g"); log.append(f"geometry {geom}")
                    continue
                ft, v, throw = rng.choice("BBSSX"), rand_flow(rng), rng.random() < 0.5
                fs = rng.choice(FT_STR[ft])
                res = call_set_design(m, v, fs, throw)
                items.append(f"{core.rs(v)},{ft},{'T' if throw else 'F'}"); results.append(res); log.append(f"set_design({v!r}, {fs!r}, throw={throw}) -> {res}")
                exp = ("ValueError" if throw else "1") if ft == "X" else "Exception" if geom is None else "0"
                if ft != "X" and geom is not None:
                    want = (v, {"B": "BOREHOLE", "S": "SYSTEM"}[ft], DESIGN_CLASS[geom])
                if res != exp:
                    ck.finding(f"history:set_design-outcome:{ft}:{'throw' if throw else 'nothrow'}", f"{'; '.join(log)}: expected {exp}", {"part": "set_design-history", "log": log})
            d = design_state(m)
        got = None if d is None else (d["v"], d["ft"], d["cls"])
        ctx.case(("sm", tuple(items)), len(items) >= 2, {"part": "set_design-history", "log": log, "design": d} if j == 0 else None)
        ctx.count("history(state machine):calls", len(items)); ctx.count("history(state machine):final design " + ("none" if d is None else d["ft"]))
        if got != want:
            ck.finding("history:set_design-last-wins", f"{'; '.join(log)}: the design holds {got}, the last accepted call was {want}", {"part": "set_design-history", "log": log, "design": d})
        hist_lines.append(";".join(items))
        hist_impl.append({"results": results, "design": d, "src": f"sm{j}"})

    # =============================================================================== jobs for the pool: (2), (3), (5), (6)
    jobs = []
    # ---- (6) call histories on ONE manager, then find_design (longest jobs: first)
    hcases = []
    hgeoms = list(HIST_GEOMS)
    if quick:
        hgeoms = ["NEARSQUARE", hgeoms[1 + ctx.seed % 5]]

    def spec(ft):
        return round(rng.uniform(0.2, 0.6), 2) if ft == "B" else round(rng.uniform(1.2, 4.8), 1)

    def call(ft, v=0, throw=True):
        return [spec(ft) if v == 0 else v, ft, rng.choice(FT_STR[ft]), throw]

    for g in hgeoms if only is None else []:
        pats = [("B>S(N·v)", [call("B"), call("S", None)], True, True),
                ("S>B", [call("S"), call("B")], False, False)]
        extra = [("B>B'", [call("B"), call("B")], False, False), ("S>S'", [call("S"), call("S")], rng.random() < 0.5, False),
                 ("B>S>B", [call("B"), call("S"), call("B")], rng.random() < 0.5, False),
                 ("B>S", [call("B"), call("S")], True, False),
                 ("S>X>B>X", [call("S"), call("X", 1.0, False), call("B"), call("X", 2.0, False)], False, False),
                 ("S>B>S", [call("S"), call("B"), call("S")], False, False)]
        pats += [rng.choice(extra)] if quick else extra
        for pat, calls, fb, eq in pats:
            hcases.append({"id": f"h{len(hcases)}", "geom": g, "pattern": pat, "calls": calls, "find_between": fb, "equiv": eq,
                           "pipe": "SINGLEUTUBE" if quick else rng.choice(ghelib.PIPE_KINDS[:3]),
                           "phys": alcohol_physics(rng) if len(hcases) % 2 == 1 else ghelib.default_physics(),
                           "months": 12, "load_scale": round(rng.uniform(0.05, 0.08), 3)})
    if only == "history":
        hcases = [rp["case"]]
    jobs += [("history", c) for c in hcases]
    # ---- (5) whole designs first (longest)
    designs = []
    geoms = list(GEOMS)
    for gi, g in enumerate(geoms):
        fts = ["S", "B"] if (not quick or gi % 3 == ctx.seed % 3) else ["S"]
        for ft in fts:
            v = 31.2 if ft == "S" else 0.3
            if not quick:
                v = v * rng.choice([0.6, 1.0, 1.5])
            designs.append({"id": f"design-{g}-{ft}", "geom": g, "ft": ft, "v": v, "pipe": "SINGLEUTUBE" if quick or rng.random() < 0.5 else rng.choice(ghelib.PIPE_KINDS),
                            "phys": alcohol_physics(rng) if len(designs) % 2 == 1 else ghelib.default_physics(), "months": 120, "load_scale": 1.0})
    if not quick:
        for g in geoms:
            p = rand_phys(rng)
            p["borehole"] = (p["borehole"][0], p["borehole"][1], 0.15)
            designs.append({"id": f"design-{g}-S-rand", "geom": g, "ft": "S", "v": round(rng.uniform(15, 50), 1), "pipe": rng.choice(ghelib.PIPE_KINDS),
                            "phys": p, "months": 120, "load_scale": rng.uniform(0.6, 1.2)})
    if only:
        designs = [rp["case"]] if only == "design" else []
    jobs += [("design", d) for d in designs]

    # ---- (3) pipeline cases
    pcases = []

    def add_pipeline(cls, pipe, phys, field, v, g, tag, specs=None):
        coords, _ = make_field(field)
        n = len(coords)
        if specs is None:
            specs = [("B", v), ("S", v * n if n else v), ("S", phys_flow(rng) * max(n, 1))]
        pcases.append({"id": f"p{len(pcases)}", "cls": cls, "pipe": pipe, "phys": phys, "field": field, "n": n, "g": g, "tag": tag,
                       "months": rng.choice([12, 24, 60]), "h": round(rng.uniform(60.0, 135.0), 2), "load_scale": round(10 ** rng.uniform(-0.5, 0.3), 3),
                       "specs": [list(s) for s in specs]})

    # corpus first
    gen_pipeline = only in (None, "chain")
    cdir = core.CORPUS / "C20"
    if cdir.exists() and gen_pipeline:
        for f in sorted(cdir.glob("*.json")):
            c = json.loads(f.read_text())
            for cls in c.get("classes", SEARCH_CLASSES):
                add_pipeline(cls, c["pipe"], c.get("phys") or ghelib.default_physics(), c["field"], c["v"], c.get("g", "real"), "corpus:" + f.stem,
                             specs=[tuple(s) for s in c["specs"]] if "specs" in c else None)
    if only == "pipeline":
        pcases.append(dict(rp["case"], id="p0", tag="replay"))
    per_combo = (8 if quick else 130) if gen_pipeline else 0
    for cls in SEARCH_CLASSES:
        for pipe in ghelib.PIPE_KINDS:
            for j in range(per_combo):
                phys = rand_phys(rng)
                if pipe == "COAXIAL":
                    phys["borehole"] = (phys["borehole"][0], phys["borehole"][1], max(phys["borehole"][2], 0.14))
                k = rng.random()
                if j == 0:
                    field = rand_field(rng, ctx.tier, want=rng.choice([399, 400]))
                elif k < 0.5:
                    field = rand_field(rng, ctx.tier)
                else:
                    field = rand_field(rng, ctx.tier, want=rng.choice([1, 2, 3, 5, 7, 11, 13, 17, 23, 37, 49, 53, 97, 101, 150, 211, 256, 307, 397]))
                add_pipeline(cls, pipe, phys, field, phys_flow(rng),
                             "real" if rng.random() < (0.6 if quick else 0.5) else "synthetic", "random")
    # error branches through the same code path
    for cls in SEARCH_CLASSES if gen_pipeline else []:
        for tag in (BAD_FLOW_TYPES[:3] if quick else BAD_FLOW_TYPES):
            add_pipeline(cls, "SINGLEUTUBE", ghelib.default_physics(), ["grid", 2, 5.0, 4], 0.4, "synthetic", "bad-flow-type", specs=[("X:" + tag, 0.4)])
        add_pipeline(cls, "SINGLEUTUBE", ghelib.default_physics(), ["empty"], 0.4, "synthetic", "empty-field", specs=[("B", 0.4), ("S", 0.4), ("X:none", 0.4)])
    # chains: SYSTEM flow on several members of one real list, through calculate_excess
    chains = {}
    for ci, cls in enumerate(SEARCH_CLASSES if gen_pipeline else []):
        v_sys = round(rng.uniform(8.0, 60.0), 1)
        phys = rand_phys(rng)
        idxs = sorted(rng.sample(range(0, 39), 5 if quick else 12))
        for idx in idxs:
            chains.setdefault(f"chain{ci}", []).append(f"p{len(pcases)}")
            add_pipeline(cls, rng.choice(ghelib.PIPE_KINDS[:3]), phys, ["nearsquare", 5.0, 21, idx], v_sys, "synthetic" if idx > 25 else "real", f"chain{ci}",
                         specs=[("S", v_sys)])
    # a large plant's system flow on the small-field end of the near-square list (N = 1, 2, 4) and on 3 boreholes; and the
    # equivalence BOREHOLE v / SYSTEM N·v at 100-400 L/s per borehole
    for ci, cls in enumerate(SEARCH_CLASSES if gen_pipeline else []):
        for rep_i in range(1 if quick else 6):
            pipe = ghelib.PIPE_KINDS[(ci + rep_i + ctx.seed) % 4]
            f_sys = plant_flow(rng)
            phys = ghelib.default_physics() if rep_i % 2 == 0 else rand_phys(rng)
            if pipe == "COAXIAL":
                phys["borehole"] = (phys["borehole"][0], phys["borehole"][1], max(phys["borehole"][2], 0.14))
            name = f"plant{ci}_{rep_i}"
            for field in (["nearsquare", 5.0, 21, 0], ["nearsquare", 5.0, 21, 1], ["grid", 3, 5.0, 3], ["nearsquare", 5.0, 21, 2]):
                chains.setdefault(name, []).append(f"p{len(pcases)}")
                add_pipeline(cls, pipe, phys, field, f_sys, "real", name, specs=[("S", f_sys)])
            nb = rng.choice([1, 2, 3])
            v_big = round(rng.uniform(100.0, 400.0), 1)
            add_pipeline(cls, ghelib.PIPE_KINDS[(ci + rep_i + ctx.seed + 1) % 4], phys if pipe != "COAXIAL" else ghelib.default_physics(), ["grid", 3, 5.0, nb], v_big, "real", "plant-equiv",
                         specs=[("B", v_big), ("S", v_big * nb)])
    jobs += [("pipeline", c) for c in pcases]

    # ---- (2) BaseGHE / GHE constructors
    bcases = []
    for j in range(60 if quick else 1200):
        phys = rand_phys(rng)
        n = 0 if j % 30 == 0 else rng.choice([1, 2, 3, rng.randrange(1, 401), rng.randrange(1, 401), 400])
        pipe = ghelib.PIPE_KINDS[j % 4]
        if pipe == "COAXIAL":
            phys["borehole"] = (phys["borehole"][0], phys["borehole"][1], max(phys["borehole"][2], 0.14))
        bcases.append({"id": f"b{j}", "phys": phys, "pipe": pipe, "n": n, "vsys": phys_flow(rng) * max(n, 1) * rng.choice([1.0, 1.0, 0.9]),
                       "klass": "GHE" if j % 3 == 0 else "BaseGHE"})
    for j in range(16 if quick else 240):   # very large flows at the small-field end (bhe.m_flow_borehole must still be V/N·rho/1000)
        phys = rand_phys(rng) if j % 2 else ghelib.default_physics()
        pipe = ghelib.PIPE_KINDS[j % 4]
        if pipe == "COAXIAL":
            phys["borehole"] = (phys["borehole"][0], phys["borehole"][1], max(phys["borehole"][2], 0.14))
        n = 1 + (j // 4) % 3
        vsys = plant_flow(rng) if j % 3 else round(rng.uniform(100.0, 400.0), 1) * n
        bcases.append({"id": f"b{len(bcases)}", "phys": phys, "pipe": pipe, "n": n, "vsys": vsys, "klass": "GHE" if j % 5 == 0 else "BaseGHE", "tag": "plant"})
    if only:
        bcases = [rp["case"]] if only == "BaseGHE.__init__" else []
    jobs += [("base", c) for c in bcases]

    t0 = time.time()
    results = core.pool_map(any_worker, jobs)
    ctx.extra["pool_wall_s"] = round(time.time() - t0, 1)
    byid = {}
    for r in results:
        if "infra" in r:
            ctx.infra(f"worker {r['id']}: {r['infra'][-400:]}")
        byid[r["id"]] = r

    # ---------------------------------------------------------------- (2) evaluate
    lines = [f"flow.bghe {core.rs(c['vsys'])} {c['n']} {core.rs(byid[c['id']].get('rho', 1000.0))}" for c in bcases]
    out = drive(lines)
    for i, c in enumerate(bcases):
        r = byid[c["id"]]
        if "infra" in r:
            continue
        n, rho = c["n"], r["rho"]
        replay = {"part": "BaseGHE.__init__", "case": c, "impl": r}
        rho_ref = r.get("rho_ref", rho)
        ck.check_density("BaseGHE", _phys(c), rho, rho_ref, replay)
        ctx.case(("base", c["klass"], c["pipe"], c["vsys"], n, rho), n >= 2, replay if i == 1 else None)
        ctx.count("base:" + n_bucket(n)); ctx.count("base:pipe=" + c["pipe"]); ctx.count("base:class=" + c["klass"])
        ctx.count("outcome:BaseGHE:" + r.get("raise", "ok"))
        if out is not None:
            ml = out[i]
            if ml.startswith("raise") or "raise" in r:
                thermal = "raise" in r and r["raise"] != "ZeroDivisionError" and n >= 1
                if not thermal and not (ml.startswith("raise") and r.get("raise") == ml.split()[1]):
                    ck.disagree("BaseGHE-correspondence", {**replay, "model": ml})
            else:
                mv = [float(core.pr(x)) for x in ml.split()]
                for nm, a, b in zip(("vb", "mghe", "mbhe"), (r["vb"], r["mghe"], r["mbhe"]), mv):
                    ck.dev("impl-vs-model:BaseGHE." + nm, a, b)
                if not all(close(a, b, REL15) for a, b in zip((r["vb"], r["mghe"], r["mbhe"]), mv)) or r["nbh"] != n:
                    ck.disagree("BaseGHE-correspondence", {**replay, "model": ml})
        if n == 0:
            if r.get("raise") != "ZeroDivisionError":
                ck.finding("error-branch:BaseGHE:n0", f"{c['klass']} on a g-function with no bore locations: expected ZeroDivisionError, observed {r.get('raise', 'a result')}", replay)
            continue
        if "raise" in r:
            if r["raise"] == "ZeroDivisionError":  # the only exception the flow slice itself can raise
                ck.finding(f"unexpected-raise:BaseGHE:{c['pipe']}", f"{c['klass']}(v_flow_system={c['vsys']!r}) on {n} boreholes raised {r['raise']}", replay)
            else:
                ctx.count(f"outcome:BaseGHE:thermal-model-raise:{r['raise']} (outside the flow path)")
            continue
        want_vb = Fraction(c["vsys"]) / n
        want_m = want_vb * Fraction(rho_ref) / 1000
        for key, w in (("vb", want_vb), ("mghe", want_m), ("mbhe", want_m)):
            if not close(r[key], float(w), REL15):
                ck.finding(f"mass-flow-formula:BaseGHE:{key}", f"{c['klass']}: {key} = {r[key]!r}, expected V_sys/N(/1000·rho) = {float(w)!r} (V_sys={c['vsys']!r}, N={n}, rho of {fluid_label(_phys(c))}={rho_ref!r})", replay)

    # ---------------------------------------------------------------- (3) evaluate
    lines, where = [], []
    for c in pcases:
        r = byid[c["id"]]
        if "infra" in r:
            continue
        for k, sp in enumerate(r["res"]):
            lines.append(f"flow.init {COPY_OF[c['cls']]} {ft_code(sp['ft'])} {core.rs(sp['v'])} {sp['n']} {core.rs(sp['rho'])}")
            where.append((c["id"], k))
    out = drive(lines)
    model = {w: (out[i] if out is not None else None) for i, w in enumerate(where)}
    slow = []
    for c in pcases:
        r = byid[c["id"]]
        if "infra" in r:
            continue
        n, cls = c["n"], c["cls"]
        slow.append(r["s"])
        ctx.count("pipe:cls=" + cls); ctx.count("pipe:pipe=" + c["pipe"]); ctx.count("pipe:" + n_bucket(n)); ctx.count("pipe:g=" + c["g"])
        ctx.count("pipe:fluid=" + c["phys"]["fluid"][0]); ctx.count("pipe:field=" + c["field"][0]); ctx.count("pipe:tag=" + c["tag"].split(":")[0].rstrip("0123456789"))
        for k, sp in enumerate(r["res"]):
            replay = {"part": "pipeline", "case": c, "spec_index": k, "impl": sp}
            ft, v, rho = sp["ft"], sp["v"], sp["rho"]
            if k == 0 and "rho_ref" in sp:
                ck.check_density("search-class pipeline", _phys(c), rho, sp["rho_ref"], replay)
            ctx.case(("pipe", cls, c["pipe"], ft, v, n, rho, c["g"]), n >= 2 and ft in ("B", "S"), replay if (c["id"], k) in (("p3", 0), ("p3", 1)) else None)
            ctx.count("pipe:ft=" + ft_code(ft)); ctx.count("pipe:" + v_bucket(v))
            if "none" not in sp["ctor"]:
                ck.check_state("Bisection1D.__init__", cls, ft, v, n, rho, sp["ctor"], model[(c["id"], k)], replay, rho_ref=sp.get("rho_ref"))
            if sp["init"].get("via") != "ctor":
                ck.check_state("initialize_ghe", cls, ft, v, n, rho, sp["init"], model[(c["id"], k)], replay, rho_ref=sp.get("rho_ref"))
                if "raise" not in sp["init"] and sp["init"].get("calls") != 1:
                    ck.disagree("initialize_ghe-wiring", {"case": c["id"], "g-function calls": sp["init"].get("calls")})
        # equivalence BOREHOLE v  vs  SYSTEM fl(v·N)
        if len(r["res"]) >= 2 and r["res"][0]["ft"] == "B" and r["res"][1]["ft"] == "S" and n >= 1:
            a, b = r["res"][0], r["res"][1]
            replay = {"part": "pipeline", "case": c, "impl": [a, b]}
            if (a["v"] * n) / n != a["v"]:
                ctx.count("pipe:(vN)/N != v in floats")
            if "raise" not in a["init"] and "raise" not in b["init"]:
                ck.check_equiv("initialize_ghe", cls, c["pipe"], a["init"], b["init"], n, replay)
                ctx.count("pipe:equivalence pairs with R_b* and EFT compared")
            elif a["init"].get("raise") != b["init"].get("raise"):
                ck.finding(f"equiv:initialize_ghe:{cls}:{c['pipe']}:outcome", f"{cls} on {n} boreholes ({c['pipe']}): BOREHOLE {a['v']!r} -> {a['init'].get('raise', 'a result')}, "
                           f"SYSTEM {b['v']!r} -> {b['init'].get('raise', 'a result')}", replay)
            if "raise" not in a["ctor"] and "raise" not in b["ctor"] and "none" not in a["ctor"]:
                ck.check_equiv("Bisection1D.__init__", cls, c["pipe"], a["ctor"], b["ctor"], n, replay)
    ctx.extra["pipeline_case_seconds"] = {"max": max(slow, default=0), "mean": round(sum(slow) / max(len(slow), 1), 2)}
    # chains: m·N constant and decreasing through calculate_excess, R_b* reacts to the flow
    for name, ids in chains.items():
        pts = []
        for pid in ids:
            r = byid[pid]
            if "infra" in r or "raise" in r["res"][0]["init"]:
                continue
            st = r["res"][0]["init"]
            pts.append((st["nbh"], st["mbhe"], r["res"][0]["v"], r["res"][0].get("rho_ref", r["res"][0]["rho"]), st["rb"]))
        pts.sort()
        ctx.case(("chain", name, tuple(p[0] for p in pts)), True, {"part": "chain", "N": [p[0] for p in pts], "bhe.m_flow": [p[1] for p in pts], "R_b*": [p[4] for p in pts]} if name == "chain0" else None)
        for (n1, m1, v1, rho1, _), (n2, m2, _, _, _) in zip(pts, pts[1:]):
            if n1 < n2 and not m2 < m1:
                ck.finding(f"inverse-N:calculate_excess:{name}:monotone", f"SYSTEM {v1!r} L/s: bhe.m_flow_borehole {m1!r} at N={n1} and {m2!r} at N={n2}", {"part": "chain", "ids": ids})
        for n1, m1, v1, rho1, _ in pts:
            if not close(m1 * n1, float(Fraction(v1) * Fraction(rho1) / 1000), 2 * REL15):
                ck.finding(f"inverse-N:calculate_excess:{name}:product", f"SYSTEM {v1!r} L/s: bhe.m_flow_borehole·N = {m1 * n1!r} at N={n1}", {"part": "chain", "ids": ids})

    # ---------------------------------------------------------------- (5) evaluate
    for d in designs:
        r = byid[d["id"]]
        if "infra" in r:
            continue
        replay = {"part": "design", "case": d, "impl": {k: v for k, v in r.items() if k not in ("ghes", "gcalls")}}
        ft, v, rho = d["ft"], d["v"], r.get("rho_ref", r["rho"])
        ck.check_density("find_design", _phys(d), r["rho"], rho, replay)
        if "summary_rho" in r and not close(r["summary_rho"], rho, REL15):
            ck.finding(f"design:{d['geom']}:{ft}:summary-density", f"summary fluid_density {r['summary_rho']!r}, the specified fluid {fluid_label(_phys(d))} has {rho!r}", replay)
        ghes = r["ghes"]
        ctx.count("design:" + d["geom"] + ":" + ft)
        ctx.count("design:GHE objects observed", len(ghes))
        ctx.case(("design", d["geom"], ft, v, d["pipe"]), True, {k: val for k, val in replay["impl"].items() if k in ("search", "n", "H", "mbhe", "summary_m", "find_s")} | {"geom": d["geom"], "ft": ft, "v": v})
        for (n, vsys, mbhe, mghe) in ghes:
            w = oracle(ft, v, n, rho)
            if not (close(mbhe, float(w["m"]), REL15) and close(mghe, float(w["m"]), REL15) and close(vsys, float(w["vsys"]), REL15)):
                ck.finding(f"design:{d['geom']}:{ft}:ghe-flow", f"{d['geom']} search with {ft} {v!r}: a GHE of {n} boreholes has V_sys={vsys!r}, bhe.m_flow={mbhe!r}; expected {float(w['vsys'])!r}, {float(w['m'])!r}", replay)
                break
        ctx.count("design:g-function calculations observed", len(r.get("gcalls", [])))
        ctx.count("design:of which 3-height sizing calculations", sum(1 for g in r.get("gcalls", []) if g[2] == 3))
        for (n, mg, nh) in r.get("gcalls", []):
            w = oracle(ft, v, n, rho)
            if not close(mg, float(w["m"]), REL15):
                ck.finding(f"design:{d['geom']}:{ft}:g-function-flow" + (":sizing" if nh == 3 else ""),
                           f"{d['geom']} search with {ft} {v!r}: a g-function calculation ({nh} heights) for {n} boreholes was given m_flow_borehole={mg!r}; expected {float(w['m'])!r}", replay)
        if ft == "S":
            by_n = sorted(set((n, mbhe) for n, _, mbhe, _ in ghes))
            if any(n1 < n2 and not m2 < m1 for (n1, m1), (n2, m2) in zip(by_n, by_n[1:])):
                ck.finding(f"design:{d['geom']}:inverse-N", f"{d['geom']} search with SYSTEM {v!r}: per-borehole flow not decreasing in N: {by_n[:12]}", replay)
            ctx.count("design:distinct N seen under SYSTEM", len(by_n))
        if "search_failed" in r:
            ctx.count("design:search-failed")
            continue
        if r["search"] != SEARCH_OF_GEOM[d["geom"]]:
            ck.disagree("design-search-class", {"geom": d["geom"], "search": r["search"]})
        w = oracle(ft, v, r["n"], rho)
        if not close(r["summary_m"], float(w["m"]), REL15) or r["summary_m"] != r["mbhe"]:
            ck.finding(f"design:{d['geom']}:{ft}:summary-mass-flow", f"summary fluid_mass_flow_rate_per_borehole = {r['summary_m']!r}, expected {float(w['m'])!r} (N={r['n']})", replay)
        if not close(r["summary_rb"], r["rb"], REL9):
            ck.finding(f"design:{d['geom']}:{ft}:summary-rb", f"summary effective_borehole_resistance {r['summary_rb']!r} vs R_b* of the design {r['rb']!r}", replay)
        o = r["other"]
        for key, rel, fl in (("mbhe", REL15, 0.0), ("vsys", REL15, 0.0), ("rb", REL9, 0.0), ("max_eft", REL9, 1.0), ("min_eft", REL9, 1.0)):
            ck.dev("design B-vs-S:" + key, r[key], o[key])
            if not close(r[key], o[key], rel, fl):
                ck.finding(f"design:{d['geom']}:{ft}:equiv:{key}", f"{d['geom']} design ({r['n']} boreholes, H={r['H']:.3f}) under {ft} {v!r}: {key}={r[key]!r}; under {o['ft']} {o['v']!r}: {o[key]!r}", replay)

    # ---------------------------------------------------------------- (6) evaluate
    for c in hcases:
        r = byid[c["id"]]
        if "infra" in r:
            continue
        ctx.case(("history", c["geom"], c["pattern"], json.dumps(r["calls"])), True,
                 {"part": "history", "geom": c["geom"], "calls": r["calls"], "results": r["results"], "design": r["design"],
                  "last": {k: r["last"].get(k) for k in ("n", "H", "mbhe", "summary_m")}, "s": r["s"]} if c["id"] in ("h0", "h1") else None)
        ctx.count("history:geom=" + c["geom"]); ctx.count("history:pattern=" + c["pattern"]); ctx.count("history:find_between=" + str(c["find_between"]))
        ck.check_history(c, r)
        hist_lines.append(("g%d;" % GEOM_INDEX[c["geom"]]) + ";".join(f"{core.rs(v)},{ft},{'T' if th else 'F'}" for v, ft, _, th in r["calls"]))
        hist_impl.append({"results": ["g"] + r["results"], "design": r["design"], "src": c["id"]})

    # ---------------------------------------------------------------- (6b) set_design state machine vs the model, many cheap histories
    hout = drive([f"flow.hist {l}" for l in hist_lines])
    for i, (l, im) in enumerate(zip(hist_lines, hist_impl)):
        d = im["design"]
        ftc = {"BOREHOLE": "B", "SYSTEM": "S"}
        mine = ",".join(im["results"]) + " " + ("none" if d is None else f"{core.rs(d['v'])} {ftc.get(d['ft'], 'X')} {cls_index.get(d['cls'], -1)}")
        if hout is not None and hout[i] != mine:
            ck.disagree("set_design-history-correspondence", {"history": l, "impl": mine, "model": hout[i], "src": im["src"]})

    ctx.extra["max_relative_deviation"] = {k: float(f"{v:.3e}") for k, v in sorted(ck.maxdev.items())}
    ctx.programs = 6  # retrieve_flow x2 copies, BaseGHE.__init__, Bisection1D.__init__, initialize_ghe x2 copies (+ find_design end to end)
    ctx.exhaustive = False
    ctx.extra["exhaustive_part"] = "every field size N = 0..400 at retrieve_flow level for each of the four search classes"
    if ctx.tier == "thorough":
        ctx.leanchecker(["GHEVerif.Props.C20", "GHEVerif.Lemmas.Flow", "GHEVerif.Model.Flow", "GHEVerif.Gen.Flow", "GHEVerif.Gen.Funcs"])
