"""Run seeded_eval on a mutation directory and, when the change is confirmed (demo passes on the unchanged
tree and fails on the changed one), keep it under /verif/seeded/<name>/ with the evaluation recorded in
meta.json."""
import json
import shutil
import subprocess
import sys
from pathlib import Path

VERIF = Path(__file__).resolve().parent.parent


def main():
    src = Path(sys.argv[1]).resolve()
    name = sys.argv[2]
    extra = sys.argv[3:]
    r = subprocess.run(["/venv/bin/python", str(VERIF / "harness" / "seeded_eval.py"), str(src)] + extra, capture_output=True, text=True)
    try:
        ev = json.loads(r.stdout.strip().splitlines()[-1])
    except Exception:  # noqa: BLE001
        print(name, "EVAL-ERROR", r.stdout[-300:], r.stderr[-300:])
        return
    confirmed = ev.get("demo_unchanged_rc") == 0 and ev.get("demo_changed_rc") not in (0, None)
    meta = json.loads((src / "meta.json").read_text())
    meta["evaluation"] = {
        "confirmed_by_coordinator": confirmed,
        "demo_unchanged_rc": ev.get("demo_unchanged_rc"), "demo_changed_rc": ev.get("demo_changed_rc"),
        "ran": "harness/seeded_eval.py: patch applied to a scratch worktree of /repo HEAD, demo.py run before/after, then ./check <property> --tier quick with VERIF_REPO pointing at the patched tree",
        "checks": {k: {"exit": v["rc"], "first_lines": v["violations"][:4]} for k, v in ev.get("checks", {}).items()},
        "caught": ev.get("caught"),
    }
    print(name, "confirmed" if confirmed else "NOT-CONFIRMED", "caught" if ev.get("caught") else "MISSED",
          {k: v["rc"] for k, v in ev.get("checks", {}).items()}, [v["violations"][:2] for v in ev.get("checks", {}).values()][:1])
    if confirmed:
        dst = VERIF / "seeded" / name
        dst.mkdir(parents=True, exist_ok=True)
        shutil.copy(src / "patch.diff", dst / "patch.diff")
        shutil.copy(src / "demo.py", dst / "demo.py")
        (dst / "meta.json").write_text(json.dumps(meta, indent=1))


if __name__ == "__main__":
    main()
