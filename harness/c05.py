"""C05 — Design is not oversized: height is a root, the next smaller field fails.

Proof (lean/GHEVerif/Props/C05.lean, for every list length / threshold / sign pattern):
bisect1D_first_feasible, bisect1D_smallest_evaluated, height_is_root.
Tie to the code: the model `Search.bisect1D` / `Search.solveRoot` is run against the REAL
`Bisection1D.search`, `Bisection2D`, `BisectionZD` and `utilities.solve_root` driven with synthetic
excess tables (exhaustive over the property's finite family: all thresholds for lengths 1..64, all
sign patterns up to length 10) and, in c01.py's cache, against real thermal runs.
"""
from __future__ import annotations

import itertools

import core
import designlib
import searchlib

PROPERTY = "C05"
LEVEL = "proof"
MANIFEST = {
    "text": "Lean theorems: under a monotone excess the integer bisection returns exactly the first feasible candidate and has evaluated its failing predecessor (every list length and threshold); for any sign pattern the returned candidate has the fewest boreholes among all evaluated feasible ones; a bracketed height is a root within c*tol. The model is tied to the real search classes by exhaustive enumeration of the property's finite family and to solve_root by differential runs.",
    "note": "thermal simulation abstracted as an arbitrary excess oracle; Brent contract and Lipschitz constant are hypotheses measured on real runs (C01 cache); sign/check_bracket regenerated from utilities.py",
    "technique": "Lean 4 proof (loop invariant + variant) about a model validated against the real search classes by exhaustive enumeration",
    "design_ref": "DESIGN.md §3 C05",
}


def _case_real(c):
    kind, args = c
    if kind == "b1d":
        return searchlib.real_b1d(*args)[:2]
    if kind == "b2d":
        return searchlib.real_b2d(*args)
    if kind == "bzd":
        return searchlib.real_bzd(*args)
    if kind == "root":
        return searchlib.real_solve_root(*args)
    if kind == "size":
        return searchlib.real_size(args), ""
    raise ValueError(kind)


def _model_line(c):
    kind, args = c
    if kind == "b1d":
        return searchlib.model_line_b1d(*args)
    if kind == "b2d":
        return searchlib.model_line_b2d(*args)
    if kind == "bzd":
        return searchlib.model_line_bzd(*args)
    if kind == "root":
        return searchlib.model_line_root(*args)
    if kind == "size":
        return "ping"          # the state-machine model of GHE.size is compared in C12; here the predicate decides
    raise ValueError(kind)


def monotone_cases(max_len):
    out = []
    for n in range(1, max_len + 1):
        counts = [(k // 2 + 1) * (k // 2 + 1 + k % 2) for k in range(n)]  # near-square counts 1,2,4,6,9,...
        for k in range(0, n + 1):
            ehi = [(1.0 + 0.01 * i) if i < k else -(1.0 + 0.013 * i) for i in range(n)]
            elo = [5.0 + 0.01 * i for i in range(n)]
            out.append(("b1d", (counts, elo, ehi, None, False, 15)))
    return out


def pattern_cases(max_len):
    out = []
    for n in range(1, max_len + 1):
        counts = list(range(1, n + 1))
        for pat in itertools.product([1, -1], repeat=n):
            ehi = [p * (1.0 + 0.01 * i) for i, p in enumerate(pat)]
            out.append(("b1d", (counts, [5.0] * n, ehi, None, False, 15)))
    return out


def run(ctx: core.Ctx):
    ctx.rule = ("real Bisection1D/2D/ZD.search and solve_root with synthetic excess tables vs the Lean model: all threshold positions for "
                "list lengths 1..64 (monotone), all sign patterns up to length 10 (8 in quick), random tables with ties/zeros/caps/"
                "continue flag/small max_iter; distinct = distinct (kind, table, cfg); non-trivial = the search reaches the bisection loop or an unmet branch")
    ctx.trusted_base += [
        "translator translate/gen.py + py2lean.py (sign, check_bracket from utilities.py)",
        "hand-written model Model/Search.lean, tied to the code by running the unmodified search methods on synthetic excess tables",
        "thermal simulation = arbitrary oracle E (its own properties: C09-C11); scipy brentq = BrentSpec hypothesis",
    ]
    ctx.assumptions += ["first-feasible theorem assumes: monotone sign pattern, strictly increasing counts, no excess exactly zero, len <= 2^max_iter, E(0,minH) > 0 (ties in the excess are allowed since the F32 repair)"]
    ctx.lean_prepare()

    rng = ctx.rng
    quick = ctx.tier == "quick"
    cases = monotone_cases(64) + pattern_cases(8 if quick else 10)
    n_exh = len(cases)
    # the same monotone families with excess values a rounding error away from zero at and around the threshold
    for kind, (counts, elo, ehi, cap, cont, mi) in monotone_cases(24):
        cases.append((kind, (counts, elo, [v * 4e-7 for v in ehi], cap, cont, mi)))
    vals = [-2.0, -1.0, 0.0, 1.0, 2.0, -1.0, 1.0, 0.5, -0.5]
    for _ in range(2000 if quick else 20000):
        n = rng.randint(1, 14)
        counts = [rng.randint(1, 9) for _ in range(n)]
        if rng.random() < 0.7:
            counts.sort()
        ehi = [rng.choice(vals) for _ in range(n)]
        elo = [rng.choice(vals) for _ in range(n)]
        if rng.random() < 0.15:
            # a plateau: every feasible candidate has exactly the same excess (the lower limit binds at the undisturbed ground temperature)
            th = rng.randint(0, n)
            ehi = [rng.choice([0.5, 1.0, 2.0]) if j < th else -0.3 for j in range(n)]
        if rng.random() < 0.2:
            # excess values a rounding error away from the limit (|excess| << sizing tolerance): the sign decides, not the size
            sc = rng.choice([1e-7, 5e-7, 1e-9, 1e-12])
            ehi, elo = [v * sc for v in ehi], [v * sc for v in elo]
        cases.append(("b1d", (counts, elo, ehi, rng.choice([None, 1, 2, 3, 5, 9, 100]), rng.random() < 0.5, rng.choice([0, 1, 2, 3, 15, 15]))))
    cases += searchlib.nested_cases(rng, 600 if quick else 6000)
    cases += searchlib.root_cases(rng, 300 if quick else 3000)
    cases += [("size", c) for c in searchlib.size_cases(rng, 300 if quick else 3000)]

    real = core.pool_map(_case_real, cases, chunksize=64)
    model = ctx.driver([_model_line(c) for c in cases])
    first_diff = None
    for idx, (c, r) in enumerate(zip(cases, real)):
        kind, args = c
        out_r, tr_r = r
        nontrivial = True
        if model is not None:
            mo, path, mt = searchlib.split_model(model[idx])
            ctx.count(f"{kind}:{mo.split()[0] if not mo.startswith('selected') else 'selected:' + str(path)}")
            nontrivial = path != "bracket0"
            if kind == "size":
                same = True
            elif kind == "root":
                rk, rv = out_r
                mk = mo.split()[0]
                same = (rk == mk) or (rk.startswith("bracketed") and mk == "bracketed") or (rk.startswith("raise") and mo == rk)
                if same and rv is not None:
                    same = abs(float(core.pr(mo.split()[1])) - rv) <= 2 * (1e-6 + 1e-6 * args[4])
            else:
                same = mo == out_r and mt == tr_r
            if not same:
                ctx.disagreements_checked += 1
                if first_diff is None:
                    first_diff = {"case": c, "real": r, "model": model[idx]}
        ctx.case((kind, repr(args)), nontrivial, {"kind": kind, "args": args, "real": r} if idx in (5, n_exh - 3, len(cases) - 1) else None)
        # ---- property predicate on the real outcome (independent of the model)
        if kind == "b1d":
            counts, elo, ehi, cap, cont, mi = args
            searchlib.check_b1d_exchanger(ctx, args, out_r)
            check_b1d_predicate(ctx, idx < n_exh, counts, elo, ehi, cap, cont, mi, out_r, tr_r)
        elif kind in ("b2d", "bzd"):
            searchlib.check_nested_predicate(ctx, kind, args, out_r, tr_r)
        elif kind == "root":
            searchlib.check_root_predicate(ctx, args, out_r)
        elif kind == "size":
            searchlib.check_size_predicate(ctx, args, out_r)
    if first_diff is not None:
        ctx.broken.append("search-model-correspondence")
        ctx.extra["first_disagreement"] = first_diff
    real_run_predicates(ctx)
    ctx.programs = 4
    ctx.extra["exhaustive_part"] = f"{n_exh} searches: all thresholds for lengths 1..64 + all sign patterns up to length {8 if quick else 10}"
    if ctx.tier == "thorough":
        ctx.leanchecker(["GHEVerif.Props.C05", "GHEVerif.Lemmas.Search", "GHEVerif.Model.Search"])


def check_b1d_predicate(ctx, exhaustive_family, counts, elo, ehi, cap, cont, mi, out_r, tr_r):
    """C05's sentences on the real Bisection1D result, with an oracle written from the statement."""
    n = len(counts)
    if not out_r.startswith("selected"):
        return
    _, k, hl = out_r.split()
    k = int(k)
    tr = [(int(t.split(":")[0]), t.split(":")[1]) for t in tr_r.split()]
    evaluated_hi = [i for i, h in tr if h == "H"]
    feasible_eval = [i for i in evaluated_hi if ehi[i] < 0]
    xr = n - 1 if cap is None else max((i for i in range(n) if counts[i] < cap), default=None)
    went_bisect = len(tr) > 3 or (hl == "H" and not ((elo[0] < 0 < ehi[0]) or (ehi[0] < 0 < elo[0])) and not cont)
    if hl == "H" and ehi[k] < 0 and k in evaluated_hi:
        # drilling bound: no evaluated feasible candidate with fewer boreholes (ties in the excess included: F32)
        better = [j for j in feasible_eval if counts[j] < counts[k]]
        if better and not ((elo[0] < 0 < ehi[0]) or (ehi[0] < 0 < elo[0])):
            ctx.finding("b1d-drilling-bound", f"returned field {k} ({counts[k]} boreholes) although evaluated field {better[0]} ({counts[better[0]]}) meets the limits",
                        {"counts": counts, "elo": elo, "ehi": ehi, "cap": cap, "cont": cont, "max_iter": mi, "real": out_r, "trace": tr_r})
    # monotone family: first feasible + predecessor evaluated and failing
    signs = [v < 0 for v in ehi[: (xr + 1 if xr is not None else n)]]
    if xr is not None and mi >= 7 and all(v != 0 for v in ehi) and elo[0] > 0 and any(signs) and not signs[0] and signs == sorted(signs) \
            and all(a < b for a, b in zip(counts, counts[1:])):
        kth = signs.index(True)
        if not (k == kth and hl == "H" and (kth - 1) in evaluated_hi):
            ctx.finding("b1d-first-feasible", f"monotone excess with threshold {kth}: returned {out_r}, trace {tr_r}",
                        {"counts": counts, "elo": elo, "ehi": ehi, "cap": cap, "cont": cont, "max_iter": mi, "real": out_r, "trace": tr_r})
        ctx.count("predicate:first-feasible-checked")


def real_run_predicates(ctx):
    """Recorded real design runs (shared with C01/C02/C12): the evaluation log must be faithful (a logged
    excess equals a fresh search-stage evaluation of that field at that height), the predecessor of the
    selected candidate must have been evaluated and fail at maximum height, an unclamped height is a
    root of the sizing objective."""
    cfgs, recs, cached = designlib.get_runs(ctx)
    for cfg, r in zip(cfgs, recs):
        if r["outcome"] == "harness-error":
            ctx.infra(f"run {r['id']}: {r.get('message')}")
            continue
        g = cfg["geom"][0]
        rep = {"cfg": r["cfg"], "profile": cfg["profile"], "scale": cfg["scale"], "outcome": r["outcome"], "nbh": r.get("nbh"), "H": r.get("H"), "sel_key": r.get("sel_key")}
        for chk in r.get("eval_checks", []):
            ctx.case(("real-eval", r["id"], chk["where"], chk["list"], chk["idx"], chk["h"]), True)
            ctx.count("real:eval-rechecked")
            tol = 1e-6 * max(1.0, abs(chk["fresh"]))
            if abs(chk["logged"] - chk["fresh"]) > tol:
                ctx.finding("search-log-not-faithful", f"{g}: the search logged excess {chk['logged']:.6f} for field {chk['idx']} ({chk['nbh']} boreholes) at H={chk['h']}, a fresh evaluation of that field at that height gives {chk['fresh']:.6f}",
                            {**rep, "evaluation": chk})
        # a second project on the same manager: its height must be a root for ITS configuration
        sec = r.get("second")
        if sec and sec.get("outcome") == "design" and "oracle_a" in sec:
            cb = next((c for c in cfgs if c["id"] == sec["id"]), None)
            rb = next((x for x in recs if x["id"] == sec["id"]), None)
            if cb is not None and rb is not None:
                ea2 = designlib.excess_of(cb, *sec["oracle_a"])
                same = rb["outcome"] == "design" and rb["nbh"] == sec["nbh"] and abs(rb["H"] - sec["H"]) <= 1e-6 * max(1.0, abs(rb["H"]))
                escape_possible = designlib.is_escape(sec) if sec.get("evals") else (bool(cb.get("cont")) and not (same and not designlib.is_escape(rb)))
                ctx.case(("second-design", r["id"], sec["id"]), True)
                if not escape_possible and sec["H"] > cb["min_h"] + 1e-6 and ea2 < -1e-2:
                    ctx.finding("height-not-a-root-on-reused-manager", f"{cb['geom'][0]}: the second project on a re-used manager returned {sec['nbh']} x {sec['H']:.3f} m, above the minimum height, "
                                f"with an excess of {ea2:.4g} K for its own configuration (fresh manager: {rb.get('nbh')} x {rb.get('H')})",
                                {"first_project": r["cfg"], "second_project": rb["cfg"], "mode": sec.get("mode"), "reused": {k: sec.get(k) for k in ("nbh", "H", "oracle_a")}})
        if r["outcome"] != "design":
            continue
        # total drilling never exceeds count x max height of a candidate the search evaluated and found feasible
        if g != "ROWWISE":
            feas = [e for e in r.get("evals", []) if e["h"] == cfg["max_h"] and e["excess"] < 0 and e.get("nbh")]
            if feas:
                best = min(feas, key=lambda e: e["nbh"])
                ctx.count("real:drilling-bound-checked")
                if r["nbh"] * r["H"] > best["nbh"] * cfg["max_h"] * (1 + 1e-9):
                    ctx.finding("drilling-exceeds-evaluated-feasible-candidate", f"{g}: returned {r['nbh']} x {r['H']:.3f} m = {r['nbh'] * r['H']:.1f} m of drilling although the search evaluated a {best['nbh']}-borehole field "
                                f"that meets the limits at max height (excess {best['excess']:.4g} K): bound {best['nbh'] * cfg['max_h']:.1f} m", {**rep, "feasible_evaluation": best})
        if designlib.is_escape(r):
            continue
        ctx.case(("real-design", r["id"], r["loads_sha"]), True)
        # the returned height is a root of the excess (or the clamp at the minimum height)
        live = designlib.excess_of(cfg, r["live_max"], r["live_min"])
        if r["H"] > cfg["min_h"] + 1e-6 and live < -1e-2:
            ctx.finding("returned-height-not-sized", f"{g}: returned {r['nbh']} x {r['H']:.3f} m, above the minimum height {cfg['min_h']}, where the excess is {live:.4g} K: the height was not brought to the root",
                        {**rep, "live_max": r["live_max"], "live_min": r["live_min"]})
        root = r["roots"][-1] if r.get("roots") else None
        if root and root["f_lower"] * root["f_upper"] < 0:
            ea = designlib.excess_of(cfg, *r["oracle_a"])
            ctx.count("real:bracketed-root")
            if abs(ea) > 1e-3:
                ctx.finding("height-not-a-root", f"{g}: bracketed sizing returned H={r['H']:.4f} but the excess there is {ea:.4g} K (fresh re-simulation)", rep)
        if g in ("NEARSQUARE", "RECTANGLE", "BIRECTANGLE") and r.get("sel_key"):
            last = designlib.final_search_evals(r)
            first3 = last[:3]
            if len(first3) == 3 and designlib.classify_pre(first3[0]["excess"], first3[1]["excess"], first3[2]["excess"]) == "bisect":
                pred = [e for e in last if e["idx"] == r["sel_key"] - 1 and e["h"] == cfg["max_h"]]
                ctx.count("real:predecessor-checked")
                if not pred:
                    ctx.finding("predecessor-not-evaluated", f"{g}: selected candidate {r['sel_key']} but candidate {r['sel_key'] - 1} was never evaluated at max height", rep)
                elif not pred[-1]["excess"] > 0:
                    # only a violation under a monotone excess; report when every evaluated smaller field fails
                    smaller_ok = [e for e in last if e["idx"] < r["sel_key"] - 1 and e["h"] == cfg["max_h"] and e["excess"] < 0]
                    if not smaller_ok:
                        ctx.finding("predecessor-feasible", f"{g}: candidate {r['sel_key'] - 1} meets the limits at max height (excess {pred[-1]['excess']:.4g}) yet candidate {r['sel_key']} was returned", rep)
