"""C06 — Hybrid time-step loads conserve every month's ground energy.

Proof: lean/GHEVerif/Props/C06.lean — for arbitrary monthly arrays (not only those derived from a
profile) the entries `process_month_loads` emits for a month integrate exactly to `cl − hl`
(`month_energy`: every month whose pulses are on different days or that has at most one pulse;
`month_energy_partial`: shared day, under the no-clamp hypothesis), the horizon sums
(`horizon_energy_partial`, `horizon_energy_years_partial`) for any number of months / whole years,
and `split_totals` ties `cl − hl` to the hourly profile.  The calendar is the *translated* source
(Gen.monthdays / firstMonthHour / lastMonthHour) with closed forms proved for every month.
`month_energy_fails_when_clamped` proves the unconditional statement false of the code (1 January,
both peaks on the day, duration > 26 h: known finding same-day-pulse-clamped, reproduced below);
`zero_peak_month_conserved` is the regression of the repaired zero-peak-direction defect (53c648d).

Tie to the code: (1) Model/Hybrid.lean run against the real `HybridLoad` constructor on the same
hourly profile and the implementation's own 48 `g_sts` samples: monthly arrays, durations and the
whole (load, hour) sequence for several horizons; (2) arbitrary monthly arrays through the real
`process_month_loads` vs the model; (3) the translated calendar vs the real functions.
Predicate: exact month sums of the input profile vs the signed month integrals of the
implementation's `load`/`hour` arrays.
Glue streams (every tier): call-history sequences of HybridLoad objects with different load years;
real GHE objects (GHE.__init__, start months 1/2/4/7/12, leap load years with load on 29 Feb and
31 Dec) inspected before and after simulate(HYBRID)/size — arrays bitwise unchanged, C06 and the C08
axis predicate still hold; real design searches (all six design classes, BOREHOLE and SYSTEM flow) with explicit
load_years — the returned GHE's hybrid load carries the requested years and the input's monthly energy.
"""
from __future__ import annotations

import math
from fractions import Fraction

import core
import hybridlib as H

PROPERTY = "C06"
LEVEL = "proof"
MANIFEST = {
    "text": "Every simulated month of the hybrid load sequence integrates to the month's net hourly ground load",
    "note": "exact identity proved for arbitrary monthly arrays; clamped same-day pulses on 1 January and degenerate durations of constant months are known findings",
    "technique": "Lean 4 proof over a Rat model + differential run against the real HybridLoad + Fraction oracle",
    "design_ref": "DESIGN.md §5 C06",
}


def tol_month(ms):
    return 1e-8 * float(ms["cl"] + ms["hl"]) + 1e-9


def classify(case, raw, impl, end, ms, mt):
    """Month-energy predicate on one run of the implementation."""
    run = impl["runs"][end]
    return classify_arrays(run["load"], run["hour"], ms, mt, case.get("start", 1), end)


def classify_arrays(load, hour, ms, mt, start, end, year=2019):
    """Month-energy predicate on one (load, hour) sequence: signed integrals between consecutive
    month-end breakpoints of the calendar year `year` vs the month's net load `ms[m]["net"]`.
    Returns (n_months_ok, failures) with failures = [(key, month, got, want, detail)].
    The known-finding signature `same-day-pulse-clamped` requires BOTH pulses on the same day of a
    retained month and a clamped start; a single clamped pulse conserves energy on the unchanged code
    (it is shifted, not shortened) and is judged by the plain energy predicate."""
    fails = []
    degenerate = any((not math.isfinite(r[k])) or r[k] > 24 * 27 or r[k] < 0 for r in mt for k in ("dcl", "dhl"))
    if degenerate or not all(math.isfinite(x) for x in load + hour):
        # a duration that is inf/nan or longer than any month: peak == average up to rounding
        fails.append(("degenerate-duration" if degenerate else "nonfinite-sequence", None, None, None,
                      "a peak duration is non-finite, negative or longer than a month: " + str([(r["dcl"], r["dhl"]) for r in mt])))
        return 0, fails
    ends = [H.oracle_month_end(i, year) for i in range(start, end + 1)]
    ints = H.month_integrals(load, hour, ends)
    if ints is None:
        fails.append(("month-end-breakpoint-missing", None, None, None, "a month end is not a breakpoint of the hour array"))
        return 0, fails
    # rate of month i = load of the entry that ends at the month end
    ok = 0
    j = 1
    for i, got in zip(range(start, end + 1), ints):
        m = (i - 1) % len(ms)
        want = ms[m]["net"]
        while hour[j] != float(H.oracle_month_end(i, year)) or j < 2:
            j += 1
        rate = Fraction(load[j])
        if abs(float(got - want)) <= tol_month(ms[m]):
            ok += 1
            continue
        r = mt[(i - 1) % len(mt)]
        retained = H.ipf(i, start, end)
        noon_c = (H.oracle_month_end(i - 1, year) + 1) + 24 * r["dayc"] + 12
        noon_h = (H.oracle_month_end(i - 1, year) + 1) + 24 * r["dayh"] + 12
        detail = {"month": i, "got_kWh": float(got), "want_kWh": float(want), "rate_kW": float(rate), "record": r}
        if retained and r["dayc"] == r["dayh"] and r["pcl"] > 0 and r["phl"] > 0 and (r["dcl"] / 2 > noon_c or r["dhl"] / 2 > noon_h):
            fails.append(("same-day-pulse-clamped", i, got, want, detail))
        else:
            fails.append(("month-energy", i, got, want, detail))
    return ok, fails


def history_stream(ctx, phys, n_seq):
    """Call-history stream (shared with C08): sequences of real HybridLoad objects with years [2019] /
    [2020] (leap, 8784-hour profile) / [2021] and different horizons, interleaved with direct calendar
    helper calls, each sequence executed in order in ONE fresh interpreter.  The energy predicate is
    applied to every object: month integrals between consecutive month-end breakpoints of the object's
    own calendar year vs the exact month sums of its own profile.  Replay = the call sequence."""
    from concurrent.futures import ThreadPoolExecutor

    seqs = H.gen_histories(ctx.rng, n_seq)
    with ThreadPoolExecutor(8) as ex:
        outs = list(ex.map(lambda q: H.history_subprocess(q, phys), seqs))
    for q, (seq, o) in enumerate(zip(seqs, outs)):
        if "error" in o:
            ctx.infra("history run failed: " + o["error"][-200:])
            continue
        for pos, (it, res) in enumerate(zip(seq, o["results"])):
            if it["op"] != "hybrid":
                continue
            y, n = it["years"][0], it["months"]
            kind = it["case"]["kind"]
            ctx.count(f"history:object-years-{y}")
            ctx.case(("history", q, pos, y, n, kind, it["case"]["pseed"]), "load" in res)
            if "raise" in res:
                ctx.count("history:raise-" + res["raise"])
                continue
            raw = H.raw_of_case(it["case"])
            ms = H.month_sums(raw, y)
            mt = H.month_table(res["monthly"])
            ok, fails = classify_arrays(res["load"], res["hour"], ms, mt, 1, n, year=y)
            ctx.count("history:months-conserved", ok)
            replay = {"call_sequence_in_one_process": seq[:pos + 1], "failing_call": pos, "phys": phys,
                      "how": "hybridlib.history_run(call_sequence, phys) in a fresh interpreter (python harness/hybridlib.py --history)"}
            for key, month, got, want, detail in fails:
                ctx.count("history-fail:" + key)
                if key == "month-end-breakpoint-missing" and all(math.isfinite(x) for x in res["load"] + res["hour"]):
                    # the axis does not follow the object's own calendar: report the energy over the horizon as well
                    tot = sum(Fraction(a) * (Fraction(h1) - Fraction(h0)) for a, h0, h1 in zip(res["load"][1:], res["hour"][:-1], res["hour"][1:]))
                    wtot = sum(ms[(i - 1) % 12]["net"] for i in range(1, n + 1))
                    detail = f"{detail}; the sequence integrates to {float(tot):.3f} kWh over the horizon, the profile's net load over {n} months is {float(wtot):.3f} kWh"
                what = (f"history sequence {q}, call {pos}: HybridLoad(years=[{y}], {n} months, {kind}) after {pos} earlier call(s): " +
                        (str(detail) if month is None else
                         f"month {month} integrates to {float(got):.6f} kWh, the profile's net load is {float(want):.6f} kWh"))
                ctx.finding(key if key in ("same-day-pulse-clamped", "degenerate-duration") else "history-" + key, what, dict(replay, detail=detail))
            if not fails:
                tot = sum(Fraction(a) * (Fraction(h1) - Fraction(h0)) for a, h0, h1 in zip(res["load"][1:], res["hour"][:-1], res["hour"][1:]))
                want = sum(ms[(i - 1) % 12]["net"] for i in range(1, n + 1))
                if abs(float(tot - want)) > sum(tol_month(ms[(i - 1) % 12]) for i in range(1, n + 1)):
                    ctx.finding("history-horizon-energy", f"history sequence {q}, call {pos}: HybridLoad(years=[{y}], {n} months): total {float(tot)} kWh "
                                f"vs the profile's {float(want)} kWh", replay)
    ctx.count("history:sequences", len(seqs))


def _object_predicates(ctx, label, snap, ms, start, end, years, replay, prefix):
    """C06 month-energy predicate + C08 axis predicate on one snapshot of a hybrid load."""
    import c08

    mt = H.month_table(snap["monthly"])
    yr = years if len(years) > 1 else years[0]
    ok, fails = classify_arrays(snap["load"], snap["hour"], ms, mt, start, end, year=yr)
    for key, month, got, want, detail in fails:
        ctx.count(prefix + "fail:" + key)
        what = f"{label}: " + (str(detail) if month is None else
                               f"month {month} integrates to {float(got):.6f} kWh, the input's net load is {float(want):.6f} kWh")
        ctx.finding(key if key in ("same-day-pulse-clamped", "degenerate-duration") else prefix + key, what, dict(replay, detail=detail))
    recs = [(r["pcl"], r["phl"], r["dayc"], r["dayh"], r["dcl"], r["dhl"]) for r in mt]
    if len(recs) == 12 and all(math.isfinite(x) for x in snap["load"] + snap["hour"]):
        c08.axis_predicate(ctx, label, snap["load"], snap["hour"], recs, start, end, replay, year=yr, key_prefix=prefix + "axis-")
    return ok, fails


def ghe_history_stream(ctx, phys, n):
    """The hybrid load as held by a real GHE (built through GHE.__init__, incl. leap load years with
    non-zero load on 29 February and 31 December, and start months other than January), before and
    after simulate(HYBRID) / size: the arrays must stay bitwise the same and keep satisfying C06/C08."""
    jobs = (H.ghe_history_jobs(ctx.rng, n, phys, "wave") + H.ghe_history_jobs(ctx.rng, max(2, n // 4), phys, "peaky")
            + H.ghe_history_jobs(ctx.rng, max(2, n // 4), phys, "end_plateau"))
    outs = core.pool_map(H.run_ghe_history, jobs)
    for a, o in zip(jobs, outs):
        label0 = f"GHE(start_month={a['start']}, end_month={a['end']}, load_years={a['years']}, {a['hours']}-hour profile)"
        ctx.count(f"ghe-history:start-{a['start']}/years-{a['years'][0]}")
        replay = {"builder": "hybridlib.run_ghe_history", "args": {k: v for k, v in a.items() if k != "phys"}, "phys": a["phys"],
                  "calls": "GHE(...); then simulate(HYBRID), simulate(HYBRID), size(HYBRID) on the same object; hybrid_load inspected after each"}
        if "raise" in o:
            ctx.case(("ghe-history", a["start"], a["end"], a["years"][0], a["seed"]), False)
            ctx.finding("ghe-history-raise", f"{label0} raised {o['raise']}", replay)
            continue
        raw = H.profile_of(a)
        ms = H.month_sums(raw, a["years"][0])
        first = o["steps"][0][1]
        for k, (name, snap) in enumerate(o["steps"]):
            label = f"{label0} after {[n for n, _ in o['steps'][1:k + 1]] or 'construction'}"
            ctx.case(("ghe-history", a["start"], a["end"], a["years"][0], a["seed"], k), True,
                     {"ghe_history": label0, "steps": [n for n, _ in o["steps"]]} if k == len(o["steps"]) - 1 and len(ctx.samples) < 6 else None)
            if snap["years"] != list(a["years"]):
                ctx.finding("ghe-history-years", f"{label}: hybrid_load.years = {snap['years']}", dict(replay, step=k))
            if k > 0 and (snap["hour"] != first["hour"] or snap["load"] != first["load"] or snap["monthly"] != first["monthly"]):
                j = next((j for j, (x, y) in enumerate(zip(snap["hour"], first["hour"])) if x != y), None)
                ctx.finding("ghe-history-arrays-changed", f"{label}: hybrid_load arrays are no longer those of the freshly built object"
                            + (f" (hour[{j}] = {snap['hour'][j]} was {first['hour'][j]})" if j is not None else ""), dict(replay, step=k))
            ok, fails = _object_predicates(ctx, label, snap, ms, a["start"], a["end"], a["years"], dict(replay, step=k), "ghe-history-")
            ctx.count("ghe-history:months-conserved", ok)
            if fails:
                break


def design_search_stream(ctx, phys, n):
    """Real design searches (cheap lots) through DesignNearSquare / DesignRectangle with explicit
    load_years: the hybrid load of the RETURNED GHE must carry the requested years and the input's
    energy month by month."""
    jobs = H.design_search_jobs(ctx.rng, n, phys, "peaky")
    outs = core.pool_map(H.run_design_search, jobs)
    for a, o in zip(jobs, outs):
        label = f"{a['design']} design search, load_years={a['years']}, {a['months']} months: hybrid load of the returned GHE"
        replay = {"builder": "hybridlib.run_design_search", "args": {k: v for k, v in a.items() if k != "phys"}, "phys": a["phys"]}
        ctx.count(f"design-search:{a['design']}/years-{'+'.join(map(str, a['years']))}")
        if "raise" in o:
            ctx.case(("design-search", a["design"], tuple(a["years"]), a["seed"]), False)
            ctx.finding("design-search-raise", f"{label}: the search raised {o['raise']}", replay)
            continue
        ctx.case(("design-search", a["design"], tuple(a["years"]), a["seed"]), True,
                 {"design_search": a["design"], "years": a["years"], "boreholes": o["n_boreholes"]} if len(ctx.samples) < 6 else None)
        snap = o["returned"]
        raw = H.profile_of(a)
        ny = len(a["years"])
        ms = H.month_sums(raw, a["years"] if ny > 1 else a["years"][0], 12 * ny)
        if snap["years"] != list(a["years"]):
            # one finding for the dropped calendar, with its consequence for this property: the sequence
            # judged against the REQUESTED calendar and the input
            snap2 = dict(snap, monthly=(snap["monthly"] * ny)[:12 * ny])
            _, fails = classify_arrays(snap2["load"], snap2["hour"], ms, H.month_table(snap2["monthly"]), 1, a["months"],
                                       year=a["years"] if ny > 1 else a["years"][0])
            f0 = next((f for f in fails if f[1] is not None), None)
            cons = (f"; e.g. month {f0[1]} integrates to {float(f0[2]):.6f} kWh, the input's net load is {float(f0[3]):.6f} kWh ({len(fails)} month(s) off)"
                    if f0 else ("; " + str(fails[0][4]) if fails else ""))
            ctx.finding("design-search-load-years-dropped:" + a["design"],
                        f"{label}: hybrid_load.years = {snap['years']} instead of the requested {a['years']}{cons}", replay)
            continue
        ok, _ = _object_predicates(ctx, label, snap, ms, 1, a["months"], a["years"], replay, "design-search-")
        ctx.count("design-search:months-conserved", ok)


def multiyear_stream(ctx, phys):
    """HybridLoad built directly with multi-year `years` lists, with and without a leap year among
    them.  Known finding `multi-year-leap-calendar`: first_month_hour / last_month_hour count ALL
    preceding months with the calendar of the year of the queried month (years[(month-1)//12]), so with a
    leap year in the list the month ends of the other years are 24 h off and months at a year boundary
    get an averaging period that does not match their breakpoints."""
    jobs = H.multiyear_jobs(ctx.rng, phys)
    outs = core.pool_map(H.run_multiyear, jobs)
    for a, o in zip(jobs, outs):
        years = a["years"]
        n = 12 * len(years)
        label = f"HybridLoad(years={years}, {n} months, one profile per load year)"
        replay = {"builder": "hybridlib.run_multiyear", "args": {k: v for k, v in a.items() if k != "phys"}, "phys": a["phys"]}
        ctx.count("multi-year:" + ("with-leap-year" if H.has_leap(years) else "ordinary-years"))
        if "raise" in o:
            ctx.case(("multi-year", tuple(years), a["seed"]), False)
            ctx.finding("multi-year-raise", f"{label} raised {o['raise']}", replay)
            continue
        ctx.case(("multi-year", tuple(years), a["seed"]), True)
        snap = o["snap"]
        raw = H.multiyear_profile(a["seed"], years)
        ms = H.month_sums(raw, years, n)
        # (since the F33 repair, fbb6485, lists with a leap year are judged like any other: a failure there is an ordinary finding)
        ok, _ = _object_predicates(ctx, label, snap, ms, 1, n, years, replay, "multi-year-")
        ctx.count("multi-year:months-conserved", ok)


def run(ctx: core.Ctx):
    ctx.rule = ("case = (hourly profile, borehole/ground parameter set, horizon); profiles of 16 kinds (mixed, heating-only, cooling-only, "
                "months with zero load, one-sided months, peaks forced on the first/last day, both peaks on the same day, peak in the last hour "
                "of the year, multi-hour plateaus, 1-January plateau (both directions), one-direction plateau over 31 Dec/1 Jan (heating / cooling), constant, monthly-constant, Atlanta scaled ±); horizons from 1..36 and "
                "{59,60,61,119,120,240,359,360}; plus arbitrary monthly arrays (tame/long/wild durations) through process_month_loads and call-history sequences with years 2019/2020/2021; "
                "distinct = distinct (kind, seed, parameter set, horizon); non-trivial = the run returned a sequence with at least one retained pulse")
    ctx.trusted_base += [
        "translator translate/gen.py + gen_hybrid.py (monthdays/first_month_hour/last_month_hour as functions; 1e-6, 12, 0.1 literals of ground_loads.py)",
        "hand-written model Model/Hybrid.lean (single-year path, start_month >= 1), tied to the code by differential runs of the whole constructor and of process_month_loads",
        "g_sts enters the model as its 48 sampled values (parameter); scipy interp1d modelled as sort + searchsorted + linear extrapolation",
        "CPython/numpy float rounding within 1e-9 relative (durations 1e-7)",
    ]
    ctx.assumptions += [
        "years=[2019] (the only value the tool passes): non-leap 8760-hour years; multi-year `years` lists are not modelled",
        "'to floating-point accuracy' is read as |month integral − net| <= 1e-8·(cl+hl) + 1e-9 kWh",
        "constant months (peak == average) are near-boundary for the duration (float noise decides the branch); their sequences are compared on the implementation's own monthly arrays",
    ]
    ctx.lean_prepare()
    quick = ctx.tier == "quick"
    n_phys = 5 if quick else 40
    physs = H.phys_sets(ctx.rng, n_phys)

    # ------------------------------------------------------------------ calendar
    bad = H.calendar_correspondence(ctx, 420 if quick else 1200)
    if bad:
        ctx.finding("calendar", f"month {bad[0]}: (monthdays, first_month_hour, last_month_hour) = {bad[1]} but the calendar says {bad[2]}",
                    {"month": bad[0], "impl": bad[1], "oracle": bad[2]})

    # ------------------------------------------------------------------ profiles: corpus first, then generated
    corpus = H.load_corpus("C06")
    cases = corpus + H.gen_cases(ctx.rng, 300 if quick else 6000, n_phys)
    results = H.explore(ctx, cases, physs)
    total_months = 0
    for res in results:
        c, im = res["case"], res["impl"]
        kind = c.get("kind", "corpus:" + c.get("corpus", "spec"))
        ctx.count("kind:" + kind)
        if im["monthly"] is None:
            for e in c["ends"]:
                ctx.case((kind, c.get("pseed"), c.get("phys_id"), e), False)
                ctx.count("outcome:raise-" + str(im["runs"][e].get("raise")))
            continue
        ms = H.month_sums(res["raw"])
        mt = H.month_table(im["monthly"])
        # the monthly totals themselves against the exact sums of the profile
        for m in range(12):
            for key in ("cl", "hl"):
                if not H.close(mt[m][key], ms[m][key], 1e-9, 1e-12):
                    ctx.finding(f"monthly-total:{key}", f"{kind}: month {m+1} monthly_{key} = {mt[m][key]} but the profile sums to {float(ms[m][key])}",
                                {"case": c, "month": m + 1})
        for e in c["ends"]:
            run_ = im["runs"][e]
            if "raise" in run_:
                ctx.case((kind, c.get("pseed"), c.get("phys_id"), e), False)
                ctx.count("outcome:raise-" + run_["raise"])
                continue
            pulses = sum(1 for m in range(12) if mt[m]["pcl"] > 0) + sum(1 for m in range(12) if mt[m]["phl"] > 0)
            ctx.case((kind, c.get("pseed"), c.get("phys_id"), e), pulses > 0,
                     {"kind": kind, "end": e, "entries": len(run_["load"]), "jan": mt[0]} if len(ctx.samples) < 6 else None)
            ctx.count("horizon:" + ("1-11" if e < 12 else "12-36" if e <= 36 else "59-120" if e <= 120 else "240-360"))
            ok, fails = classify(c, res["raw"], im, e, ms, mt)
            total_months += ok
            for key, month, got, want, detail in fails:
                ctx.count("month-fail:" + key)
                what = (f"{kind} end={e}: {detail}" if month is None else
                        f"{kind} end={e}: month {month} integrates to {float(got):.6f} kWh, the profile's net load is {float(want):.6f} kWh")
                ctx.finding(key, what, {"case": {k: v for k, v in c.items() if k != "raw"}, "end": e, "detail": detail,
                                        "phys": res["phys"], "how": "hybridlib.raw_of_case(case) -> HybridLoad(raw, bhe_eq, radial_numerical, SimulationParameters(1, end, …))"})
            # horizon total for whole years
            if not fails and e % 12 == 0:
                tot = sum(Fraction(a) * (Fraction(h1) - Fraction(h0)) for a, h0, h1 in zip(run_["load"][1:], run_["hour"][:-1], run_["hour"][1:]))
                want = (e // 12) * sum(x["net"] for x in ms)
                if abs(float(tot - want)) > (e // 12) * sum(tol_month(x) for x in ms):
                    ctx.finding("horizon-energy", f"{kind} end={e}: total {float(tot)} kWh vs {e//12} × annual net {float(want)} kWh", {"case": c, "end": e})
        # branch histogram of the retained months
        for m in range(12):
            r = mt[m]
            d = "same-day" if r["dayc"] == r["dayh"] else ("cool-first" if r["dayc"] < r["dayh"] else "heat-first")
            p = ("both" if r["pcl"] > 0 and r["phl"] > 0 else "cool" if r["pcl"] > 0 else "heat" if r["phl"] > 0 else "none")
            ctx.count(f"branch:{d}/{p}")
            for dur in (r["dcl"], r["dhl"]):
                ctx.count("duration:" + ("nonfinite" if not math.isfinite(dur) else "placeholder" if dur <= 2e-6 else "<2h" if dur < 2 else "2-12h" if dur < 12 else "12-26h" if dur < 26 else ">26h"))
    ctx.count("months-conserved", total_months)

    # ------------------------------------------------------------------ call history (several objects in one process)
    history_stream(ctx, physs[0], 8 if quick else 40)

    # ------------------------------------------------------------------ the glue: GHE.__init__/simulate/size and design searches
    ghe_history_stream(ctx, physs[0], 8 if quick else 40)
    design_search_stream(ctx, physs[0], 7 if quick else 27)
    multiyear_stream(ctx, physs[0])

    # ------------------------------------------------------------------ arbitrary monthly arrays
    arr = H.explore_process_only(ctx, 300 if quick else 6000)
    for a in arr:
        ctx.case(("arrays", a["style"], a["start"], a["end"], repr(a["recs"][0])), "load" in a["impl"])
        if a["style"] == "wild" or "load" not in a["impl"]:
            continue
        # predicate of month_energy / month_energy_partial on the real process_month_loads: Σ = cl − hl
        s, e = a["start"], a["end"]
        load, hour = a["impl"]["load"], a["impl"]["hour"]
        ints = H.month_integrals(load, hour, [H.oracle_month_end(i) for i in range(s, e + 1)]) if hour[1] == float(H.oracle_month_end(s - 1)) else None
        if ints is None:
            ctx.finding("arrays-month-end", "process_month_loads on given monthly arrays: a month end is not a breakpoint", {"recs": a["recs"], "start": s, "end": e})
            continue
        j = 1
        for i, got in zip(range(s, e + 1), ints):
            r = a["recs"][(i - 1) % 12]
            cl, hl, pcl, phl, dayc, dayh, dcl, dhl = r
            while hour[j] != float(H.oracle_month_end(i)) or j < 2:
                j += 1
            rate = Fraction(load[j])
            ret = H.ipf(i, s, e)
            noon = (H.oracle_month_end(i - 1) + 1) + 24 * dayc + 12
            clamped = ret and dayc == dayh and pcl > 0 and phl > 0 and (dcl / 2 > noon or dhl / 2 > noon)
            want = Fraction(cl) - Fraction(hl)
            if clamped:
                ctx.count("arrays:clamped-month-skipped")
                continue
            if abs(float(got - want)) > 1e-8 * (cl + hl) + 1e-9:
                ctx.finding("arrays-month-energy", f"process_month_loads on given monthly arrays: month {i} integrates to {float(got)} instead of {float(want)}",
                            {"recs": a["recs"], "start": s, "end": e, "month": i})
                break
    ctx.programs = 3
    ctx.exhaustive = False
    ctx.extra["profiles"] = len(cases)
    ctx.extra["parameter_sets"] = n_phys
    if not quick:
        ctx.leanchecker(["GHEVerif.Props.C06", "GHEVerif.Lemmas.HybridEnergy", "GHEVerif.Lemmas.HybridSplit", "GHEVerif.Lemmas.HybridProc",
                         "GHEVerif.Lemmas.HybridSeq", "GHEVerif.Lemmas.HybridCal", "GHEVerif.Model.Hybrid"])
