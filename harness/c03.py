"""C03 — Rectangular-family candidate fields stay on the land and respect spacing.

Proof: lean/GHEVerif/Props/C03.lean about the exact-arithmetic instance (`R = id`) of the models
Model/Coords.lean (coordinates.py) and Model/Domains.lean (domains.py + the `n = floor(length/b)+1`
line of design.py).

Tie to the code.  The models take a rounding operator `R`.  The driver runs every case twice:
  F  `R = fl64` (IEEE binary64 round-to-nearest-even, defined in exact rational arithmetic inside
     the model): compared **bit for bit** with the real code (errors, list shapes, an order
     sensitive 64-bit hash over the IEEE bit patterns of every coordinate; all coordinates
     themselves for small cases);
  E  `R = id` (the instance the theorems are about): the driver measures, point by point,
     |E - F| / max(1,|E|) and the harness requires <= 1e-9; a different list shape between E and
     F is accepted only when the model flags the input as lying within 1e-12 of a floor/ceil/
     comparison boundary (there binary64 may take the adjacent branch); those inputs still go
     through the predicate.
Predicate (independent oracle: numpy/scipy KD-tree, fractions): inside [0,length]x[0,width],
no duplicates, nearest-neighbour distance >= b_min, counts non-decreasing, near-square shape.
The real code is reached through the Design* constructors (observe_at) and directly.
"""
from __future__ import annotations

import json
import math
import os
from fractions import Fraction

import core
import ghelib  # noqa: F401  (puts VERIF_REPO / /repo first on sys.path)

PROPERTY = "C03"
LEVEL = "proof"
MANIFEST = {
    "text": "rectangle / bi-rectangle / bi-zoned / near-square candidate fields: inside the land, >= b_min apart, "
            "no duplicates, near-square shape, bisected lists sorted by count — theorems about the exact instance of "
            "Model/Coords + Model/Domains, binary64 instance compared bit for bit with the code",
    "technique": "Lean 4 proof (induction over the generator loops, floor/ceil arithmetic) + dual-instance differential run",
    "design_ref": "DESIGN.md §4 C03",
    "note": "float rounding enters as the measured <= 1e-9 distance between the two instances; proved (2^-51) for rectangular; "
            "zoned_outcomes characterises exactly which positive inputs make the bi-zoned generator raise",
}

TOL = 1e-9
FULL_LIMIT = 1500          # total points up to which every coordinate goes over the wire
P64 = 1099511628211
H0 = 1469598103934665603
M64 = (1 << 64) - 1

GENS_MAIN = ("ns", "rect", "nest", "zoned")


# ----------------------------------------------------------------------------- the real code
def call_impl(case):
    """Run the real generator.  Returns nested list (list of candidate lists)."""
    from ghedesigner import coordinates as C
    from ghedesigner import design as DS
    from ghedesigner import domains as D
    from ghedesigner import geometry as G

    g, a, k = case["gen"], case["args"], case.get("ints", [])
    via = case.get("via", "design")
    none11 = [None] * 8
    if g == "ns":
        length, b = a
        if via == "design":
            d = DS.DesignNearSquare(*none11, G.GeometricConstraintsNearSquare(b, length), None, None)
            return [d.coordinates_domain]
        n = math.floor(length / b) + 1
        return [D.square_and_near_square(1, int(n), b)[0]]
    if g == "sq":
        return [D.square_and_near_square(k[0], k[1], a[0])[0]]
    if g == "rect":
        lx, ly, bmin, bmax = a
        if via == "design":
            d = DS.DesignRectangle(*none11, G.GeometricConstraintsRectangle(ly, lx, bmin, bmax), None, None)
            return [d.coordinates_domain]
        return [D.rectangular(lx, ly, bmin, bmax)[0]]
    if g == "birect":
        lx, ly, bmin, bx, by = a
        return [D.bi_rectangular(lx, ly, bmin, bx, by, transpose=bool(k[0]))[0]]
    if g == "nest":
        lx, ly, bmin, bx, by = a
        if via == "design":
            d = DS.DesignBiRectangle(*none11, G.GeometricConstraintsBiRectangle(ly, lx, bmin, bx, by), None, None)
            return d.coordinates_domain_nested
        return D.bi_rectangle_nested(lx, ly, bmin, bx, by)[0]
    if g == "zdom":
        lx, ly = a
        return [D.zoned_rectangle_domain(lx, ly, k[0], k[1], transpose=bool(k[2]))[0]]
    if g == "zoned":
        lx, ly, bmin, bx, by = a
        if via == "design":
            d = DS.DesignBiZoned(*none11, G.GeometricConstraintsBiZoned(ly, lx, bmin, bx, by), None, None)
            return d.coordinates_domain_nested
        return D.bi_rectangle_zoned_nested(lx, ly, bmin, bx, by)[0]
    if g == "co":
        f = case["fn"]
        if f == "rect":
            return [[C.rectangle(k[0], k[1], a[0], a[1], origin=(a[2], a[3]))]]
        if f == "open":
            return [[C.open_rectangle(k[0], k[1], a[0], a[1])]]
        if f == "cshape":
            return [[C.c_shape(k[0], k[1], a[0], a[1], k[2])]]
        if f == "lopu":
            return [[C.lop_u(k[0], k[1], a[0], a[1], k[2])]]
        if f == "lshape":
            return [[C.l_shape(k[0], k[1], a[0], a[1])]]
        if f == "zoned":
            return [[C.zoned_rectangle(k[0], k[1], a[0], a[1], k[2], k[3])]]
    raise KeyError(g)


def field_hash(arr):
    """Order-sensitive hash over the IEEE bit patterns x0,y0,x1,y1,… (same as Domains.hashField)."""
    import numpy as np

    bits = np.ascontiguousarray(arr + 0.0, dtype=np.float64).ravel().view(np.uint64)
    n = len(bits)
    if n == 0:
        return H0
    with np.errstate(over="ignore"):
        pw = np.full(n, P64, dtype=np.uint64)
        pw[0] = 1
        pw = np.cumprod(pw, dtype=np.uint64)            # P^0 … P^(n-1)
        s = int((bits * pw[::-1]).sum(dtype=np.uint64))
        top = (int(pw[-1]) * P64) & M64                  # P^n
    return (H0 * top + s) & M64


def min_distance(arr):
    from scipy.spatial import cKDTree

    if len(arr) < 2:
        return math.inf
    d, _ = cKDTree(arr).query(arr, k=2)
    return float(d[:, 1].min())


def land_of(case):
    g, a = case["gen"], case["args"]
    if g in ("rect",):
        return a[0], a[1], a[2]
    if g in ("nest", "zoned"):
        return a[0], a[1], a[2]
    return None


def predicate(case, nested):
    """Property predicate on the implementation's own output.  Returns list of (kind, what)."""
    import numpy as np

    g, a = case["gen"], case["args"]
    fails = []
    arrs = [[np.array(f, dtype=np.float64).reshape(-1, 2) for f in fs] for fs in nested]
    if g in ("rect", "nest", "zoned"):
        lx, ly, bmin = float(a[0]), float(a[1]), float(a[2])
        for li, fs in enumerate(arrs):
            for fi, arr in enumerate(fs):
                if len(arr) == 0:
                    continue
                lo_x, lo_y = arr[:, 0].min(), arr[:, 1].min()
                hi_x, hi_y = arr[:, 0].max(), arr[:, 1].max()
                if lo_x < -TOL or lo_y < -TOL or hi_x > lx + TOL * max(1.0, lx) or hi_y > ly + TOL * max(1.0, ly):
                    fails.append(("outside", f"list {li} field {fi} ({len(arr)} boreholes) spans x [{lo_x}, {hi_x}] y [{lo_y}, {hi_y}] on a {lx} x {ly} lot"))
                    break
            for fi, arr in enumerate(fs):
                if len(set(map(tuple, arr.tolist()))) != len(arr):
                    fails.append(("duplicate", f"list {li} field {fi} contains coincident boreholes"))
                    break
            for fi, arr in enumerate(fs):
                md = min_distance(arr)
                if md < bmin * (1 - TOL):
                    fails.append(("spacing", f"list {li} field {fi} ({len(arr)} boreholes) has two boreholes {md} m apart, b_min = {bmin}"))
                    break
    if g in ("ns", "rect", "nest"):
        for li, fs in enumerate(arrs):
            sizes = [len(x) for x in fs]
            if any(s1 > s2 for s1, s2 in zip(sizes, sizes[1:])):
                fails.append(("unsorted", f"list {li} borehole counts not non-decreasing: {sizes[:40]}"))
                break
    if g == "nest" and arrs and all(len(fs) for fs in arrs):
        outer = [len(arrs[0][0])] + [len(fs[-1]) for fs in arrs]
        if any(s1 > s2 for s1, s2 in zip(outer, outer[1:])):
            fails.append(("outer-unsorted", f"outer bisection list (first field, then last field of each list) not non-decreasing: {outer[:40]}"))
    if g == "ns":
        length, b = Fraction(a[0]), Fraction(a[1])
        fs = arrs[0]
        if len(fs) % 2:
            fails.append(("ns-shape", f"odd number of candidates {len(fs)}"))
        n = len(fs) // 2
        # rounding-level slack only: floor(length / b) may see a quotient rounded across an integer, which
        # moves (n-1)*b past the land side by an ulp or two of the side, never by a fraction of the spacing
        slack = 4 * Fraction(math.ulp(float(a[0])))
        if n >= 1 and (n - 1) * b > length + slack:
            fails.append(("ns-extent", f"largest n = {n}: the short side (n-1)*b = {float((n - 1) * b)!r} of the last two candidates exceeds the land side {float(length)!r} by {float((n - 1) * b - length):.3g} m"))
        if n * b <= length - slack:
            fails.append(("ns-not-maximal", f"largest n = {n} but n*b = {float(n * b)!r} <= length {float(length)!r}"))
        for idx, arr in enumerate(fs):
            if len(arr) and Fraction(float(min(arr[:, 0].max(), arr[:, 1].max()))) > length + slack:
                fails.append(("ns-outside", f"candidate {idx} ({len(arr)} boreholes): short side reaches {float(min(arr[:, 0].max(), arr[:, 1].max()))!r} on a land side of {float(length)!r}"))
                break
        bf = float(a[1])
        for idx, arr in enumerate(fs):
            kk, jj = idx // 2 + 1, idx // 2 + 1 + idx % 2
            want = np.array([(i * bf, j * bf) for i in range(kk) for j in range(jj)], dtype=np.float64).reshape(-1, 2)
            ok = arr.shape == want.shape and bool(np.all(np.abs(np.array(sorted(map(tuple, arr.tolist()))) - np.array(sorted(map(tuple, want.tolist())))) <= TOL * max(1.0, kk * bf)))
            if not ok:
                fails.append(("ns-shape", f"candidate {idx} is not the {kk} x {jj} grid at spacing {bf}"))
                break
            if len(arr) > 1 and min_distance(arr) < bf * (1 - TOL):
                fails.append(("spacing", f"candidate {idx}: boreholes closer than b = {bf}"))
                break
    return fails


def work(case):
    """Pool worker: real code + predicate + hashes.  Everything returned is small."""
    import numpy as np

    os.environ["OMP_NUM_THREADS"] = "1"
    try:
        with ghelib.quiet():
            nested = call_impl(case)
        err = None
    except Exception as e:  # noqa: BLE001 - whatever the implementation raises is compared with the model's error branch
        nested, err = None, type(e).__name__
    res = {"err": err}
    if nested is None:
        return res
    nested = [[list(f) for f in fs] for fs in nested]
    shape = [[len(f) for f in fs] for fs in nested]
    res["shape"] = shape
    res["hash"] = [[field_hash(np.array(f, dtype=np.float64).reshape(-1, 2)) for f in fs] for fs in nested]
    total = sum(sum(s) for s in shape)
    res["points"] = total
    res["fields"] = sum(len(s) for s in shape)
    res["max_field"] = max((max(s) if s else 0) for s in shape) if shape else 0
    res["fails"] = predicate(case, nested)
    if total <= FULL_LIMIT or case.get("full"):
        res["full"] = [[[(float(x), float(y)) for x, y in f] for f in fs] for fs in nested]
    return res


def _hashes(nested):
    import numpy as np

    return [[field_hash(np.array([list(p) for p in f], dtype=np.float64).reshape(-1, 2)) for f in fs] for fs in nested]


def mirror_case(case):
    a = list(case["args"])
    if case["gen"] in ("rect", "nest", "zoned"):
        a[0], a[1] = a[1], a[0]
    return {**case, "args": a}


def history_work(chunk):
    """Call history inside ONE process: every domain is built, built again, its mirrored lot is built,
    and it is built a third time; the object returned by the first call is kept alive and re-hashed
    at the end.  A generator whose result depends on what was built before (memoised or shared lists
    mutated in place) shows up as differing hashes; the land/spacing predicate is then evaluated on
    the differing result."""
    os.environ["OMP_NUM_THREADS"] = "1"
    out = []
    for case in chunk:
        rec = {}
        try:
            with ghelib.quiet():
                r1 = call_impl(case)
                h1 = _hashes(r1)
                r2 = call_impl(case)
                h2 = _hashes(r2)
                try:
                    call_impl(mirror_case(case))
                except Exception:  # noqa: BLE001
                    pass
                r3 = call_impl(case)
                h3 = _hashes(r3)
                h1b = _hashes(r1)
            rec = {"h": [h1, h2, h3, h1b], "fails": []}
            for name, h, r in (("second build", h2, r2), ("third build (after the mirrored lot)", h3, r3), ("first build, re-read after later builds", h1b, r1)):
                if h != h1:
                    nested = [[list(f) for f in fs] for fs in r]
                    rec["fails"].append((name, predicate(case, nested)[:2]))
        except Exception as e:  # noqa: BLE001
            rec = {"err": type(e).__name__}
        out.append(rec)
    return out


# ----------------------------------------------------------------------------- model side
def dom_line(case, mode):
    g, a, k = case["gen"], case["args"], case.get("ints", [])
    if g == "co":
        f = case["fn"]
        ks = " ".join(str(int(v)) for v in k)
        rs = [core.rs(v) for v in a]
        if f == "rect":
            return f"co rect {mode} {ks} {' '.join(rs)}"
        if f in ("open", "lshape"):
            return f"co {f} {mode} {ks} {' '.join(rs)}"
        if f in ("cshape", "lopu"):
            return f"co {f} {mode} {k[0]} {k[1]} {rs[0]} {rs[1]} {k[2]}"
        if f == "zoned":
            return f"co zoned {mode} {k[0]} {k[1]} {rs[0]} {rs[1]} {k[2]} {k[3]}"
    return f"dom {g} {mode} {len(a)} " + " ".join([core.rs(v) for v in a] + [str(int(v)) for v in k])


def parse_full(s):
    """'ok f;f|f' / 'raise X' -> (err, nested list of Fractions)."""
    s = s.rstrip("\n")
    if s.startswith("raise"):
        return s.split()[1], None
    if not s.startswith("ok"):
        return "bad:" + s[:40], None
    body = s[3:] if len(s) > 2 else ""
    nested = []
    for part in body.split("|")[:-1]:
        fs = []
        for ftxt in part.split(";"):
            if ftxt.strip() == "":
                continue
            pts = []
            for p in ([] if ftxt.strip() == "_" else ftxt.split()):
                x, y = p.split(",")
                pts.append((core.pr(x), core.pr(y)))
            fs.append(pts)
        nested.append(fs)
    return None, nested


def parse_summary(s):
    t = s.split()
    if len(t) != 5 or t[0] != "S":
        return None
    nb = t[1] == "1"

    def shape(x, with_hash):
        if x.startswith("raise:"):
            return x[6:], None, None
        body = x[3:]
        sh, hs = [], []
        for part in body.split("|")[:-1]:
            a, b = [], []
            for item in part.split(","):
                if item == "":
                    continue
                if with_hash:
                    n, h = item.split(":")
                    a.append(int(n))
                    b.append(int(h))
                else:
                    a.append(int(item))
            sh.append(a)
            hs.append(b)
        return None, sh, hs

    e_err, e_shape, _ = shape(t[2], False)
    f_err, f_shape, f_hash = shape(t[3], True)
    dev = None if t[4] == "-" else core.pr(t[4])
    return {"nb": nb, "e_err": e_err, "e_shape": e_shape, "f_err": f_err, "f_shape": f_shape, "f_hash": f_hash, "dev": dev}


def norm_shape(sh):
    """co-commands and empty lists: the model prints [[...]] too; an empty candidate list is []."""
    return [list(x) for x in sh]


def driver_par(ctx, lines, nproc=14, timeout=3000):
    """ctx.driver on interleaved slices in parallel (the driver is a stateless line filter)."""
    from concurrent.futures import ThreadPoolExecutor

    if not lines:
        return []
    if len(lines) < 4 * nproc:
        return ctx.driver(lines, timeout=timeout)
    slices = [lines[i::nproc] for i in range(nproc)]
    with ThreadPoolExecutor(nproc) as ex:
        outs = list(ex.map(lambda sl: ctx.driver(sl, timeout=timeout), slices))
    if any(o is None for o in outs):
        return None
    res = [None] * len(lines)
    for i, o in enumerate(outs):
        res[i::nproc] = o
    return res


# ----------------------------------------------------------------------------- input generation
def ulp_up(x):
    return math.nextafter(x, math.inf)


def ulp_dn(x):
    return math.nextafter(x, 0.0)


def pick_spacing(rng):
    k = rng.random()
    if k < 0.35:
        return rng.randint(15, 90) / 10.0          # decimal grid (not exact in binary)
    if k < 0.55:
        return float(rng.randint(2, 9))
    if k < 0.65:
        return rng.randint(8, 36) / 4.0            # exact in binary
    return rng.uniform(1.5, 9.0)


def pick_side(rng, b, kmax, kind):
    """A side length whose ratio to `b` is of the requested kind."""
    k = rng.randint(1, kmax)
    if kind == "integer":
        return b * k
    if kind == "ulp+":
        return ulp_up(b * k)
    if kind == "ulp-":
        return ulp_dn(b * k)
    if kind == "decimal":
        return max(0.5, round(rng.uniform(0.6, kmax) * b, 1))
    if kind == "half":
        return b * (k + 0.5)
    if kind == "just-under":      # frac(side / b) in [0.99, 1): just short of a whole number of spacings
        t = rng.choice([rng.uniform(1e-9, 0.01), rng.uniform(0.001, 0.01), 0.01 * rng.random() ** 3])
        x = b * (k + 1 - t)
        if rng.random() < 0.4 and math.floor(round(x, 2) / b) == k and round(x, 2) / b - k >= 0.99:
            x = round(x, 2)       # a surveyor's number such as 99.97
        return x
    if kind == "just-over":       # frac(side / b) in (0, 0.01]
        t = rng.choice([rng.uniform(1e-9, 0.01), rng.uniform(0.001, 0.01), 0.01 * rng.random() ** 3])
        return b * (k + t)
    return rng.uniform(0.6, kmax) * b


RATIO_KINDS = ["integer", "ulp+", "ulp-", "decimal", "generic", "half", "just-under", "just-over"]


def make_lot(rng, kmax):
    bmin = pick_spacing(rng)
    orient = rng.choice(["L>W", "L=W", "L<W"])
    k1, k2 = rng.choice(RATIO_KINDS), rng.choice(RATIO_KINDS)
    s1 = pick_side(rng, bmin, kmax, k1)
    s2 = pick_side(rng, bmin, kmax, k2)
    if orient == "L=W":
        lx = ly = s1
        k2 = k1
    else:
        hi, lo = max(s1, s2), min(s1, s2)
        if hi == lo:
            hi = lo + bmin
        lx, ly = (hi, lo) if orient == "L>W" else (lo, hi)

    def bmax():
        q = rng.random()
        if q < 0.15:
            return bmin
        if q < 0.5:
            return bmin + rng.randint(1, 80) / 10.0
        if q < 0.7:
            return bmin * rng.randint(2, 4)
        return bmin + rng.uniform(0.0, 12.0)

    bx, by = bmax(), bmax()
    if rng.random() < 0.08:     # Python ints as inputs
        lx, ly = int(math.ceil(lx)), int(math.ceil(ly))
        if orient == "L=W":
            ly = lx
        bmin_i = max(1, int(bmin))
        bmin, bx, by = bmin_i, bmin_i + int(bx - bmin), bmin_i + int(by - bmin)
        k1 = k2 = "pyint"
    return {"lx": lx, "ly": ly, "bmin": bmin, "bx": bx, "by": by, "orient": orient, "ratio": (k1, k2)}


def lot_cases(lot, gens, via):
    out = []
    lx, ly, bmin, bx, by = lot["lx"], lot["ly"], lot["bmin"], lot["bx"], lot["by"]
    meta = {"orient": lot["orient"], "ratio": lot["ratio"]}
    for g in gens:
        if g == "rect":
            out.append({"gen": "rect", "args": [lx, ly, bmin, bx], "via": via, **meta})
        elif g == "nest":
            out.append({"gen": "nest", "args": [lx, ly, bmin, bx, by], "via": via, **meta})
        elif g == "zoned":
            out.append({"gen": "zoned", "args": [lx, ly, bmin, bx, by], "via": via, **meta})
        elif g == "ns":
            out.append({"gen": "ns", "args": [lx, bmin], "via": via, **meta})
    return out


def misc_cases(rng, n):
    """Direct calls: coordinates.py functions (incl. error branches), bi_rectangular, zoned_rectangle_domain."""
    out = []
    for _ in range(n):
        sx, sy = pick_spacing(rng), pick_spacing(rng)
        f = rng.choice(["rect", "open", "cshape", "lopu", "lshape", "zoned", "zoned", "birect", "zdom", "zdom", "sq"])
        if f == "rect":
            out.append({"gen": "co", "fn": f, "args": [sx, sy, rng.choice([0.0, sx, rng.uniform(0, 5)]), rng.choice([0.0, sy, rng.uniform(0, 5)])],
                        "ints": [rng.randint(-1, 7), rng.randint(-1, 7)]})
        elif f in ("open", "lshape"):
            out.append({"gen": "co", "fn": f, "args": [sx, sy], "ints": [rng.randint(-1, 8), rng.randint(-1, 8)]})
        elif f in ("cshape", "lopu"):
            out.append({"gen": "co", "fn": f, "args": [sx, sy], "ints": [rng.randint(0, 8), rng.randint(0, 8), rng.randint(-1, 8)]})
        elif f == "zoned":
            nx, ny = rng.randint(1, 9), rng.randint(1, 9)
            out.append({"gen": "co", "fn": f, "args": [sx, sy], "ints": [nx, ny, rng.randint(-2, nx), rng.randint(-2, ny)]})
        elif f == "birect":
            b = pick_spacing(rng)
            lx, ly = pick_side(rng, b, 14, rng.choice(RATIO_KINDS)), pick_side(rng, b, 14, rng.choice(RATIO_KINDS))
            out.append({"gen": "birect", "args": [lx, ly, b, b + rng.uniform(0, 6), b + rng.uniform(0, 6)], "ints": [rng.randint(0, 1)]})
        elif f == "zdom":
            b = pick_spacing(rng)
            lx, ly = pick_side(rng, b, 14, "generic"), pick_side(rng, b, 14, "generic")
            if rng.random() < 0.3:
                ly = lx
            out.append({"gen": "zdom", "args": [lx, ly], "ints": [rng.randint(1, 12), rng.randint(1, 12), rng.randint(0, 1)]})
        else:
            out.append({"gen": "sq", "args": [sx], "ints": [rng.randint(-1, 4), rng.randint(-1, 9)]})
    return out


def case_sig(case):
    return (case["gen"], case.get("fn", ""), tuple(float(v) for v in case["args"]), tuple(case.get("ints", [])), case.get("via", ""))


def case_key(case, kind):
    a = ",".join(repr(v) for v in case["args"])
    k = ",".join(str(v) for v in case.get("ints", []))
    return f"{case['gen']}{('-' + case['fn']) if case.get('fn') else ''}-{kind}-[{a}]" + (f"-[{k}]" if k else "")


def load_corpus():
    cases = []
    d = core.CORPUS / PROPERTY
    if d.is_dir():
        for p in sorted(d.glob("*.json")):
            j = json.loads(p.read_text())
            for c in (j if isinstance(j, list) else j.get("cases", [j])):
                c = dict(c)
                c["corpus"] = p.name
                cases.append(c)
    return cases


# ----------------------------------------------------------------------------- main
def run(ctx: core.Ctx):
    ctx.rule = ("one case = one generator call (Design* constructor or domains/coordinates function) on one input; "
                "distinct = distinct (generator, inputs); non-trivial = raised, or produced a field with >= 2 boreholes "
                "(spacing predicate exercised)")
    ctx.trusted_base += [
        "hand-written models Model/Coords.lean + Model/Domains.lean; binary64 instance (R = fl64) tied to the code bit for bit "
        "on every case (shapes, errors, hash of all coordinate bit patterns; full coordinates for small cases)",
        "fl64 / round9 (IEEE round-to-nearest-even and Python round(x, 9) in rational arithmetic) checked against CPython on random operands each run",
        "the theorems are about the exact instance (R = id); its distance to the binary64 instance is measured point by point by the driver (<= 1e-9 relative); "
        "for `rectangular` that distance is also a theorem (fl64_relative_error: 2^-53 per operation; rectangular_binary64_robust: 2^-51 per coordinate off the branch boundaries)",
        "numpy / scipy cKDTree / fractions in the predicate oracle",
    ]
    ctx.assumptions += [
        "binary64 normal range (no overflow / subnormals) — land sizes and spacings in metres",
        "inputs within 1e-12 of a floor/ceil/comparison boundary may take the adjacent branch in binary64; they are flagged, counted and judged by the predicate only",
        "an exception (IndexError on an empty count range, ValueError for fewer than 3 rows in the bi-zoned generator) is not a candidate field; it is compared with the model's error branch but is outside C03",
    ]
    ctx.lean_prepare()
    rng = ctx.rng
    quick = ctx.tier == "quick"

    # ------------------------------------------------------------ rounding primitives vs CPython
    prim = []
    for _ in range(3000 if quick else 20000):
        a, b = rng.uniform(0.1, 1000), rng.uniform(0.1, 100)
        t = rng.random()
        if t < 0.4:
            prim.append((Fraction(a) / Fraction(b), a / b))
        elif t < 0.6:
            kk = rng.randint(1, 80)
            prim.append((Fraction(a) * kk, a * kk))
        elif t < 0.8:
            prim.append((Fraction(a) + Fraction(b), a + b))
        else:
            kk = rng.randint(1, 80)
            prim.append((Fraction(float(kk) * b) / Fraction(b), (float(kk) * b) / b))
    r9 = [rng.uniform(0, 300) for _ in range(1000)] + [float(k) for k in range(60)] + [ulp_up(float(k)) for k in range(1, 60)] + [ulp_dn(float(k)) for k in range(1, 60)]
    lines = [f"fl64 {q.numerator}/{q.denominator}" for q, _ in prim] + [f"round9 F {core.rs(x)}" for x in r9]
    out = ctx.driver(lines)
    if out is not None:
        bad = [i for i, (q, f) in enumerate(prim) if core.pr(out[i]) != Fraction(f)]
        bad9 = [x for x, o in zip(r9, out[len(prim):]) if core.pr(o) != Fraction(round(x, 9))]
        ctx.count("primitive:fl64", len(prim))
        ctx.count("primitive:round9", len(r9))
        if bad or bad9:
            ctx.disagreements_checked += len(bad) + len(bad9)
            ctx.broken.append("fl64-primitive-correspondence")
            ctx.extra["fl64_first_disagreement"] = {"fl64": [str(prim[i][0]) for i in bad[:2]], "round9": bad9[:2]}

    # ------------------------------------------------------------ cases
    if ctx.replay:
        j = json.loads(open(ctx.replay).read())
        cases = [j.get("replay", j).get("case", j.get("replay", j))]
    else:
        cases = load_corpus()
        n_lots = 150 if quick else 1200
        for i in range(n_lots):
            big = (not quick) and i % 20 == 0
            lot = make_lot(rng, 20 if quick else (32 if i % 40 == 0 else 24))
            via = "design" if rng.random() < 0.7 else "fn"
            cases += lot_cases(lot, ("rect", "nest", "zoned", "ns"), via)
            if i % 5 == 0 or big:
                # long sides (up to ~500 m) for the 1-D generators only
                lot2 = make_lot(rng, 90 if quick else (160 if big else 100))
                cases += lot_cases(lot2, ("rect", "ns"), via)
        cases += misc_cases(rng, 400 if quick else 5000)
    seen = set()
    uniq = []
    for c in cases:
        s = case_sig(c)
        if s not in seen:
            seen.add(s)
            uniq.append(c)
    cases = uniq
    ctx.log(f"{len(cases)} cases")

    import time as _t
    t0 = _t.time()
    results = core.pool_map(work, cases, chunksize=4)
    ctx.extra["impl_and_predicate_s"] = round(_t.time() - t0, 1)
    t0 = _t.time()

    s_lines = [dom_line(c, "S") for c in cases if c["gen"] != "co"]
    s_out = driver_par(ctx, s_lines)
    s_iter = iter(s_out) if s_out is not None else None
    full_idx = [i for i, (c, r) in enumerate(zip(cases, results)) if c["gen"] == "co" or "full" in r or r["err"]]
    f_out = driver_par(ctx, [dom_line(cases[i], "F") for i in full_idx])
    e_out = driver_par(ctx, [dom_line(cases[i], "E") for i in full_idx])
    fullmap = {i: j for j, i in enumerate(full_idx)}
    ctx.extra["model_driver_s"] = round(_t.time() - t0, 1)

    def broke(name, case, detail):
        ctx.disagreements_checked += 1
        if name not in ctx.broken:
            ctx.broken.append(name)
            ctx.extra[name + "_first"] = {"case": {k: v for k, v in case.items()}, "detail": detail}

    max_dev = Fraction(0)
    for i, (case, res) in enumerate(zip(cases, results)):
        g = case["gen"]
        ctx.count("gen:" + (g if g != "co" else "co-" + case["fn"]))
        if "orient" in case:
            ctx.count("orient:" + case["orient"])
            ctx.count("ratio-long:" + case["ratio"][0])
            ctx.count("ratio-short:" + case["ratio"][1])
        if case.get("via"):
            ctx.count("via:" + case["via"])
        ctx.count("outcome:" + (res["err"] or "ok"))
        if res["err"] is None:
            ctx.count("fields", res["fields"])
            ctx.count("boreholes", res["points"])
            if g in ("rect", "nest", "zoned") and case["args"][0] < case["args"][1]:
                ctx.count("transposed-branch")
        nontrivial = res["err"] is not None or res.get("max_field", 0) >= 2
        ctx.case(case_sig(case), nontrivial,
                 {"case": case, "outcome": res["err"] or "ok", "fields": res.get("fields"), "boreholes": res.get("points")} if i % 97 == 0 else None)

        # ---- predicate on the implementation's own output
        for kind, what in res.get("fails", []):
            ctx.finding(case_key(case, kind), what, {"case": case, "kind": kind})

        # ---- correspondence: summary (both instances)
        if g != "co" and s_iter is not None:
            sm = parse_summary(next(s_iter))
            if sm is None:
                broke("driver-summary", case, "unparsable summary line")
                continue
            if sm["nb"]:
                ctx.count("near-boundary")
            if res["err"] is not None:
                if sm["f_err"] != res["err"]:
                    broke("binary64-correspondence", case, {"impl": res["err"], "model": sm["f_err"] or "ok"})
            else:
                if sm["f_err"] is not None or norm_shape(sm["f_shape"]) != norm_shape(res["shape"]):
                    broke("binary64-correspondence", case, {"impl_shape": res["shape"][:3], "model": sm["f_err"] or sm["f_shape"][:3]})
                elif sm["f_hash"] != res["hash"]:
                    broke("binary64-correspondence", case, "coordinate bit patterns differ (hash)")
            same = (sm["e_err"], sm["e_shape"]) == (sm["f_err"], sm["f_shape"])
            if not same:
                ctx.count("exact-vs-binary64:other-branch")
                if not sm["nb"]:
                    broke("exact-instance-branch-unflagged", case, {"exact": sm["e_err"] or sm["e_shape"][:3], "binary64": sm["f_err"] or sm["f_shape"][:3]})
            elif sm["dev"] is not None:
                max_dev = max(max_dev, sm["dev"])
                if sm["dev"] > Fraction(1, 10**9):
                    broke("exact-instance-deviation", case, {"dev": float(sm["dev"])})

        # ---- correspondence: every coordinate (small cases, coordinates.py functions, error cases)
        if i in fullmap and f_out is not None and e_out is not None:
            ferr, fn = parse_full(f_out[fullmap[i]])
            eerr, en = parse_full(e_out[fullmap[i]])
            ctx.count("full-coordinate-comparisons")
            if res["err"] is not None:
                if ferr != res["err"]:
                    broke("binary64-correspondence", case, {"impl": res["err"], "model": ferr or "ok"})
                if eerr != res["err"] and g == "co":
                    broke("exact-correspondence", case, {"impl": res["err"], "model": eerr or "ok"})
            elif "full" in res:
                impl = res["full"]
                if ferr is not None or [[[(Fraction(x), Fraction(y)) for x, y in f] for f in fs] for fs in impl] != fn:
                    broke("binary64-correspondence", case, "full coordinates differ")
                if eerr is None and [[len(f) for f in fs] for fs in en] == res["shape"]:
                    for fs_i, fs_m in zip(impl, en):
                        for f_i, f_m in zip(fs_i, fs_m):
                            for (x, y), (mx, my) in zip(f_i, f_m):
                                if abs(Fraction(x) - mx) > Fraction(1, 10**9) * max(1, abs(mx)) or abs(Fraction(y) - my) > Fraction(1, 10**9) * max(1, abs(my)):
                                    broke("exact-correspondence", case, {"impl": (x, y), "model": (float(mx), float(my))})
                elif g == "co":
                    broke("exact-correspondence", case, {"impl_shape": res["shape"], "model": eerr or "shape differs"})

    # ------------------------------------------------------------ call histories in one process
    if not ctx.replay or cases[0].get("history"):
        hist_idx = [i for i, c in enumerate(cases) if c["gen"] in ("rect", "nest", "zoned", "ns") and c.get("via") and results[i]["err"] is None
                    and results[i].get("points", 0) <= 60000]
        tr = [i for i in hist_idx if cases[i]["gen"] != "ns" and cases[i]["args"][0] < cases[i]["args"][1]]
        rest = [i for i in hist_idx if i not in set(tr)]
        n_h = 160 if quick else 900
        hist_idx = (tr[: n_h // 2] + rest)[:n_h]
        chunks = [hist_idx[j:j + 8] for j in range(0, len(hist_idx), 8)]
        hres = core.pool_map(history_work, [[cases[i] for i in ch] for ch in chunks])
        for ch, hr in zip(chunks, hres):
            for i, rec in zip(ch, hr):
                case = cases[i]
                ctx.count("history:" + case["gen"] + (":transposed" if case["gen"] != "ns" and case["args"][0] < case["args"][1] else ""))
                ctx.case(("history", case_sig(case)), True)
                if "err" in rec:
                    broke("history-correspondence", case, {"raised on a repeated build": rec["err"]})
                    continue
                if rec["h"][0] != results[i]["hash"]:
                    broke("history-correspondence", case, "first build in the history process differs from the single build")
                for name, fails in rec["fails"]:
                    if fails:
                        kind, what = fails[0]
                        ctx.finding(case_key(case, "history-" + kind), f"{name} of the same lot in one process: {what}",
                                    {"case": {**case, "history": True}, "kind": kind, "history": "build, build again, build the mirrored lot, build again; first result kept alive"})
                    else:
                        broke("history-correspondence", case, f"{name} differs from the first build of the same lot")

    ctx.extra["max_exact_vs_binary64_deviation"] = float(max_dev)
    ctx.programs = 13
    ctx.exhaustive = False
    if ctx.tier == "thorough":
        ctx.leanchecker(["GHEVerif.Props.C03", "GHEVerif.Lemmas.Coords", "GHEVerif.Lemmas.Domains",
                         "GHEVerif.Model.Coords", "GHEVerif.Model.Domains"])
