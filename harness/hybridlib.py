"""Shared code of the hybrid-load checks C06 (month energy), C08 (time axis), C07 (peaks/durations).

* real objects: `borehole(phys)` builds the real SingleUTube + RadialNumericalBH, `run_impl(case)`
  constructs the real `HybridLoad` for every horizon of a case and returns its arrays;
  `run_process_only` drives the real `process_month_loads` on arbitrary monthly arrays;
* the Lean model: `model_full`, `model_seq` (line protocol of Model/Hybrid.lean `cmd`);
* generators of hourly profiles (W, extraction positive) covering the quantifier of the properties;
* independent oracles written with `fractions.Fraction` / `datetime` only.

Everything random derives from the `random.Random` handed in; a case is a small JSON-able dict
(`kind`, `pseed`, `phys_id`, `ends`) from which the 8760 numbers are regenerated.
"""
from __future__ import annotations

import datetime as dt
import math
import os
import random
import warnings
from concurrent.futures import ThreadPoolExecutor
from fractions import Fraction

import core
import ghelib

os.environ.setdefault("OMP_NUM_THREADS", "1")

FIX = 1 << 80
DELTA = 1.0e-6
YEAR = 2019
DAYS = [31, 28, 31, 30, 31, 30, 31, 31, 30, 31, 30, 31]
MONTH_START = [0]
for _d in DAYS:
    MONTH_START.append(MONTH_START[-1] + 24 * _d)  # MONTH_START[m] = hours before month m (0-based), [12] = 8760


# --------------------------------------------------------------------------- calendar oracle
def oracle_month_hours(i: int, year=2019) -> int:
    """Hours in simulated month i (1-based), via datetime.  `year` is an int (the tool repeats
    years[0] for every simulated year) or a list of load years (month i lies in years[(i-1)//12])."""
    m = (i - 1) % 12 + 1
    if isinstance(year, (list, tuple)):
        year = year[((i - 1) // 12) % len(year)] if len(year) > 1 else year[0]
    a = dt.datetime(year, m, 1)
    b = dt.datetime(year, m + 1, 1) if m < 12 else dt.datetime(year + 1, 1, 1)
    return int((b - a).total_seconds() // 3600)


_OME: dict = {}


def oracle_month_end(i: int, year=2019) -> int:
    """Last hour of simulated month i = hours elapsed in the first i months."""
    key = (i, tuple(year) if isinstance(year, (list, tuple)) else year)
    if key not in _OME:
        _OME[key] = sum(oracle_month_hours(j, year) for j in range(1, i + 1))
    return _OME[key]


# --------------------------------------------------------------------------- physical parameter sets
def phys_sets(rng: random.Random, n: int):
    """n borehole/ground parameter sets: the default one, then random ones (they shape g_sts)."""
    out = [ghelib.default_physics()]
    while len(out) < n:
        out.append(ghelib.random_physics(rng))
    return out


_BH_CACHE: dict = {}


def borehole(phys):
    """(equivalent SingleUTube, RadialNumericalBH) real objects for a parameter set (cached per process)."""
    key = repr(sorted(phys.items()))
    if key not in _BH_CACHE:
        from ghedesigner.borehole_heat_exchangers import get_bhe_object
        from ghedesigner.radial_numerical_borehole import RadialNumericalBH

        fluid, pipe, grout, soil, bh, t = ghelib.media(phys)
        m_bh = phys["flow"] / 1000.0 * fluid.rho
        with ghelib.quiet():
            bhe = get_bhe_object(t, m_bh, fluid, bh, pipe, grout, soil)
            eq = bhe.to_single()
            rn = RadialNumericalBH(eq)
            rn.calc_sts_g_functions(eq)
        _BH_CACHE[key] = (eq, rn)
    return _BH_CACHE[key]


def g_params(phys):
    """What the model needs from the borehole: two_pi_k, R_b and g_sts at lags of 1..48 hours —
    obtained from the real objects exactly as `perform_current_month_simulation` obtains them."""
    import numpy as np
    from ghedesigner.constants import SEC_IN_HR, TWO_PI

    eq, rn = borehole(phys)
    lags = np.array(range(1, 49))
    g = rn.g_sts(np.log((lags * SEC_IN_HR) / rn.t_s))
    return float(TWO_PI * eq.soil.k), float(eq.calc_effective_borehole_resistance()), [float(v) for v in g]


# --------------------------------------------------------------------------- profiles
KINDS = ["mixed", "heating_only", "cooling_only", "zero_months", "first_day", "last_day", "same_day",
         "last_hour_of_year", "plateau", "constant", "monthly_constant", "atlanta", "one_sided_months", "jan1_plateau",
         "turn_of_year_heating", "turn_of_year_cooling"]


def make_raw(kind: str, pseed: int):
    """8760 hourly loads in W (extraction/heating positive, rejection/cooling negative)."""
    rng = random.Random(pseed)
    scale = 10 ** rng.uniform(2.0, 5.5)  # W
    hrs = range(8760)

    def smooth():
        ph = rng.uniform(0, 2 * math.pi)
        return [scale * (math.sin(2 * math.pi * h / 8760 + ph) + 0.3 * math.sin(2 * math.pi * h / 24 + ph) + rng.gauss(0, 0.1)) for h in hrs]

    if kind == "mixed":
        raw = smooth()
    elif kind == "heating_only":
        raw = [abs(x) + rng.choice([0.0, 0.05 * scale]) for x in smooth()]
    elif kind == "cooling_only":
        raw = [-abs(x) - rng.choice([0.0, 0.05 * scale]) for x in smooth()]
    elif kind == "zero_months":
        raw = smooth()
        for m in rng.sample(range(12), rng.randint(1, 6)):
            for h in range(MONTH_START[m], MONTH_START[m + 1]):
                raw[h] = 0.0
    elif kind == "one_sided_months":
        raw = smooth()
        for m in range(12):
            side = rng.choice([-1, 0, 1])
            if side:
                for h in range(MONTH_START[m], MONTH_START[m + 1]):
                    raw[h] = side * abs(raw[h])
    elif kind in ("first_day", "last_day", "same_day", "last_hour_of_year"):
        raw = [0.3 * x for x in smooth()]
        for m in range(12):
            n_days = DAYS[m]
            if kind == "first_day":
                dc, dh = 0, rng.choice([0, 0, rng.randrange(n_days)])
            elif kind == "last_day":
                dc, dh = n_days - 1, rng.choice([n_days - 1, rng.randrange(n_days)])
            elif kind == "same_day":
                dc = dh = rng.randrange(n_days)
            else:
                dc, dh = rng.randrange(n_days), rng.randrange(n_days)
            hc, hh = rng.randrange(24), rng.randrange(24)
            if dc == dh and hc == hh:
                hh = (hc + 1 + rng.randrange(23)) % 24
            which = rng.choice(["both", "both", "cool", "heat"])
            if which in ("both", "cool"):
                raw[MONTH_START[m] + 24 * dc + hc] = -scale * rng.uniform(2.0, 4.0)
            if which in ("both", "heat"):
                raw[MONTH_START[m] + 24 * dh + hh] = scale * rng.uniform(2.0, 4.0)
        if kind == "last_hour_of_year":
            raw[8759] = rng.choice([-1, 1]) * scale * 5.0
            raw[8758] = -raw[8759] * 0.9
    elif kind == "plateau":
        # long peaks: a block of 20..47 h at peak level in some months -> long durations
        raw = [0.2 * x for x in smooth()]
        for m in range(12):
            if rng.random() < 0.7:
                sgn = rng.choice([-1, 1])
                ln = rng.randint(20, 47)
                st = MONTH_START[m] + rng.randrange(0, 24 * DAYS[m] - ln)
                lvl = sgn * scale * rng.uniform(1.5, 3.0)
                for h in range(st, st + ln):
                    raw[h] = lvl * rng.uniform(0.97, 1.0)
    elif kind == "jan1_plateau":
        # both directions peak on 1 January, one of them after a long plateau over 31 Dec / 1 Jan
        raw = [0.05 * x for x in smooth()]
        sgn = rng.choice([-1, 1])
        lvl = sgn * scale * 3.0
        for h in list(range(8760 - 24, 8760)) + list(range(0, 23)):
            raw[h] = lvl * rng.uniform(0.98, 0.999)
        raw[rng.randrange(12, 22)] = lvl
        raw[23] = -sgn * scale * rng.uniform(2.0, 4.0)
    elif kind in ("turn_of_year_heating", "turn_of_year_cooling"):
        # one direction only; a sustained near-peak load over 31 December / 1 January whose maximum is on
        # 1 January: a single pulse on day 0 of the first simulated month with a duration of 27..48 h
        sgn = 1.0 if kind.endswith("heating") else -1.0
        raw = [sgn * (0.05 * abs(x) + 0.02 * scale) for x in smooth()]
        lvl = sgn * scale * rng.uniform(1.5, 3.0)
        before, after = rng.randint(8, 24), rng.randint(18, 24)   # plateau hours on 31 Dec / 1 Jan
        lo = rng.uniform(0.93, 0.985)
        for h in range(8760 - before, 8760):
            raw[h] = lvl * lo * rng.uniform(0.99, 1.0)
        for h in range(0, after):
            raw[h] = lvl * rng.uniform(0.985, 0.999)
        raw[rng.randrange(2, after)] = lvl
    elif kind == "constant":
        v = rng.choice([-1, 1]) * scale
        raw = [v] * 8760
    elif kind == "monthly_constant":
        levels = [rng.choice([-1, 1, 1]) * scale * rng.uniform(0.5, 1.5) for _ in range(12)]
        if rng.random() < 0.5:  # neighbouring months within the 0.1 kW tolerance of each other
            for m in range(1, 12):
                if rng.random() < 0.5:
                    levels[m] = levels[m - 1] - rng.choice([-1, 1]) * rng.uniform(1.0, 90.0)
        raw = []
        for m in range(12):
            raw += [levels[m]] * (24 * DAYS[m])
    elif kind == "atlanta":
        f = 10 ** rng.uniform(-2, 0.5) * rng.choice([-1, 1])
        raw = [f * x for x in ghelib.atlanta_loads()]
    else:
        raise ValueError(kind)
    return [float(x) for x in raw]


def f1_witness():
    """The F1 regression witness: heating-only 1 kW base, 5 kW at hour 5 of each month."""
    raw = [1000.0] * 8760
    for m in range(12):
        raw[MONTH_START[m] + 5] = 5000.0
    return raw


def raw_of_spec(spec):
    """Compact explicit profile: {"base": W, "blocks": [[start, stop, W], …], "set": [[hour, W], …]}."""
    raw = [float(spec.get("base", 0.0))] * 8760
    for a, b, v in spec.get("blocks", []):
        for h in range(a, b):
            raw[h] = float(v)
    for h, v in spec.get("set", []):
        raw[h] = float(v)
    return raw


def leap_raw(raw):
    """8784-hour version of an 8760-hour profile: 29 February repeats 28 February."""
    return raw[:1416] + raw[1392:1416] + raw[1416:]


def raw_of_case(case):
    if case.get("hours") == 8784:
        return leap_raw(raw_of_case({k: v for k, v in case.items() if k != "hours"}))
    if case.get("raw") is not None:
        return [float(x) for x in case["raw"]]
    if case.get("spec") is not None:
        return raw_of_spec(case["spec"])
    if case["kind"] == "f1_witness":
        return f1_witness()
    return make_raw(case["kind"], case["pseed"])


# --------------------------------------------------------------------------- the implementation
MONTHLY_FIELDS = ["monthly_cl", "monthly_hl", "monthly_peak_cl", "monthly_peak_hl", "monthly_avg_cl", "monthly_avg_hl",
                  "monthly_peak_cl_day", "monthly_peak_hl_day", "monthly_peak_cl_duration", "monthly_peak_hl_duration"]


def run_impl(args):
    """(case, phys) -> {'monthly': 12 rows of 10, 'runs': {end: {'load','hour','n_monthly', 'replicated_ok', 'warn'} | {'raise': name}},
    'windows': …}.  Runs the real HybridLoad constructor once per horizon."""
    case, phys = args
    from ghedesigner.ground_loads import HybridLoad
    from ghedesigner.simulation import SimulationParameters

    eq, rn = borehole(phys)
    raw = raw_of_case(case)
    out = {"runs": {}, "monthly": None}
    start = case.get("start", 1)
    for end in case["ends"]:
        sim = SimulationParameters(start, end, 35.0, 5.0, 135.0, 60.0)
        try:
            with warnings.catch_warnings(record=True) as w, ghelib.quiet():
                warnings.simplefilter("always")
                hl = HybridLoad(list(raw), eq, rn, sim)
            neg = sum(1 for x in w if "negative time step" in str(x.message))
        except Exception as e:  # noqa: BLE001 - the exception type is the datum
            out["runs"][end] = {"raise": type(e).__name__}
            continue
        if out["monthly"] is None:
            out["monthly"] = [[float(getattr(hl, f)[i]) for f in MONTHLY_FIELDS] for i in range(1, 13)]
            out["windows"] = [(list(map(float, hl.two_day_hourly_peak_cl_loads[i])), list(map(float, hl.two_day_hourly_peak_hl_loads[i])))
                              for i in range(1, 13)]
        # replication of the monthly values on the object itself
        rep_ok = True
        for f in MONTHLY_FIELDS:
            if "avg" in f:
                continue
            arr = getattr(hl, f)
            if len(arr) != max(13, end + 1) if start == 1 else False:
                rep_ok = False
            for i in range(13, len(arr)):
                a, b = arr[i], arr[i - 12]
                if not (a == b or (a != a and b != b)):
                    rep_ok = False
        out["runs"][end] = {"load": [float(x) for x in hl.load], "hour": [float(x) for x in hl.hour],
                            "replicated_ok": rep_ok, "neg_warn": neg,
                            "step": [float(x) for x in hl.step_func_load]}
    return out


def run_process_only(args):
    """Drive the real `process_month_loads` on arbitrary monthly arrays.
    args = (recs, start, end); recs = list of n rows (cl, hl, pcl, phl, dayc, dayh, dcl, dhl) for months 1..n."""
    recs, start, end = args
    import numpy as np
    from ghedesigner.ground_loads import HybridLoad

    hl = HybridLoad.__new__(HybridLoad)
    hl.start_month, hl.end_month = start, end
    hl.years = [YEAR]
    hl.peak_retain_start = hl.peak_retain_end = 12
    cols = list(zip(*recs))
    names = ["monthly_cl", "monthly_hl", "monthly_peak_cl", "monthly_peak_hl", "monthly_peak_cl_day", "monthly_peak_hl_day",
             "monthly_peak_cl_duration", "monthly_peak_hl_duration"]
    for nm, col in zip(names, cols):
        vals = [int(v) for v in col] if nm.endswith("_day") else [float(v) for v in col]
        setattr(hl, nm, [0] + vals)
    hl.load = np.array(0)
    hl.hour = np.array(0)
    hl.step_func_load = np.array(0)
    try:
        with warnings.catch_warnings():
            warnings.simplefilter("ignore")
            hl.process_month_loads()
    except Exception as e:  # noqa: BLE001
        return {"raise": type(e).__name__}
    return {"load": [float(x) for x in hl.load], "hour": [float(x) for x in hl.hour]}


# --------------------------------------------------------------------------- the model
def csv(xs):
    return ",".join(core.rs(x) for x in xs)


def fix(tok: str):
    return None if tok == "nan" else Fraction(int(tok), FIX)


def full_line(case, phys, raw=None):
    tpk, rb, g = g_params(phys)
    raw = raw if raw is not None else raw_of_case(case)
    ends = ",".join(str(e) for e in case["ends"])
    return f"hyb.full {case.get('year', YEAR)} {case.get('start', 1)} {ends} {core.rs(tpk)} {core.rs(rb)} {csv(g)} {csv(raw)}"


def parse_seq(s: str):
    s = s.strip()
    if s.startswith("raise"):
        return {"raise": s.split()[1]}
    toks = s.split()
    vals = [Fraction(int(t), FIX) for t in toks]
    return {"load": vals[0::2], "hour": vals[1::2]}


def parse_full(line: str, ends):
    """-> {'raise': name} | {'monthly': rows, 'nan': bool, 'runs': {end: seq}}"""
    if line.startswith("raise"):
        return {"raise": line.split()[1]}
    if not line.startswith("M "):
        return {"bad": line[:200]}
    parts = line.split(" | ")
    toks = parts[0].split()[1:]
    rows = []
    for i in range(12):
        t = toks[10 * i: 10 * i + 10]
        rows.append([fix(t[0]), fix(t[1]), fix(t[2]), fix(t[3]), fix(t[4]), fix(t[5]), int(t[6]), int(t[7]), fix(t[8]), fix(t[9])])
    out = {"monthly": rows, "runs": {}, "nan": False}
    if len(parts) > 1 and parts[1].strip() == "nan-duration":
        out["nan"] = True
        return out
    for e, p in zip(ends, parts[1:]):
        out["runs"][e] = parse_seq(p[2:] if p.startswith("S ") else p)
    return out


def seq_line(recs, start, end):
    flat = []
    for r in recs:
        flat += list(r)
    return f"hyb.seq {YEAR} {start} {end} {csv(flat)}"


def drive(ctx, lines, workers=16):
    """ctx.driver over chunks in parallel threads (the driver is a subprocess per call)."""
    if not lines:
        return []
    n = min(workers, len(lines))
    chunks = [lines[i::n] for i in range(n)]
    with ThreadPoolExecutor(n) as ex:
        outs = list(ex.map(lambda c: ctx.driver(c, timeout=1500), chunks))
    if any(o is None for o in outs):
        return None
    res = [None] * len(lines)
    for k, o in enumerate(outs):
        for j, v in enumerate(o):
            res[k + j * n] = v
    return res


# --------------------------------------------------------------------------- comparisons
def close(a, b, rel=1e-9, absol=0.0):
    """|a-b| <= rel*max(1,|b|) + absol with b the exact (model/oracle) value."""
    a = float(a)
    bf = float(b)
    if a != a or bf != bf:
        return False
    return abs(a - bf) <= rel * max(1.0, abs(bf)) + absol


def compare_seq(impl, model, rel=1e-9):
    """None when equal; else a short description of the first difference."""
    if "raise" in impl or "raise" in model:
        return None if impl.get("raise") == model.get("raise") else f"impl {impl.get('raise', 'returns')} vs model {model.get('raise', 'returns')}"
    if len(impl["load"]) != len(model["load"]):
        return f"length {len(impl['load'])} vs {len(model['load'])}"
    for k, (a, b) in enumerate(zip(impl["hour"], model["hour"])):
        if not close(a, b, rel):
            return f"hour[{k}] {a} vs {float(b)}"
    for k, (a, b) in enumerate(zip(impl["load"], model["load"])):
        if not close(a, b, rel, absol=1e-12):
            return f"load[{k}] {a} vs {float(b)}"
    return None


def compare_monthly(impl_rows, model_rows, dur_rel=1e-7):
    for m, (a, b) in enumerate(zip(impl_rows, model_rows), 1):
        for j in range(10):
            if j in (6, 7):
                if int(a[j]) != b[j]:
                    return f"month {m} {MONTHLY_FIELDS[j]} {a[j]} vs {b[j]}"
            elif b[j] is None:
                if math.isfinite(a[j]):
                    return f"month {m} {MONTHLY_FIELDS[j]} {a[j]} vs non-finite"
            else:
                if not close(a[j], b[j], dur_rel if j >= 8 else 1e-9):
                    return f"month {m} {MONTHLY_FIELDS[j]} {a[j]} vs {float(b[j])}"
    return None


# --------------------------------------------------------------------------- oracles on the implementation's arrays
def month_sums(raw, year=2019, n_months=12):
    """Per-month rejection / extraction totals (kWh), peaks (kW), day of the first peak and net load of
    the input profile — no shared code with the implementation.  Totals: `math.fsum` of the given
    doubles (exact sum, rounded once) divided exactly by 1000; peaks and days exact."""
    out = []
    starts = [oracle_month_end(m, year) for m in range(n_months + 1)]  # hours before each month of the load year(s)
    for m in range(n_months):
        seg = raw[starts[m]:starts[m + 1]]
        cl = Fraction(math.fsum(-x for x in seg if x < 0)) / 1000
        hl = Fraction(math.fsum(x for x in seg if x >= 0)) / 1000
        rej = [-x if x < 0 else 0.0 for x in seg]
        ext = [x if x >= 0 else 0.0 for x in seg]
        pr, pe = max(rej), max(ext)
        out.append({"cl": cl, "hl": hl, "pcl": Fraction(pr) / 1000, "phl": Fraction(pe) / 1000, "dayc": rej.index(pr) // 24,
                    "dayh": ext.index(pe) // 24, "net": cl - hl})
    return out


def month_integrals(load, hour, ends):
    """Signed Σ load_j (hour_j − hour_{j−1}) between consecutive month-end breakpoints.
    `ends` = list of month-end hours (ints) in order.  Returns list of Fractions or None when a
    month end is not a breakpoint (exact match on the float)."""
    res = []
    j = 2  # after the two initial zero entries
    prev_h = Fraction(hour[1])
    for e in ends:
        acc = Fraction(0)
        found = False
        while j < len(hour):
            h = Fraction(hour[j])
            acc += Fraction(load[j]) * (h - prev_h)
            prev_h = h
            j += 1
            if hour[j - 1] == float(e):
                found = True
                break
        if not found:
            return None
        res.append(acc)
    return res


# --------------------------------------------------------------------------- the shared exploration
HORIZONS = list(range(1, 37)) + [59, 60, 61, 119, 120, 240, 359, 360]


def gen_cases(rng: random.Random, n: int, n_phys: int, ends_per_case: int = 3):
    """n generated cases: kind round-robin (so every kind of the quantifier is present), random seed,
    random parameter set, `ends_per_case` horizons from HORIZONS (all of them get used across cases)."""
    cases = []
    pool = list(HORIZONS)
    rng.shuffle(pool)
    k = 0
    for j in range(n):
        ends = []
        for _ in range(ends_per_case):
            ends.append(pool[k % len(pool)])
            k += 1
        cases.append({"kind": KINDS[j % len(KINDS)], "pseed": rng.randrange(1 << 30), "phys_id": rng.randrange(n_phys),
                      "ends": sorted(set(ends))})
    return cases


def load_corpus(pid: str):
    import json
    d = core.CORPUS / pid
    out = []
    if d.is_dir():
        for f in sorted(d.glob("*.json")):
            c = json.loads(f.read_text())
            c["corpus"] = f.name
            out.append(c)
    return out


def degenerate_dirs(model_rows):
    """(month, 'cl'|'hl') whose exact peak equals the exact average (constant month): the float
    computation of `peak - avg` is rounding noise there, the duration is a near-boundary quantity."""
    out = set()
    for m, r in enumerate(model_rows, 1):
        for name, pk, av in (("cl", r[2], r[4]), ("hl", r[3], r[5])):
            if pk is not None and pk > 0 and abs(pk - av) <= Fraction(1, 10 ** 9) * pk:
                out.add((m, name))
    return out


def explore(ctx, cases, physs, label="hybrid"):
    """Run implementation and model on every case, do the correspondence bookkeeping on ctx, and
    return a list of result dicts {case, phys, raw, impl, model, arrays_from}.
    Correspondence streams (names appended to ctx.broken on disagreement):
      <label>-monthly-correspondence   monthly totals/peaks/averages (1e-9), peak days (exact),
                                       durations (1e-7; constant months are near-boundary)
      <label>-sequence-correspondence  whole (load, hour) sequence per horizon (1e-9), error kinds"""
    jobs = [(c, physs[c.get("phys_id", 0)]) for c in cases]
    impls = core.pool_map(run_impl, jobs)
    raws = [raw_of_case(c) for c in cases]
    lines = [full_line(c, p, raw) for (c, p), raw in zip(jobs, raws)]
    outs = drive(ctx, lines)
    results = []
    if outs is None:
        ctx.broken.append(f"{label}-model-run")
        outs = [None] * len(cases)
    redo = []  # (result index, end) to compare through hyb.seq on the implementation's own monthly arrays
    for k, ((c, p), raw, im, o) in enumerate(zip(jobs, raws, impls, outs)):
        res = {"case": c, "phys": p, "raw": raw, "impl": im, "model": None, "near_boundary": False}
        results.append(res)
        if o is None:
            continue
        mo = parse_full(o, c["ends"])
        res["model"] = mo
        if "bad" in mo:
            ctx.infra(f"model answered {mo['bad']!r}")
            continue
        impl_raises = [im["runs"][e].get("raise") for e in c["ends"]]
        if "raise" in mo:
            if any(r != mo["raise"] for r in impl_raises):
                _disagree(ctx, f"{label}-sequence-correspondence", c, f"model raises {mo['raise']} in the monthly stage, impl {impl_raises}")
            ctx.count("outcome:raise-" + mo["raise"])
            continue
        if im["monthly"] is None:
            _disagree(ctx, f"{label}-sequence-correspondence", c, f"impl raises {impl_raises} but the model returns")
            continue
        deg = degenerate_dirs(mo["monthly"])
        d = compare_monthly(im["monthly"], mo["monthly"])
        if d is not None:
            # allowed only in the duration of a degenerate direction
            ok = False
            if "duration" in d:
                mth = int(d.split()[1])
                which = "cl" if "peak_cl_duration" in d else "hl"
                # every differing duration must be degenerate
                ok = all((m, w) in deg for m, w in _duration_diffs(im["monthly"], mo["monthly"]))
                ok = ok and (mth, which) in deg
                ok = ok and compare_monthly([r[:8] + [0.0, 0.0] for r in im["monthly"]], [r[:8] + [Fraction(0), Fraction(0)] for r in mo["monthly"]]) is None
            if ok:
                res["near_boundary"] = True
                ctx.count("near-boundary:constant-month-duration")
                for e in c["ends"]:
                    redo.append((k, e))
                continue
            _disagree(ctx, f"{label}-monthly-correspondence", c, d)
            continue
        if mo["nan"]:
            ctx.count("outcome:nonfinite-duration")
            continue
        for e in c["ends"]:
            dd = compare_seq(im["runs"][e], mo["runs"][e])
            if dd is not None:
                _disagree(ctx, f"{label}-sequence-correspondence", c, f"end {e}: {dd}")
    # near-boundary cases: the sequence is compared on the implementation's own monthly arrays
    seq_jobs = []
    for k, e in redo:
        rows = results[k]["impl"]["monthly"]
        if not all(math.isfinite(v) for r in rows for v in r):
            continue
        if any(r[j] < 0 or r[j] > 24 * 27 for r in rows for j in (8, 9)):
            # a degenerate duration (constant month: peak - average is rounding noise, the duration comes out
            # as +-1e16 h): hours like 2893 + 1.4e16 - 1.4e16 lose whole hours in double precision, the exact
            # model keeps them.  Not a modelling question; the property predicate reports the case
            # (known finding degenerate-duration).
            ctx.count("near-boundary:degenerate-duration-sequence-not-compared")
            continue
        recs = [(r[0], r[1], r[2], r[3], r[6], r[7], r[8], r[9]) for r in rows]
        seq_jobs.append((k, e, seq_line(recs, results[k]["case"].get("start", 1), e)))
    if seq_jobs:
        o2 = drive(ctx, [j[2] for j in seq_jobs])
        if o2 is not None:
            for (k, e, _), line in zip(seq_jobs, o2):
                dd = compare_seq(results[k]["impl"]["runs"][e], parse_seq(line))
                if dd is not None:
                    _disagree(ctx, f"{label}-sequence-correspondence", results[k]["case"], f"end {e} (impl arrays): {dd}")
    return results


def _duration_diffs(impl_rows, model_rows):
    out = []
    for m, (a, b) in enumerate(zip(impl_rows, model_rows), 1):
        for j, w in ((8, "cl"), (9, "hl")):
            if b[j] is None:
                if math.isfinite(a[j]):
                    out.append((m, w))
            elif not close(a[j], b[j], 1e-7):
                out.append((m, w))
    return out


def _disagree(ctx, stream, case, what):
    ctx.disagreements_checked += 1
    if stream not in ctx.broken:
        ctx.broken.append(stream)
        ctx.extra[stream.replace("-", "_") + "_first"] = {"case": {k: v for k, v in case.items() if k != "raw"}, "what": what}
        ctx.log("correspondence differs:", stream, what, {k: v for k, v in case.items() if k != "raw"})


def random_recs(rng: random.Random, style: str):
    """12 arbitrary monthly records (cl, hl, pcl, phl, dayc, dayh, dcl, dhl) — not derived from a profile."""
    recs = []
    zero_room_month = rng.randrange(12) if rng.random() < 0.17 else -1
    jan_single = rng.choice(["cool", "heat"]) if rng.random() < 0.3 else None
    for m in range(12):
        nd = DAYS[m]
        big = 10 ** rng.uniform(0, 4)
        pcl = rng.choice([0.0, rng.uniform(0.1, 1.0) * big])
        phl = rng.choice([0.0, rng.uniform(0.1, 1.0) * big])
        if style == "tame":
            dcl, dhl = rng.choice([DELTA, rng.uniform(0.5, 12.0)]), rng.choice([DELTA, rng.uniform(0.5, 12.0)])
        elif style == "long":
            dcl, dhl = rng.uniform(0.5, 48.0), rng.uniform(0.5, 48.0)
        else:  # wild: zero, negative and absurd durations; one month in ~1/6 of the cases has an empty averaging period
            pick = lambda: rng.choice([0.0, DELTA, -rng.uniform(0.1, 30.0), rng.uniform(0.1, 400.0), 11.0 * nd])  # noqa: E731
            dcl, dhl = pick(), pick()
            if m == zero_room_month:  # exactly empty averaging period (ZeroDivisionError branch)
                pcl = pcl or 3.0
                phl = phl or 2.0
                dcl = rng.choice([0.0, 12.0 * nd, 100.0])
                dhl = 24.0 * nd - dcl
            room = 24.0 * nd - (dcl if pcl > 0 else 0.0) - (dhl if phl > 0 else 0.0)
            if room != 0.0 and abs(room) < 1e-3:  # float cancellation, not a modelling question
                dhl = 7.0
        dayc = rng.randrange(nd)
        dayh = dayc if rng.random() < 0.35 else rng.randrange(nd)
        if style != "wild" and pcl == 0.0:
            dayc = 0
        if style != "wild" and phl == 0.0:
            dayh = 0
        if m == 0 and style != "wild" and jan_single:
            # a single pulse on 1 January longer than 26 h: its centred start lies before hour 0
            if jan_single == "cool":
                pcl, phl, dayc, dayh, dcl = pcl or big, 0.0, 0, 0, rng.uniform(27.0, 48.0)
            else:
                pcl, phl, dayc, dayh, dhl = 0.0, phl or big, 0, 0, rng.uniform(27.0, 48.0)
        cl = pcl * rng.uniform(1.0, 300.0)
        hl = phl * rng.uniform(1.0, 300.0)
        recs.append((cl, hl, pcl, phl, dayc, dayh, dcl, dhl))
    return recs


def explore_process_only(ctx, n, label="hybrid"):
    """Arbitrary monthly arrays through the real `process_month_loads` vs the model's `hyb.seq`."""
    rng = ctx.rng
    jobs = []
    for j in range(n):
        style = ["tame", "long", "wild"][j % 3]
        start = 1 if rng.random() < 0.8 else rng.randint(2, 13)
        end = rng.choice(HORIZONS)
        if end < start:
            end = start + rng.randrange(0, 30)
        jobs.append((random_recs(rng, style), start, end, style))
    impls = core.pool_map(run_process_only, [(r, s, e) for r, s, e, _ in jobs], chunksize=8)
    outs = drive(ctx, [seq_line(r, s, e) for r, s, e, _ in jobs])
    res = []
    if outs is None:
        ctx.broken.append(f"{label}-model-run")
        return res
    for (recs, s, e, style), im, o in zip(jobs, impls, outs):
        mo = parse_seq(o) if not o.startswith(("bad", "unsupported")) else {"bad": o}
        ctx.count(f"arrays:{style}")
        if "bad" in mo:
            ctx.infra(f"model answered {o[:100]!r}")
            continue
        if "raise" in mo or "raise" in im:
            ctx.count("arrays-outcome:raise-" + str(mo.get("raise", im.get("raise"))))
        dd = compare_seq(im, mo)
        if dd is not None:
            _disagree(ctx, f"{label}-arrays-correspondence", {"recs": recs, "start": s, "end": e}, dd)
        res.append({"recs": recs, "start": s, "end": e, "style": style, "impl": im, "model": mo})
    return res


def calendar_correspondence(ctx, upto=420, label="hybrid"):
    """Gen.monthdays / firstMonthHour / lastMonthHour (translated) vs the real functions, months 1..upto,
    plus the datetime oracle on the real functions.  Returns the first oracle failure or None."""
    from ghedesigner.ground_loads import first_month_hour, last_month_hour, monthdays

    months = list(range(1, upto + 1))
    out = ctx.driver([f"hyb.cal {m} {YEAR}" for m in months])
    bad = None
    for k, m in enumerate(months):
        impl = (int(monthdays(m, YEAR)), int(first_month_hour(m, [YEAR])), int(last_month_hour(m, [YEAR])))
        if out is not None and tuple(int(x) for x in out[k].split()) != impl:
            _disagree(ctx, f"{label}-calendar-correspondence", {"month": m}, f"impl {impl} model {out[k]}")
        want = (oracle_month_hours(m) // 24, oracle_month_end(m - 1) + 1, oracle_month_end(m))
        if impl != want and bad is None:
            bad = (m, impl, want)
    ctx.count("calendar-months", len(months))
    return bad


def ipf(i, start, end):
    return i < start + 12 or i > end - 12


def month_table(monthly_rows):
    """rows of the implementation -> list of dicts (index 0 = January)."""
    keys = ["cl", "hl", "pcl", "phl", "avgcl", "avghl", "dayc", "dayh", "dcl", "dhl"]
    return [dict(zip(keys, r)) for r in monthly_rows]


# --------------------------------------------------------------------------- call-history stream
def history_object(item, phys):
    """One real HybridLoad with an explicit `years` list -> JSON-able arrays (or the exception name)."""
    from ghedesigner.ground_loads import HybridLoad
    from ghedesigner.simulation import SimulationParameters

    eq, rn = borehole(phys)
    raw = raw_of_case(item["case"])
    sim = SimulationParameters(1, item["months"], 35.0, 5.0, 135.0, 60.0)
    try:
        with warnings.catch_warnings(), ghelib.quiet():
            warnings.simplefilter("ignore")
            hl = HybridLoad(list(raw), eq, rn, sim, years=list(item["years"]))
    except Exception as e:  # noqa: BLE001
        return {"raise": type(e).__name__}
    return {"hour": [float(x) for x in hl.hour], "load": [float(x) for x in hl.load],
            "monthly": [[float(getattr(hl, f)[i]) for f in MONTHLY_FIELDS] for i in range(1, 13)]}


def history_run(seq, phys):
    """Execute a call sequence in THIS process, in order.  Items:
    {"op": "hybrid", "years": [y], "months": n, "case": {...}}  |  {"op": "cal", "month": m, "year": y}"""
    from ghedesigner.ground_loads import first_month_hour, last_month_hour, monthdays

    out = []
    for it in seq:
        if it["op"] == "cal":
            out.append({"cal": [int(monthdays(it["month"], it["year"])), int(first_month_hour(it["month"], [it["year"]])),
                                int(last_month_hour(it["month"], [it["year"]]))]})
        else:
            out.append(history_object(it, phys))
    return out


def history_subprocess(seq, phys, timeout=900):
    """Run a call sequence in a FRESH interpreter (no state left over from anything this check did)."""
    import json
    import subprocess
    import sys

    r = subprocess.run([sys.executable, __file__, "--history"], input=json.dumps({"seq": seq, "phys": phys}),
                       capture_output=True, text=True, timeout=timeout)
    if r.returncode != 0:
        return {"error": (r.stderr or r.stdout)[-400:]}
    return {"results": json.loads(r.stdout.splitlines()[-1])}


HISTORY_KINDS = ["mixed", "atlanta", "first_day", "last_day", "same_day", "zero_months", "heating_only", "one_sided_months"]


def gen_histories(rng: random.Random, n: int):
    """Call sequences mixing years=[2019] / [2020] (leap, 8784-hour profile) / [2021], horizons and
    direct calendar-helper calls, in varying order.  The first ones are fixed boundary sequences."""
    def obj(year, months, kind=None, pseed=None):
        c = {"kind": kind or rng.choice(HISTORY_KINDS), "pseed": rng.randrange(1 << 30) if pseed is None else pseed}
        if year % 4 == 0:
            c["hours"] = 8784
        c["year"] = year
        return {"op": "hybrid", "years": [year], "months": months, "case": c}

    seqs = [
        [obj(2020, 24, "atlanta", 1), obj(2019, 30, "atlanta", 1)],
        [obj(2019, 12, "mixed", 2), obj(2020, 13, "mixed", 2), obj(2021, 25, "mixed", 2), obj(2019, 12, "mixed", 2)],
        [{"op": "cal", "month": 2, "year": 2020}, {"op": "cal", "month": 2, "year": 2019}, {"op": "cal", "month": 14, "year": 2021},
         {"op": "cal", "month": 14, "year": 2020}, obj(2019, 14, "first_day", 3)],
        [obj(2021, 36, "same_day", 4), obj(2020, 36, "same_day", 4), obj(2019, 36, "same_day", 4), obj(2020, 12, "same_day", 4)],
    ]
    while len(seqs) < n:
        seq = []
        for _ in range(rng.randint(3, 6)):
            if rng.random() < 0.25:
                seq.append({"op": "cal", "month": rng.randint(1, 40), "year": rng.choice([2019, 2020, 2021])})
            else:
                seq.append(obj(rng.choice([2019, 2019, 2020, 2021]), rng.choice([1, 2, 3, 11, 12, 13, 14, 23, 24, 25, 30, 36, 59, 60, 61])))
        seqs.append(seq)
    return seqs[:n]


if __name__ == "__main__":
    import json
    import sys

    if "--history" in sys.argv:
        job = json.loads(sys.stdin.read())
        print(json.dumps(history_run(job["seq"], job["phys"])))


# --------------------------------------------------------------------------- whole-GHE streams (glue around HybridLoad)
def wave_profile(seed: int, hours: int = 8760, second_year_factor=None):
    """A smooth two-sided profile (W) that is non-zero in EVERY hour (in particular on 31 December and on
    29 February of an 8784-hour year); optionally followed by a second year at `second_year_factor`."""
    rng = random.Random(seed)
    a, b, c = rng.uniform(3000, 9000), rng.uniform(500, 2500), rng.uniform(300, 1500)
    ph = rng.uniform(0, 6.28)
    y1 = [a * math.cos(2 * math.pi * (h // 24) / (hours / 24.0) + ph) + b * math.sin(2 * math.pi * (h % 24) / 24.0) - c
          + 37.0 * ((h * 7919) % 13) for h in range(hours)]
    y1 = [x if abs(x) > 1.0 else 25.0 for x in y1]
    if second_year_factor is None:
        return y1
    return y1 + [second_year_factor * x for x in y1]


def snapshot_hybrid(hl):
    n = len(hl.monthly_cl)
    return {"hour": [float(x) for x in hl.hour], "load": [float(x) for x in hl.load], "years": [int(y) for y in hl.years],
            "monthly": [[float(getattr(hl, f)[i]) for f in MONTHLY_FIELDS] for i in range(1, min(n, 12 * max(1, len(hl.years)) + 1))]}


def peaky_profile(seed: int, hours: int = 8760, n_years: int = 1, amp: float = 30000.0):
    """Two-sided profile (W), non-zero in every hour, different from load year to load year, with one
    distinct rejection peak hour and one distinct extraction peak hour per month; December's two peaks are
    both on 31 December (the last day of the list for a one-year profile), February's on its last day."""
    rng = random.Random(seed)
    out = []
    for y in range(n_years):
        f = amp * (1.0 + 0.45 * y) * rng.uniform(0.8, 1.2)
        ph = rng.uniform(-20, 20)
        yr = [f * (0.25 + 0.6 * max(0.0, math.sin(math.pi * ((h % 24) - 6) / 12.0))) * math.cos(2 * math.pi * ((h // 24) - 15 - ph) / (hours / 24.0))
              * (0.9 + 0.2 * (((h + 17 * y) * 7919) % 101) / 101.0) for h in range(hours)]
        yr = [x if abs(x) > 5.0 else 5.0 + (h % 7) for h, x in enumerate(yr)]
        days = [31, 29 if hours == 8784 else 28, 31, 30, 31, 30, 31, 31, 30, 31, 30, 31]
        t0 = 0
        for m, nd in enumerate(days):
            d_c = nd - 1 if m in (1, 11) else rng.randrange(nd)
            d_h = nd - 1 if m in (1, 11) else rng.randrange(nd)
            h_c = rng.randrange(24)
            h_h = (h_c + 1 + rng.randrange(22)) % 24
            yr[t0 + 24 * d_c + h_c] = -f * rng.uniform(1.3, 1.6)
            yr[t0 + 24 * d_h + h_h] = f * rng.uniform(1.3, 1.6)
            t0 += 24 * nd
        out += yr
    return out


def end_plateau_profile(seed: int, hours: int, month: int):
    """A smooth profile with a plateau over the last two days of calendar month `month` (1..12) in one
    direction: a peak on the last day of that month whose pulse runs past the month end."""
    rng = random.Random(seed)
    raw = [0.2 * x for x in wave_profile(seed, hours)]
    days = [31, 29 if hours == 8784 else 28, 31, 30, 31, 30, 31, 31, 30, 31, 30, 31]
    end = 24 * sum(days[:month])
    lvl = rng.choice([-1.0, 1.0]) * rng.uniform(20000.0, 60000.0)
    for h in range(end - 48, end):
        raw[h] = lvl * rng.uniform(0.985, 0.999)
    raw[end - rng.randint(2, 10)] = lvl
    return raw


def profile_of(a):
    kind = a.get("profile", "wave")
    ny = len(a["years"])
    if kind == "peaky":
        return peaky_profile(a["seed"], a["hours"], ny, a.get("amp", 30000.0))
    if kind == "end_plateau":
        return end_plateau_profile(a["seed"], a["hours"], a["plateau_month"])
    return wave_profile(a["seed"], a["hours"], a.get("second_year_factor"))


def run_ghe_history(args):
    """Build a real GHE (through GHE.__init__), snapshot its hybrid load, then simulate(HYBRID) twice and
    size once, snapshotting after every call.  args = dict(phys, seed, start, end, years, hours, profile…)."""
    from ghedesigner.enums import TimestepType
    from ghedesigner.gfunction import calc_g_func_for_multiple_lengths
    from ghedesigner.ground_heat_exchangers import GHE
    from ghedesigner.simulation import SimulationParameters
    from ghedesigner.utilities import eskilson_log_times

    a = args
    phys = a["phys"]
    fluid, pipe, grout, soil, bh, bhe_type = ghelib.media(phys, "SINGLEUTUBE")
    coords = [(0.0, 0.0), (5.0, 0.0), (0.0, 5.0), (5.0, 5.0)]
    loads = profile_of(a)
    sim = SimulationParameters(a["start"], a["end"], 35.0, 5.0, 135.0, 60.0)
    m_bh = phys["flow"] / 1000.0 * fluid.rho
    out = {"steps": []}
    try:
        with ghelib.quiet(), warnings.catch_warnings():
            warnings.simplefilter("ignore")
            g = calc_g_func_for_multiple_lengths(5.0, [60.0, 97.0, 135.0], bh.r_b, bh.D, m_bh, bhe_type, eskilson_log_times(),
                                                 coords, fluid, pipe, grout, soil)
            ghe = GHE(phys["flow"] * len(coords), 5.0, bhe_type, fluid, bh, pipe, grout, soil, g, sim, list(loads),
                      load_years=list(a["years"]))
            out["steps"].append(("built", snapshot_hybrid(ghe.hybrid_load)))
            for name in a.get("calls", ["simulate", "simulate", "size"]):
                try:
                    if name == "simulate":
                        ghe.simulate(TimestepType.HYBRID)
                    else:
                        ghe.size(TimestepType.HYBRID)
                except Exception as e:  # noqa: BLE001
                    out["steps"].append((name + ":raise-" + type(e).__name__, snapshot_hybrid(ghe.hybrid_load)))
                    continue
                out["steps"].append((name, snapshot_hybrid(ghe.hybrid_load)))
    except Exception as e:  # noqa: BLE001
        out["raise"] = type(e).__name__ + ": " + str(e)[:200]
    return out


def ghe_history_jobs(rng, n, phys, flavour="wave"):
    """GHE call-history jobs.  flavour: "wave" (every hour non-zero), "peaky" (distinct monthly peaks,
    December peaks on 31 December), "end_plateau" (last-month peak running past the end of the horizon)."""
    fixed = [(4, 27, [2019]), (1, 24, [2020]), (1, 12, [2019]), (2, 13, [2019]), (7, 30, [2021]), (12, 36, [2019]), (1, 13, [2020]), (4, 15, [2020])]
    if flavour == "end_plateau":
        fixed = [(1, 18, [2019]), (1, 12, [2019]), (1, 24, [2020]), (4, 18, [2019]), (1, 6, [2021]), (2, 14, [2020]), (1, 30, [2019]), (7, 19, [2021])]
    jobs = []
    for k in range(n):
        if k < len(fixed):
            start, end, years = fixed[k]
        else:
            start, years = rng.choice([1, 2, 4, 7, 12]), [rng.choice([2019, 2020, 2021])]
            end = start + rng.choice([0, 5, 11, 12, 17, 23, 26])
        j = {"phys": phys, "seed": rng.randrange(1 << 30), "start": start, "end": end, "years": years,
             "hours": 8784 if years[0] % 4 == 0 else 8760, "profile": flavour}
        if flavour == "end_plateau":
            j["plateau_month"] = (end - 1) % 12 + 1
        jobs.append(j)
    return jobs


def run_design_search(args):
    """A real design search through the public design classes with explicit load_years / flow type;
    returns the hybrid load of the GHE the search RETURNS and, for comparison, the monthly durations of a
    HybridLoad built from the public classes for the SAME exchanger (same per-borehole flow).
    args = dict(phys, seed, years, hours, months, design, profile, flow, flow_type, …)."""
    from ghedesigner.borehole import GHEBorehole
    from ghedesigner.borehole_heat_exchangers import get_bhe_object
    from ghedesigner import design as D
    from ghedesigner import geometry as G
    from ghedesigner.enums import FlowConfigType, TimestepType
    from ghedesigner.ground_loads import HybridLoad
    from ghedesigner.radial_numerical_borehole import RadialNumericalBH
    from ghedesigner.simulation import SimulationParameters

    a = args
    phys = a["phys"]
    fluid, pipe, grout, soil, bh, bhe_type = ghelib.media(phys, "SINGLEUTUBE")
    loads = profile_of(a)
    sim = SimulationParameters(1, a["months"], 35.0, 5.0, 135.0, 60.0, continue_if_design_unmet=True)
    ft = FlowConfigType.SYSTEM if a.get("flow_type") == "SYSTEM" else FlowConfigType.BOREHOLE
    flow = a.get("flow", phys["flow"])
    lot = a.get("lot", 20.0)
    rect = [[0.0, 0.0], [lot, 0.0], [lot, 0.75 * lot], [0.0, 0.75 * lot]]
    out = {}
    try:
        with ghelib.quiet(), warnings.catch_warnings():
            warnings.simplefilter("ignore")
            kw = dict(method=TimestepType.HYBRID, flow_type=ft, load_years=list(a["years"]))
            common = (flow, bh, bhe_type, fluid, pipe, grout, soil, sim)
            k = a["design"]
            if k == "NEARSQUARE":
                d = D.DesignNearSquare(*common, G.GeometricConstraintsNearSquare(5.0, lot), list(loads), **kw)
            elif k == "RECTANGLE":
                d = D.DesignRectangle(*common, G.GeometricConstraintsRectangle(lot, 0.75 * lot, 4.0, 8.0), list(loads), **kw)
            elif k == "BIRECTANGLE":
                d = D.DesignBiRectangle(*common, G.GeometricConstraintsBiRectangle(lot, lot, 4.0, 10.0, 12.0), list(loads), **kw)
            elif k == "BIZONED":
                d = D.DesignBiZoned(*common, G.GeometricConstraintsBiZoned(lot, lot, 4.0, 10.0, 12.0), list(loads), **kw)
            elif k == "BIRECTANGLECONSTRAINED":
                d = D.DesignBiRectangleConstrained(*common, G.GeometricConstraintsBiRectangleConstrained(4.0, 10.0, 12.0, rect, []), list(loads), **kw)
            elif k == "ROWWISE":
                d = D.DesignRowWise(*common, G.GeometricConstraintsRowWise(None, 8.0, 10.0, 2.0, -math.pi / 2, 0.0, 30.0, rect, []), list(loads), **kw)
            else:
                raise ValueError(k)
            search = d.find_design()
            ghe = search.ghe
            nbh = len(ghe.gFunction.bore_locations)
            out["n_boreholes"] = nbh
            out["returned"] = snapshot_hybrid(ghe.hybrid_load)
            # the same exchanger from the public building blocks: same per-borehole flow, built at the
            # search height (max_height), the current height is tried as well
            fluid2, pipe2, grout2, soil2, bh2, _ = ghelib.media(phys, "SINGLEUTUBE")
            m_bh = (flow / nbh if ft == FlowConfigType.SYSTEM else flow) / 1000.0 * fluid2.rho
            refs = {}
            for name, hgt in (("max_height", 135.0), ("returned_height", float(ghe.bhe.b.H))):
                bhe = get_bhe_object(bhe_type, m_bh, fluid2, GHEBorehole(hgt, bh2.D, bh2.r_b, x=0.0, y=0.0), pipe2, grout2, soil2)
                eq = bhe.to_single()
                rn = RadialNumericalBH(eq)
                rn.calc_sts_g_functions(eq)
                ref = HybridLoad(list(loads), eq, rn, SimulationParameters(1, a["months"], 35.0, 5.0, 135.0, 60.0), years=list(a["years"]))
                refs[name] = snapshot_hybrid(ref)
            out["reference"] = refs
            out["flow_per_borehole"] = flow / nbh if ft == FlowConfigType.SYSTEM else flow
    except Exception as e:  # noqa: BLE001
        out["raise"] = type(e).__name__ + ": " + str(e)[:300]
    return out


DESIGN_BASE = [
    {"design": "NEARSQUARE", "years": [2018, 2019], "hours": 8760, "months": 24},
    {"design": "BIRECTANGLE", "years": [2018, 2019], "hours": 8760, "months": 24, "lot": 30.0, "flow": 0.3},
    {"design": "NEARSQUARE", "years": [2019], "hours": 8760, "months": 24, "flow": 0.3, "flow_type": "SYSTEM", "lot": 40.0},
    {"design": "RECTANGLE", "years": [2020], "hours": 8784, "months": 24},
    {"design": "BIZONED", "years": [2021, 2022], "hours": 8760, "months": 24, "lot": 30.0},
    {"design": "BIRECTANGLECONSTRAINED", "years": [2020], "hours": 8784, "months": 13, "lot": 30.0},
    {"design": "ROWWISE", "years": [2018, 2019], "hours": 8760, "months": 24, "lot": 24.0},
    {"design": "NEARSQUARE", "years": [2020], "hours": 8784, "months": 13},
    {"design": "BIRECTANGLE", "years": [2020], "hours": 8784, "months": 12, "lot": 30.0, "flow": 0.4, "flow_type": "SYSTEM"},
]


def design_search_jobs(rng, n, phys, profile="peaky"):
    jobs = []
    for k in range(n):
        j = dict(DESIGN_BASE[k % len(DESIGN_BASE)])
        j.update(phys=phys, seed=rng.randrange(1 << 30), profile=profile)
        if profile == "wave" and len(j["years"]) > 1:
            j["second_year_factor"] = rng.choice([0.5, 1.7])
        jobs.append(j)
    return jobs


def run_manager_history(args):
    """GHEManager call history: set_simulation_parameters once per entry of args["horizons"] (the last
    one counts), then loads, geometry, set_design, find_design.  Returns the hybrid load of the found design."""
    from ghedesigner.manager import GHEManager

    a = args
    phys = a["phys"]
    out = {}
    try:
        with ghelib.quiet(), warnings.catch_warnings():
            warnings.simplefilter("ignore")
            m = GHEManager()
            m.set_fluid(phys["fluid"][0], phys["fluid"][1])
            m.set_grout(*phys["grout"])
            m.set_soil(*phys["soil"])
            h, d, dia = phys["borehole"]
            ghelib.set_pipe(m, "SINGLEUTUBE", phys, dia)
            m.set_borehole(h, d, dia)
            for nm in a["horizons"]:
                m.set_simulation_parameters(nm, 35.0, 5.0, 135.0, 60.0, None, True)
            m.set_ground_loads_from_hourly_list(list(profile_of(a)))
            m.set_geometry_constraints_near_square(b=5.0, length=10.0)
            m.set_design(phys["flow"], "BOREHOLE")
            m.find_design()
            out["returned"] = snapshot_hybrid(m._search.ghe.hybrid_load)
    except Exception as e:  # noqa: BLE001
        out["raise"] = type(e).__name__ + ": " + str(e)[:300]
    return out


# --------------------------------------------------------------------------- multi-year calendars (HybridLoad built directly)
MULTI_YEAR_SETS = [[2018, 2019], [2019, 2020], [2020, 2021], [2019, 2020, 2021], [2021, 2022, 2023], [2023, 2024]]


def multiyear_profile(seed, years, flavour="wave"):
    raw = []
    for k, y in enumerate(years):
        hrs = 8784 if y % 4 == 0 else 8760
        raw += (peaky_profile(seed + k, hrs, 1, 30000.0 * (1 + 0.4 * k)) if flavour == "peaky" else wave_profile(seed + 31 * k, hrs))
    return raw


def has_leap(years):
    return any(y % 4 == 0 for y in years)


def run_multiyear(args):
    """A real HybridLoad built directly with a multi-year `years` list over all its load years."""
    from ghedesigner.ground_loads import HybridLoad
    from ghedesigner.simulation import SimulationParameters

    a = args
    eq, rn = borehole(a["phys"])
    raw = multiyear_profile(a["seed"], a["years"], a.get("flavour", "wave"))
    try:
        with warnings.catch_warnings(), ghelib.quiet():
            warnings.simplefilter("ignore")
            hl = HybridLoad(list(raw), eq, rn, SimulationParameters(1, 12 * len(a["years"]), 35.0, 5.0, 135.0, 60.0), years=list(a["years"]))
    except Exception as e:  # noqa: BLE001
        return {"raise": type(e).__name__ + ": " + str(e)[:200]}
    return {"snap": snapshot_hybrid(hl)}


def multiyear_jobs(rng, phys, flavour="wave"):
    return [{"phys": phys, "seed": rng.randrange(1 << 30), "years": list(ys), "flavour": flavour} for ys in MULTI_YEAR_SETS]
