"""Shared machinery for every property check.

A check is `harness/cXX.py` exposing

    PROPERTY = "C19"
    LEVEL    = "proof"
    def run(ctx): ...

`run` uses the `Ctx` below to (1) regenerate the Gen/*.lean files from /repo and
rebuild + audit the Lean side, (2) talk to the compiled Lean driver over the line
protocol, (3) record cases / samples / histograms, (4) report violations or known
findings.  `Ctx.finish()` writes evidence/<id>.json and returns the exit code.

Exit codes: 0 held, 1 violation (a VIOLATION line was printed), 2 infrastructure.
"""
from __future__ import annotations

import fcntl
import json
import os
import random
import re
import subprocess
import sys
import time
from fractions import Fraction
from pathlib import Path

VERIF = Path(__file__).resolve().parent.parent
LEAN = VERIF / "lean"
REPO = Path(os.environ.get("VERIF_REPO", "/repo"))
EVIDENCE = VERIF / "evidence"
REPLAYS = VERIF / "replays"
CORPUS = VERIF / "corpus"
KNOWN = VERIF / "known_findings.txt"
ALLOWED_AXIOMS = {"propext", "Classical.choice", "Quot.sound"}
FORBIDDEN_RE = re.compile(
    r"\bsorry\b|\badmit\b|^axiom\s|native_decide|bv_decide|implemented_by|\bunsafe\s|maxHeartbeats\s+0\b",
    re.M,
)

os.environ.setdefault("OMP_NUM_THREADS", "1")
os.environ.setdefault("OPENBLAS_NUM_THREADS", "1")
os.environ.setdefault("MKL_NUM_THREADS", "1")
os.environ.setdefault("BETSRG_GHEDESIGNER_VERIF", "1")


def frac(x) -> Fraction:
    """Exact rational value of a Python number (every IEEE double is a rational)."""
    if isinstance(x, Fraction):
        return x
    if isinstance(x, bool):
        return Fraction(int(x))
    if isinstance(x, int):
        return Fraction(x)
    return Fraction(float(x))


def rs(x) -> str:
    """Number -> 'n/d' for the line protocol."""
    f = frac(x)
    return f"{f.numerator}/{f.denominator}"


def pr(s: str) -> Fraction:
    """'n/d' -> Fraction."""
    s = s.strip()
    if "/" in s:
        n, d = s.split("/")
        return Fraction(int(n), int(d))
    return Fraction(s)


def strip_lean_comments(src: str) -> str:
    """Remove `--` line comments and (nested) `/- -/` block comments."""
    out = []
    i, n, depth = 0, len(src), 0
    while i < n:
        if src.startswith("/-", i):
            depth += 1
            i += 2
            continue
        if depth and src.startswith("-/", i):
            depth -= 1
            i += 2
            continue
        if depth:
            if src[i] == "\n":
                out.append("\n")
            i += 1
            continue
        if src.startswith("--", i):
            while i < n and src[i] != "\n":
                i += 1
            continue
        out.append(src[i])
        i += 1
    return "".join(out)


class Ctx:
    def __init__(self, pid: str, level: str, tier: str, seed: int, replay: str | None = None):
        self.pid = pid
        self.level = level
        self.tier = tier
        self.seed = seed
        self.replay = replay
        self.rng = random.Random(seed * 1000003 + sum(map(ord, pid)))
        self.t0 = time.time()
        self.violations: list[dict] = []
        self.known_hits: list[str] = []
        self.infra_errors: list[str] = []
        self.cases = 0
        self.distinct: set = set()
        self.samples: list = []
        self.hist: dict[str, int] = {}
        self.rule = ""
        self.assumptions: list[str] = []
        self.trusted_base: list[str] = [
            "Lean 4.33.0 kernel",
            "axioms allowed: propext, Classical.choice, Quot.sound (no native_decide, no bv_decide, no own axioms, no sorry)",
        ]
        self.extra: dict = {}
        self.obligations: list[str] = []
        self.discharged: list[str] = []
        self.broken: list[str] = []  # theorems / correspondence streams that no longer check
        self.checker_cmd = ""
        self.programs = 0
        self.disagreements_checked = 0
        self.exhaustive = False
        self._driver = None
        self._known = self._load_known()
        EVIDENCE.mkdir(exist_ok=True)

    # ------------------------------------------------------------------ known findings
    def _load_known(self):
        known = {}
        if KNOWN.exists():
            for line in KNOWN.read_text().splitlines():
                line = line.strip()
                m = re.match(r"known:\s+property=(\S+)\s+key=(\S+)\s*(.*)", line)
                if m and m.group(1) == self.pid:
                    known[m.group(2)] = m.group(3)
        return known

    # ------------------------------------------------------------------ bookkeeping
    def count(self, key: str, n: int = 1):
        self.hist[key] = self.hist.get(key, 0) + n

    def case(self, signature=None, nontrivial: bool = True, sample=None):
        """Record one explored case.  `signature` identifies distinct cases."""
        self.cases += 1
        if nontrivial and signature is not None:
            self.distinct.add(signature if isinstance(signature, (str, int, tuple)) else json.dumps(signature, sort_keys=True, default=str))
        if sample is not None and len(self.samples) < 6:
            self.samples.append(sample)

    def log(self, *a):
        print(f"[{self.pid}]", *a, flush=True)

    # ------------------------------------------------------------------ verdicts
    def finding(self, key: str, what: str, replay: dict, failing_input: bool = True):
        """A property failure on the implementation.  Known (listed) -> KNOWN-FINDING, else VIOLATION."""
        if key in self._known:
            if key not in self.known_hits:
                self.known_hits.append(key)
                print(f"KNOWN-FINDING: property={self.pid} {key} {self._known[key]}", flush=True)
            self.count("known-finding:" + key)
            return False
        self.violation(key, what, replay, failing_input)
        return True

    def violation(self, key: str, what: str, replay: dict, failing_input: bool = True):
        REPLAYS.mkdir(exist_ok=True)
        n = len(self.violations)
        path = REPLAYS / f"{self.pid}-{self.seed}-{n}.json"
        payload = {
            "property": self.pid,
            "key": key,
            "what": what,
            "failing_input_found": failing_input,
            "seed": self.seed,
            "tier": self.tier,
            "replay": replay,
        }
        path.write_text(json.dumps(payload, indent=1, default=str))
        self.violations.append({"key": key, "what": what, "path": str(path), "failing_input": failing_input})
        if len(self.violations) <= 5:
            tail = "" if failing_input else " no-failing-input-found"
            print(f"VIOLATION property={self.pid} replay={path.relative_to(VERIF)}{tail}", flush=True)
            print(f"  {key}: {what}", flush=True)

    def infra(self, msg: str):
        self.infra_errors.append(msg)
        print(f"INFRA-ERROR [{self.pid}] {msg}", file=sys.stderr, flush=True)

    # ------------------------------------------------------------------ Lean side
    def lean_prepare(self, props_module: str | None = None, need_driver: bool = True, gen: bool = True):
        """Regenerate Gen/*.lean from /repo, build driver + property module, audit axioms.

        Returns True when everything built; otherwise records the broken obligations in
        self.broken (the caller goes on with the failing-input search)."""
        props_module = props_module or f"GHEVerif.Props.{self.pid}"
        props_file = LEAN / (props_module.replace(".", "/") + ".lean")
        lock = open(VERIF / ".lean.lock", "w")
        fcntl.flock(lock, fcntl.LOCK_EX)
        ok = True
        try:
            if gen:
                r = subprocess.run(
                    [sys.executable, str(VERIF / "translate" / "gen.py")], capture_output=True, text=True
                )
                if r.returncode != 0:
                    # a generator left the supported subset: that concerns this property only if its
                    # property module (transitively) imports a Gen file owned by the failed generator
                    out = (r.stdout + r.stderr)
                    failed = {}
                    try:
                        failed = json.loads((LEAN / "GHEVerif" / "Gen" / ".failed.json").read_text())
                    except Exception:  # noqa: BLE001
                        failed = {"translator": {"error": out.strip().splitlines()[-1] if out.strip() else "translator failed", "files": None}}
                    deps = self._import_closure(props_module)
                    for name, info in failed.items():
                        mods = None if info.get("files") is None else {"GHEVerif.Gen." + f[:-5] for f in info["files"]}
                        if mods is None or (mods & deps):
                            ok = False
                            self.broken.append(f"translator ({name}): {info['error']}")
                        else:
                            self.log(f"translator: generator {name} failed ({info['error']}) but {props_module} does not depend on it")
            thms = self._theorems(props_file)
            self.obligations = thms
            targets = [props_module] + (["driver"] if need_driver else [])
            self.checker_cmd = f"cd lean && lake build {' '.join(targets)} && lake env lean <generated audit: #print axioms for every theorem of {props_module}>"
            t = time.time()
            r = subprocess.run(["lake", "build"] + targets, cwd=LEAN, capture_output=True, text=True)
            self.extra["lake_build_s"] = round(time.time() - t, 1)
            if r.returncode != 0:
                ok = False
                out = r.stdout + r.stderr
                self.log("lake build failed:\n" + out[-4000:])
                bad = self._failed_theorems(out, props_file, thms)
                self.broken.extend(bad or [f"build of {props_module} (or a module it imports)"])
                # the driver may still be buildable on its own
                if need_driver:
                    subprocess.run(["lake", "build", "driver"], cwd=LEAN, capture_output=True, text=True)
                self.discharged = []  # nothing is audited when the build fails
            else:
                self._audit(props_module, props_file, thms)
                if self.broken:
                    ok = False
        finally:
            fcntl.flock(lock, fcntl.LOCK_UN)
            lock.close()
        self.extra["obligation_names"] = self.obligations
        return ok

    def _import_closure(self, module: str):
        """Transitive `import GHEVerif.…` closure of a module of the project."""
        seen, todo = set(), [module]
        while todo:
            m = todo.pop()
            if m in seen or not m.startswith("GHEVerif"):
                continue
            seen.add(m)
            f = LEAN / (m.replace(".", "/") + ".lean")
            if f.exists():
                for line in f.read_text().splitlines():
                    mm = re.match(r"\s*import\s+(GHEVerif\S*)", line)
                    if mm:
                        todo.append(mm.group(1))
        return seen

    def _theorems(self, props_file: Path):
        if not props_file.exists():
            return []
        src = strip_lean_comments(props_file.read_text())
        ns = []
        names = []
        for line in src.splitlines():
            m = re.match(r"\s*namespace\s+(\S+)", line)
            if m:
                ns.append(m.group(1))
                continue
            m = re.match(r"\s*end\s+(\S+)\s*$", line)
            if m and ns and ns[-1] == m.group(1):
                ns.pop()
                continue
            m = re.match(r"\s*(?:@\[[^\]]*\]\s*)?(?:private\s+|protected\s+)?theorem\s+(\S+)", line)
            if m:
                names.append(".".join(ns + [m.group(1)]))
        return names

    def _failed_theorems(self, out: str, props_file: Path, thms):
        """Map `error:` lines inside the property file to the theorem they fall in."""
        bad = []
        lines = props_file.read_text().splitlines() if props_file.exists() else []
        starts = []
        for i, l in enumerate(lines, 1):
            m = re.match(r"\s*(?:@\[[^\]]*\]\s*)?(?:private\s+|protected\s+)?theorem\s+(\S+)", l)
            if m:
                starts.append((i, m.group(1)))
        for m in re.finditer(r"error: (\S+?):(\d+):(\d+)", out):
            if Path(m.group(1)).name != props_file.name:
                continue
            ln = int(m.group(2))
            cur = None
            for s, name in starts:
                if s <= ln:
                    cur = name
            if cur:
                full = next((t for t in thms if t.endswith(cur)), cur)
                if full not in bad:
                    bad.append(full)
        return bad

    def _audit(self, props_module: str, props_file: Path, thms):
        # 1. forbidden tokens anywhere in the Lean tree (comments stripped)
        for f in sorted(LEAN.glob("GHEVerif/**/*.lean")) + [LEAN / "Driver.lean"]:
            src = strip_lean_comments(f.read_text())
            m = FORBIDDEN_RE.search(src)
            if m:
                self.broken.append(f"audit: forbidden token {m.group(0)!r} in {f.relative_to(LEAN)}")
        # 2. #print axioms for every property theorem
        if not thms:
            self.broken.append(f"audit: no theorems found in {props_file.name}")
            return
        scratch = LEAN / f".audit_{self.pid}_{os.getpid()}.lean"
        scratch.write_text(f"import {props_module}\n" + "".join(f"#print axioms {t}\n" for t in thms))
        try:
            r = subprocess.run(["lake", "env", "lean", scratch.name], cwd=LEAN, capture_output=True, text=True)
        finally:
            scratch.unlink(missing_ok=True)
        out = r.stdout + r.stderr
        axioms_of = {}
        for m in re.finditer(r"'([^']+)' depends on axioms: \[([^\]]*)\]", out, re.S):
            axioms_of[m.group(1)] = {a.strip() for a in m.group(2).replace("\n", " ").split(",") if a.strip()}
        for m in re.finditer(r"'([^']+)' does not depend on any axioms", out):
            axioms_of[m.group(1)] = set()
        used = set()
        for t in thms:
            if t not in axioms_of:
                self.broken.append(f"audit: no #print axioms output for {t}")
                continue
            extra = axioms_of[t] - ALLOWED_AXIOMS
            used |= axioms_of[t]
            if extra:
                self.broken.append(f"audit: {t} depends on {sorted(extra)}")
            else:
                self.discharged.append(t)
        self.extra["axioms_used"] = sorted(used)

    def leanchecker(self, modules):
        """Thorough tier: re-check compiled .olean files with the independent checker."""
        t = time.time()
        r = subprocess.run(["lake", "env", "leanchecker"] + list(modules), cwd=LEAN, capture_output=True, text=True)
        self.extra["leanchecker"] = {"modules": list(modules), "rc": r.returncode, "s": round(time.time() - t, 1)}
        if r.returncode != 0:
            self.broken.append("leanchecker: " + (r.stdout + r.stderr)[-300:])
        return r.returncode == 0

    # ------------------------------------------------------------------ driver (line protocol)
    def driver(self, lines, timeout=600):
        """Send all `lines` to the compiled Lean driver, return its output lines (same length)."""
        exe = LEAN / ".lake" / "build" / "bin" / "driver"
        if not exe.exists():
            self.broken.append("driver: executable missing")
            return None
        data = "\n".join(lines) + "\n"
        try:
            r = subprocess.run([str(exe)], input=data, capture_output=True, text=True, timeout=timeout)
        except subprocess.TimeoutExpired:
            self.infra("driver timeout")
            return None
        out = r.stdout.splitlines()
        if r.returncode != 0 or len(out) != len(lines):
            self.infra(f"driver rc={r.returncode} lines_in={len(lines)} lines_out={len(out)} err={r.stderr[-300:]}")
            return None
        return out

    # ------------------------------------------------------------------ wrap-up
    def finish(self) -> int:
        # A broken proof / correspondence with no concrete failing input is still a violation.
        real = [v for v in self.violations]
        if self.broken and not any(v["failing_input"] for v in real):
            self.violation(
                "proof-or-correspondence-broken",
                "; ".join(self.broken[:6]),
                {"no_longer_checks": self.broken, "note": "searched the implementation with this tier's generators; no input violating the property predicate was found"},
                failing_input=False,
            )
        elif self.broken:
            for v in self.violations:
                p = Path(v["path"])
                d = json.loads(p.read_text())
                d["no_longer_checks"] = self.broken
                p.write_text(json.dumps(d, indent=1, default=str))
        wall = round(time.time() - self.t0, 2)
        cov = {
            "evaluations": max(self.cases, 0),
            "distinct_nontrivial": len(self.distinct),
            "rule": self.rule,
            "samples": self.samples[:6] or [{"note": "no case ran"}],
            "obligations": len(self.obligations),
            "discharged": len(self.discharged),
            "checker_cmd": self.checker_cmd,
            "trusted_base": self.trusted_base,
            "programs": self.programs,
            "disagreements_checked": self.disagreements_checked,
            "histogram": dict(sorted(self.hist.items())),
            "exhaustive": self.exhaustive,
            "known_findings_hit": self.known_hits,
            "no_longer_checks": self.broken,
        }
        cov.update(self.extra)
        if not self.discharged or not self.obligations:
            # keep the file schema-valid on a failing run: the proof keys require >= 1
            cov["obligations_total"] = cov.pop("obligations")
            cov["discharged_total"] = cov.pop("discharged")
        ev = {
            "property_id": self.pid,
            "tier": self.tier,
            "seed": self.seed,
            "level": self.level,
            "coverage": cov,
            "assumptions": self.assumptions,
            "wall_s": wall,
            "violations": len(self.violations),
        }
        (EVIDENCE / f"{self.pid}.json").write_text(json.dumps(ev, indent=1, default=str) + "\n")
        if self.infra_errors and not self.violations:
            print(f"[{self.pid}] infrastructure error(s): {self.infra_errors[:3]}", file=sys.stderr)
            return 2
        if self.violations:
            return 1
        print(
            f"[{self.pid}] OK tier={self.tier} seed={self.seed} theorems={len(self.discharged)}/{len(self.obligations)} "
            f"cases={self.cases} distinct={len(self.distinct)} known={self.known_hits} wall={wall}s",
            flush=True,
        )
        return 0


def pool_map(fn, items, workers=16, chunksize=1, fresh=False):
    """Process-pool map that keeps OMP threads at 1 in the workers.  fresh=True: every item runs in a
    process of its own (a newly spawned interpreter)."""
    import multiprocessing as mp

    if not items:
        return []
    # fresh: a spawned interpreter per item — it shares no module state with this process or with other items
    ctx = mp.get_context("spawn" if fresh else "fork")
    with ctx.Pool(min(workers, len(items)), maxtasksperchild=1 if fresh else None) as p:
        return p.map(fn, items, chunksize=1 if fresh else chunksize)
