"""Regenerate MANIFEST.json from the per-property harness modules (their docstrings and
constants) so that the manifest never drifts from what exists."""
import importlib
import json
import sys
from pathlib import Path

HERE = Path(__file__).resolve().parent
VERIF = HERE.parent
sys.path.insert(0, str(HERE))

ALL = [f"C{i:02d}" for i in range(1, 21)]


def main():
    checks, missing = [], []
    for pid in ALL:
        f = HERE / f"{pid.lower()}.py"
        if not f.exists():
            missing.append(pid)
            continue
        mod = importlib.import_module(pid.lower())
        meta = getattr(mod, "MANIFEST", {})
        checks.append({
            "property_id": pid,
            "quick_cmd": f"./check {pid} --tier quick",
            "thorough_cmd": f"./check {pid} --tier thorough",
            "evidence_file": f"evidence/{pid}.json",
            "replay_cmd_template": f"./check {pid} --replay {{path}}",
            "engine": "lean4-proof+correspondence",
            "level_claimed": {
                "category": mod.LEVEL,
                "text": meta.get("text", (mod.__doc__ or "").strip().split("\n\n")[0]),
                "design_ref": meta.get("design_ref", f"DESIGN.md {pid}"),
            },
            "level_note": meta.get("note", "Lean 4.33 kernel + axioms propext/Classical.choice/Quot.sound; translator and correspondence harness; see evidence trusted_base"),
            "technique": meta.get("technique", "Lean 4 theorems about a model tied to the code by regeneration from source and by a differential correspondence run"),
        })
    na_file = VERIF / "not_applicable.json"
    na = json.loads(na_file.read_text()) if na_file.exists() else {}
    manifest = {
        "version": 1,
        "setup_cmd": "cd lean && /venv/bin/python ../translate/gen.py && lake build",
        "hooks": {
            "guard": "BETSRG_GHEDESIGNER_VERIF",
            "enable": "no source hooks are needed: the harness wraps methods in-process; checks export BETSRG_GHEDESIGNER_VERIF=1 for uniformity",
            "baseline_off_cmd": "cd /repo && /venv/bin/python -m pytest -ra -q -p no:cacheprovider --timeout=900 --continue-on-collection-errors",
            "source_commits": [],
            "add_only": True,
        },
        "engines": [{
            "name": "lean4-proof+correspondence",
            "path": "lean/ translate/ harness/",
            "serves_properties": [c["property_id"] for c in checks],
            "kind_free_text": "Lean 4 model + theorems (lake project GHEVerif), translator regenerating Gen/*.lean from /repo, Python correspondence harness driving the compiled Lean driver over a line protocol",
        }],
        "checks": checks,
        "notes": "See DESIGN.md. known_findings.txt lists genuine defects recorded rather than repaired and the fix: commits made.",
        "not_applicable": [{"property_id": p, "reason": na.get(p, "check not built yet in this round (planned in DESIGN.md §9); not a claim that the technique cannot apply")} for p in missing],
    }
    (VERIF / "MANIFEST.json").write_text(json.dumps(manifest, indent=1) + "\n")
    print("checks:", [c["property_id"] for c in checks], "missing:", missing)


if __name__ == "__main__":
    main()
