"""Evaluate a HARMLESS (behaviour-preserving) change: every check anchored in a touched file must
still exit 0.   harmless_eval.py <dir with patch.diff, demo.py, meta.json> [--all]
Prints one JSON line {"alarms": {check: first lines}, "checks": [...]}."""
import json
import re
import subprocess
import sys
from pathlib import Path

VERIF = Path(__file__).resolve().parent.parent


def main():
    mdir = Path(sys.argv[1]).resolve()
    files = set(re.findall(r"^\+\+\+ b/(\S+)", (mdir / "patch.diff").read_text(), flags=re.M))
    props = [json.loads(l) for l in (VERIF / "properties.jsonl").read_text().splitlines() if l.strip()]
    checks = [p["id"] for p in props if "--all" in sys.argv or files & set(p["anchors"]["files"])]
    meta = json.loads((mdir / "meta.json").read_text())
    meta["property"] = "H"
    meta["checks"] = checks or [p["id"] for p in props]
    (mdir / "meta.json").write_text(json.dumps(meta, indent=1))
    r = subprocess.run(["/venv/bin/python", str(VERIF / "harness" / "seeded_eval.py"), str(mdir)], capture_output=True, text=True)
    try:
        res = json.loads(r.stdout.strip().splitlines()[-1])
    except Exception:  # noqa: BLE001
        print(json.dumps({"dir": str(mdir), "error": (r.stdout + r.stderr)[-500:]}))
        return
    alarms = {c: v["violations"][:3] or v["tail"] for c, v in res.get("checks", {}).items() if v["rc"] != 0}
    out = {"dir": str(mdir), "files": sorted(files), "checks": meta["checks"], "alarms": alarms, "apply_error": res.get("apply_error")}
    meta["harmless_evaluation"] = out
    (mdir / "meta.json").write_text(json.dumps(meta, indent=1))
    print(json.dumps(out))


if __name__ == "__main__":
    main()
