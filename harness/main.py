"""Entry point:  ./check C07 [--tier quick|thorough] [--replay file]"""
import argparse
import importlib
import os
import sys
import traceback
from pathlib import Path

sys.path.insert(0, str(Path(__file__).resolve().parent))
import core  # noqa: E402


def main():
    ap = argparse.ArgumentParser()
    ap.add_argument("property")
    ap.add_argument("--tier", default=os.environ.get("VERIF_TIER", "quick"), choices=["quick", "thorough"])
    ap.add_argument("--replay", default=None)
    a = ap.parse_args()
    pid = a.property.upper()
    try:
        seed = int(os.environ.get("VERIF_SEED", "0"))
    except ValueError:
        seed = 0
    mod = importlib.import_module(pid.lower())
    ctx = core.Ctx(pid, mod.LEVEL, a.tier, seed, a.replay)
    try:
        mod.run(ctx)
    except Exception:  # infrastructure failure, never a VIOLATION
        traceback.print_exc()
        ctx.infra("harness exception: " + traceback.format_exc(limit=1).strip().splitlines()[-1])
    sys.exit(ctx.finish())


if __name__ == "__main__":
    main()
