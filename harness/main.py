"""Entry point:  ./check C07 [--tier quick|thorough] [--replay file]"""
import argparse
import importlib
import os
import subprocess
import sys
import traceback
from pathlib import Path

sys.path.insert(0, str(Path(__file__).resolve().parent))
import core  # noqa: E402


def main():
    ap = argparse.ArgumentParser()
    ap.add_argument("property")
    ap.add_argument("--tier", default=os.environ.get("VERIF_TIER", "quick"), choices=["quick", "thorough"])
    ap.add_argument("--replay", default=None)
    a = ap.parse_args()
    pid = a.property.upper()
    try:
        seed = int(os.environ.get("VERIF_SEED", "0"))
    except ValueError:
        seed = 0
    mod = importlib.import_module(pid.lower())
    ctx = core.Ctx(pid, mod.LEVEL, a.tier, seed, a.replay)
    try:
        mod.run(ctx)
    except (OSError, MemoryError, subprocess.SubprocessError):  # infrastructure failure, never a VIOLATION
        traceback.print_exc()
        ctx.infra("harness exception: " + traceback.format_exc(limit=1).strip().splitlines()[-1])
    except Exception:  # noqa: BLE001
        # The harness runs without exceptions on the tree it was built for (every tier, several seeds), so
        # a KeyError/IndexError/TypeError/... while it digests what the implementation returned means the
        # implementation no longer behaves as the model-implementation correspondence expects: that is a
        # broken correspondence (reported with whatever failing inputs were found before the exception).
        traceback.print_exc()
        ctx.broken.append("harness-could-not-digest-implementation-behaviour: " + traceback.format_exc(limit=1).strip().splitlines()[-1][:200])
    sys.exit(ctx.finish())


if __name__ == "__main__":
    main()
