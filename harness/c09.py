"""C09 — Simulated fluid temperatures equal the documented temporal superposition.

Proof: lean/GHEVerif/Props/C09.lean about the model lean/GHEVerif/Model/Superpose.lean
(closed form of every step for every load list / time axis / G / parameters, zero load, linearity,
additivity, ground-temperature shift, sign of the departure under the explicit hypothesis, excess =
max(over, under), unit handling of both time-step methods; the HOURLY replication branch never indexes past its axis).

Tie to the code:
 * translate/gen_superpose.py regenerates the literal constants / statement shapes of GHE.simulate
   and BaseGHE._simulate_detailed into Gen/SimConsts.lean (a changed constant breaks a proof);
 * three correspondence streams run the real code and the Lean model on the same inputs:
     det : BaseGHE._simulate_detailed on real GHE objects with arbitrary q, t and an arbitrary G
     hyb : GHE.simulate(HYBRID)  (real HybridLoad of random profiles, and injected load sequences)
     hr  : GHE.simulate(HOURLY)  (full years, short lists, multi-year lists, after a hybrid run,
                                  partial years / horizons that end inside a copy of the list)
 * the predicate evaluates the documented formula in exact `Fraction`s from the *inputs the harness
   chose* (borehole count, height, conductivity, ground temperature, flow) and its own
   log/linear-interpolation of the g-table, and checks zero load, scaling, additivity, shift, sign
   and the excess on the implementation's own outputs.
"""
from __future__ import annotations

import bisect
import math
import os
import random
import warnings
from fractions import Fraction

import core
import ghelib

PROPERTY = "C09"
LEVEL = "proof"
MANIFEST = {
    "text": "hp_eft[n] = T_g + sum_i (q_i-q_(i-1)) g(ln((t_n-t_(i-1))/t_s))/(2 pi k H N) + q_n R_b/(H N) - q_n/(2 m cp N), both time-step methods; zero load, linearity, shift, sign, excess",
    "technique": "Lean 4 theorems about an executable Rat model + differential runs against GHE.simulate/_simulate_detailed + exact-Fraction oracle",
    "design_ref": "DESIGN.md ### C09",
    "note": "F11 (sign flips when the last-step coefficient is negative) is a known finding; the HOURLY IndexError for horizons that are not a whole number of list copies was repaired in /repo 05a458d and its inputs are corpus regressions",
}

F = Fraction
REL = 1e-9
KEY_F11 = "F11-negative-last-step-coefficient"


# ----------------------------------------------------------------------------- small helpers
def rl(xs) -> str:
    xs = list(xs)
    return ",".join(core.rs(float(x)) for x in xs) if xs else "-"


def pl(s: str):
    return [] if s == "-" else [core.pr(t) for t in s.split(",")]


def interp_fun(gx, gy):
    """The harness's own linear interpolation of the g table (x strictly increasing)."""
    gx = [float(v) for v in gx]
    gy = [float(v) for v in gy]
    last = len(gx) - 1

    def g(lnt):
        if not (gx[0] <= lnt <= gx[last]):
            raise ValueError("outside the g table")
        j = bisect.bisect_right(gx, lnt) - 1
        if j >= last:
            return gy[last]
        x0, x1 = gx[j], gx[j + 1]
        return gy[j] + (gy[j + 1] - gy[j]) / (x1 - x0) * (lnt - x0)

    return g


def close(a, b, scale=0.0):
    return abs(a - b) <= REL * max(1.0, abs(b)) + 1e-13 * scale


class Case:
    """What a worker returns: the model command, what the implementation produced, predicate failures."""

    def __init__(self, cfg):
        self.cfg = cfg
        self.line = None  # model command
        self.impl = None  # ("ok", n, eft, dtb, mx, mn) | ("raise", name)
        self.steps = None
        self.fail = []  # (key, what, replay-extra)
        self.counts = {}
        self.sig = None
        self.nontrivial = True
        self.maxerr = 0.0
        self.gdev = 0.0  # max difference between the documented g table and the package's lookup for B_field/H
        self.therm = 0.0  # max relative disagreement of the object's m_dot, c_p, R_b* with the independent references
        self.skip = None
        self.cost_line = None
        self.wall = 0.0
        self.cost_impl = None

    def count(self, k, n=1):
        self.counts[k] = self.counts.get(k, 0) + n


# ----------------------------------------------------------------------------- load containers
INT_CONTAINERS = ("int-list", "np-int64", "np-int32")
LIST_CONTAINERS = ("int-list", "mixed-list")  # Python lists: `q_dot * n_years` repeats them
NP_CONTAINERS = ("np-int64", "np-int32", "np-float64")  # used with n_years = 1 only (see the assumptions)


def to_container(vals, kind):
    """The same numbers in another container / element type.  The property's formula is about the values."""
    import numpy as np

    if kind in (None, "float-list"):
        return [float(v) for v in vals]
    if kind == "int-list":
        return [int(v) for v in vals]
    if kind == "mixed-list":
        return [int(v) if (i % 2 == 0 and float(v).is_integer()) else float(v) for i, v in enumerate(vals)]
    if kind == "np-int64":
        return np.array([int(v) for v in vals], dtype=np.int64)
    if kind == "np-int32":
        return np.array([int(v) for v in vals], dtype=np.int32)
    if kind == "np-float64":
        return np.array([float(v) for v in vals], dtype=np.float64)
    raise ValueError(kind)


# ----------------------------------------------------------------------------- building real objects
def synth_lts(rng, lt, g0, n_bh, monotone=True):
    """A long-time-step table on the Eskilson log times starting at g0."""
    top = rng.uniform(2.0, 6.0) + rng.uniform(0.0, 1.0) * math.sqrt(n_bh) * rng.uniform(0.5, 3.0)
    incs = [rng.random() ** 2 for _ in lt]
    s = sum(incs)
    out, acc = [], g0 + rng.uniform(0.0, 0.3)
    for d in incs:
        out.append(acc)
        acc += d / s * top
    if not monotone:
        out = [v + rng.uniform(-0.8, 0.8) for v in out]
    return out


def make_coords(rng, n):
    side = max(1, int(math.ceil(math.sqrt(n))))
    b = 5.0
    pts = [(b * (i % side), b * (i // side)) for i in range(n)]
    return pts


B_TABLE = 5.0  # spacing the synthetic long-time tables are stored for


def documented_g_table(ghe, truth):
    """(x, y) of the combined g-function the documentation prescribes for this field, built by the harness:
    the stored long-time family interpolated IN HEIGHT at h_eq = H * B_table / B_field (the polynomial through the stored
    heights: the curve itself for one, linear for two, the parabola for three), preceded by the short-time points that lie
    before the first long-time abscissa.  The short-time table is the object's (C10's subject); the table radius equals
    the borehole radius, so there is no radius correction."""
    hs, fam, he = truth["heights"], truth["g_lts"], truth["h_eq"]
    lts = []
    for j in range(len(truth["log_time"])):
        acc = 0.0
        for a, ha in enumerate(hs):  # Lagrange form
            w = 1.0
            for b_, hb in enumerate(hs):
                if b_ != a:
                    w *= (he - hb) / (ha - hb)
            acc += w * fam[a][j]
        lts.append(acc)
    x0 = truth["log_time"][0]
    sx = [float(v) for v in ghe.radial_numerical.lntts]
    sy = [float(v) for v in ghe.radial_numerical.g]
    keep = [(a, b_) for a, b_ in zip(sx, sy) if a < x0]
    return [a for a, _ in keep] + list(truth["log_time"]), [b_ for _, b_ in keep] + lts


def g_tables(c, ghe, truth, replay_cfg):
    """The documented table (used by the oracle and handed to the model) and its cross-check against what the package's
    own lookup gives for the field's B/H."""
    gx, gy = documented_g_table(ghe, truth)
    g, _ = ghe.grab_g_function(ghe.B_spacing / float(ghe.bhe.b.H))
    px, py = [float(v) for v in g.x], [float(v) for v in g.y]
    r = "1" if truth["B_field"] == truth["B_table"] else f"{truth['B_field'] / truth['B_table']:g}"
    c.count(f"g-table:B_field/B_table={r}:heights={len(truth['heights'])}" + ("" if any(abs(h - truth["h_eq"]) < 1e-9 * h for h in truth["heights"]) else ":interpolated"))
    dev = max((abs(a - b_) for a, b_ in zip(gy, py)), default=0.0) if (len(px) == len(gx) and px == gx) else float("inf")
    c.gdev = max(c.gdev, dev if dev != float("inf") else 0.0)
    if dev > 1e-9:
        c.fail.append(("g-similarity-lookup", f"grab_g_function(B_field/H) (B_field={truth['B_field']}, B_table={truth['B_table']}, H={truth['H']}) differs from the stored family "
                       f"interpolated at h_eq = H*B_table/B_field = {truth['h_eq']}: " + (f"max |dg| = {dev:.3e}" if dev != float("inf") else "different abscissae"),
                       {"cfg": replay_cfg, "heights": truth["heights"], "h_eq": truth["h_eq"]}))
    return gx, gy


# geometry the harness hands to the package (ghelib.media uses the same numbers)
U_R_IN, U_R_OUT, U_S, PIPE_EPS = 0.03404 / 2, 0.04216 / 2, 0.01856, 1.0e-6
COAX_R_IN, COAX_R_OUT = (0.0442 / 2, 0.050 / 2), (0.0974 / 2, 0.110 / 2)  # (inner pipe, outer pipe): inside radii, outside radii


def coax_pipe_k(phys):
    """(k of the inner pipe, k of the outer pipe); `pipe_k2` gives different ones."""
    k2 = phys.get("pipe_k2")
    return (float(k2[0]), float(k2[1])) if k2 else (phys["pipe_k"], phys["pipe_k"])


def independent_thermal(cfg):
    """m_dot, c_p and R_b* of the documented formula from the USER-LEVEL inputs, without the package:
    fluid properties from pygfunction's secondary-coolant tables under the mixture code of pygfunction's own
    documentation, m_dot = V_borehole/1000 * rho, and R_b* from pygfunction's own pipe classes fed with film
    coefficients and wall conduction from pygfunction's helpers."""
    import numpy as np
    import pygfunction as gt

    phys, kind = cfg["phys"], cfg["pipe"]
    fl = ghelib.independent_fluid(phys)
    mdot = phys["flow"] / 1000.0 * fl.rho
    h, d, dia = phys["borehole"]
    bore = gt.boreholes.Borehole(h, d, dia / 2.0, 0.0, 0.0)
    k_s, k_g = phys["soil"][0], phys["grout"][0]
    two_pi = 2.0 * math.pi
    if kind == "COAXIAL":
        f = min(1.0, dia / 0.14)
        r_in_in, r_out_in = COAX_R_IN[0] * f, COAX_R_OUT[0] * f  # inside radii of inner / outer pipe
        r_in_out, r_out_out = COAX_R_IN[1] * f, COAX_R_OUT[1] * f  # outside radii
        k_in, k_out = coax_pipe_k(phys)
        h_in = gt.pipes.convective_heat_transfer_coefficient_circular_pipe(mdot, r_in_in, fl.mu, fl.rho, fl.k, fl.cp, PIPE_EPS)
        h_a_in, h_a_out = gt.pipes.convective_heat_transfer_coefficient_concentric_annulus(
            mdot, r_in_out, r_out_in, fl.mu, fl.rho, fl.k, fl.cp, PIPE_EPS)
        r_ff = (1.0 / (h_in * two_pi * r_in_in) + gt.pipes.conduction_thermal_resistance_circular_pipe(r_in_in, r_in_out, k_in)
                + 1.0 / (h_a_in * two_pi * r_in_out))
        r_fp = gt.pipes.conduction_thermal_resistance_circular_pipe(r_out_in, r_out_out, k_out) + 1.0 / (h_a_out * two_pi * r_out_in)
        obj = gt.pipes.Coaxial((0, 0), np.array([r_in_in, r_out_in]), np.array([r_in_out, r_out_out]), bore, k_s, k_g, r_ff, r_fp)
    else:
        n_u = 1 if kind == "SINGLEUTUBE" else 2
        m_pipe = mdot / 2.0 if kind == "DOUBLEUTUBEPARALLEL" else mdot
        h_f = gt.pipes.convective_heat_transfer_coefficient_circular_pipe(m_pipe, U_R_IN, fl.mu, fl.rho, fl.k, fl.cp, PIPE_EPS)
        r_fp = 1.0 / (h_f * two_pi * U_R_IN) + gt.pipes.conduction_thermal_resistance_circular_pipe(U_R_IN, U_R_OUT, phys["pipe_k"])
        # axis-symmetric placement: U-tube i has its legs at angles pi + 2 i pi/n and pi + (2 i + 1) pi/n on the shank circle
        rad, dt = U_S / 2.0 + U_R_OUT, math.pi / n_u
        pos = []
        for i in range(n_u):
            pos += [(rad * math.cos(math.pi + 2 * i * dt), rad * math.sin(math.pi + 2 * i * dt)),
                    (rad * math.cos(math.pi + (2 * i + 1) * dt), rad * math.sin(math.pi + (2 * i + 1) * dt))]
        if n_u == 1:
            obj = gt.pipes.SingleUTube(pos, U_R_IN, U_R_OUT, bore, k_s, k_g, r_fp)
        else:
            obj = gt.pipes.MultipleUTube(pos, U_R_IN, U_R_OUT, bore, k_s, k_g, r_fp, 2,
                                         config="parallel" if kind == "DOUBLEUTUBEPARALLEL" else "series")
    rb = float(obj.effective_borehole_thermal_resistance(mdot, fl.cp))
    return {"rho": float(fl.rho), "cp": float(fl.cp), "mdot": float(mdot), "Rb": rb}


def build(cfg):
    """A real GHE with a synthetic long-time g-function table (no pygfunction g-function call)."""
    from ghedesigner.gfunction import GFunction
    from ghedesigner.ground_heat_exchangers import GHE
    from ghedesigner.simulation import SimulationParameters
    from ghedesigner.utilities import eskilson_log_times

    rng = random.Random(cfg["seed"])
    phys = cfg["phys"]
    fluid, pipe, grout, soil, borehole, bt = ghelib.media(phys, cfg["pipe"])
    if cfg["pipe"] == "COAXIAL" and phys.get("pipe_k2"):  # inner and outer pipe of different materials
        from ghedesigner.media import Pipe

        f = min(1.0, phys["borehole"][2] / 0.14)
        pipe = Pipe((0, 0), [COAX_R_IN[0] * f, COAX_R_IN[1] * f], [COAX_R_OUT[0] * f, COAX_R_OUT[1] * f], 0, PIPE_EPS,
                    list(coax_pipe_k(phys)), phys["pipe_rho_cp"])
    n = cfg["N"]
    coords = make_coords(rng, n)
    lt = eskilson_log_times()
    h = phys["borehole"][0]
    # the table is stored for spacing B_TABLE; the field has spacing B_TABLE * b_ratio.  The documented B/H similarity
    # says the curve to use is the stored family at the equivalent height h_eq = H * B_table / B_field.
    ratio = float(cfg.get("b_ratio", 1.0))
    b_field = B_TABLE * ratio
    h_eq = h * B_TABLE / b_field
    hf = cfg.get("height_factors") or ([1.0] if (cfg["heights"] == 1 and ratio == 1.0) else [0.8, 1.0, 1.25])
    heights = [h_eq * f for f in hf]
    base = synth_lts(rng, lt, cfg.get("g0", 2.5), n, cfg.get("monotone", True))
    g_lts = {hh: [v * (hh / h_eq) ** 0.45 + 0.3 * (hh / h_eq - 1.0) for v in base] for hh in heights}  # curves differ with height
    gf = GFunction(b=B_TABLE, d=borehole.D, r_b_values={hh: borehole.r_b for hh in heights}, g_lts=g_lts,
                   log_time=lt, bore_locations=coords)
    sim = SimulationParameters(cfg["m0"], cfg["m1"], 35.0, 5.0, max(h, 135.0), min(h, 60.0))
    v = phys["flow"]
    loads = ghelib.make_profile(random.Random(cfg["seed"] + 1), cfg.get("profile", "constant"), cfg.get("scale", 1.0))[2]
    with ghelib.quiet(), warnings.catch_warnings():
        warnings.simplefilter("ignore")
        ghe = GHE(v * n, b_field, bt, fluid, borehole, pipe, grout, soil, gf, sim, loads)
    if "loads" in cfg:  # the constructor's HybridLoad needs a full year; the hourly method takes any list
        ghe.hourly_extraction_ground_loads = [float(x) for x in cfg["loads"]]
    elif "loads_gen" in cfg:  # [length, seed, amplitude]: a reproducible random list
        ln_, sd_, amp_ = cfg["loads_gen"]
        r_ = random.Random(sd_)
        ghe.hourly_extraction_ground_loads = [r_.uniform(-1, 1) * amp_ for _ in range(int(ln_))]
    truth = {
        "N": n, "H": h, "k": phys["soil"][0], "rhoCp": phys["soil"][1], "Tg": phys["soil"][2],
        "mdot": v / 1000.0 * fluid.rho, "cp": fluid.cp, "source": "object",
        "B_table": B_TABLE, "B_field": b_field, "h_eq": h_eq, "heights": heights, "log_time": [float(x) for x in lt],
        "g_lts": [list(g_lts[hh]) for hh in heights],
    }
    try:  # m_dot, c_p, R_b* from the user-level inputs, independently of the package
        truth["indep"] = independent_thermal(cfg)
    except Exception as e:  # noqa: BLE001  (mixture outside pygfunction's table, ...)
        truth["indep_error"] = f"{type(e).__name__}: {e}"[:200]
    if cfg.get("indep", True) and "indep" in truth:
        truth.update(mdot=truth["indep"]["mdot"], cp=truth["indep"]["cp"], Rb=truth["indep"]["Rb"], source="independent")
    return ghe, truth


THERM_TOL = 1e-10  # the unchanged code agrees with the references to 2e-15 (measured; the value of every run is in the evidence)


def check_thermal(c, cfg, truth, p):
    """The object's m_flow_borehole, fluid c_p and calc_effective_borehole_resistance() against the references."""
    ind = truth.get("indep")
    if ind is None:
        c.count("thermal-inputs:no-reference:" + truth.get("indep_error", "?").split(":")[0])
        return
    c.count("thermal-inputs:compared")
    c.count("formula-inputs-from:" + truth["source"])
    fl = cfg["phys"]["fluid"]
    c.count(f"fluid:{fl[0]}" + ("" if fl[1] == 0 else ":mixture") + ("" if cfg["phys"].get("fluid_temp", 20.0) == 20.0 else ":T!=20"))
    if cfg["pipe"] == "COAXIAL":
        ki, ko = coax_pipe_k(cfg["phys"])
        c.count("coaxial:k_inner" + ("=" if ki == ko else "<" if ki < ko else ">") + "k_outer")
    for key, name in (("mdot", "m_flow_borehole"), ("cp", "fluid.cp"), ("Rb", "calc_effective_borehole_resistance()")):
        rel = abs(p[key] - ind[key]) / abs(ind[key])
        c.therm = max(c.therm, rel)
        if rel > THERM_TOL:
            c.fail.append(("thermal-inputs", f"{cfg['pipe']} with {fl[0]} {fl[1]} % at {cfg['phys'].get('fluid_temp', 20.0)} C, pipe k "
                           f"{coax_pipe_k(cfg['phys']) if cfg['pipe'] == 'COAXIAL' else cfg['phys']['pipe_k']}: the object's {name} = {p[key]!r}, "
                           f"the user-level inputs give {ind[key]!r} (pygfunction tables / pipe classes), relative difference {rel:.2e}",
                           {"cfg": {k: v for k, v in cfg.items() if k != "loads"}, "object": {k: p[k] for k in ("mdot", "cp", "Rb")}, "independent": ind}))
            return


def obj_params(ghe):
    """What _simulate_detailed reads from the object (the model's P and ts)."""
    return {
        "N": int(ghe.nbh), "H": float(ghe.bhe.b.H), "twoPiK": float(2.0 * math.pi * ghe.bhe.soil.k),
        "Tg": float(ghe.bhe.soil.ugt), "Rb": float(ghe.bhe.calc_effective_borehole_resistance()),
        "mdot": float(ghe.bhe.m_flow_borehole), "cp": float(ghe.bhe.fluid.cp), "ts": float(ghe.radial_numerical.t_s),
    }


def pline(p):
    return " ".join([str(p["N"])] + [core.rs(p[k]) for k in ("H", "twoPiK", "Tg", "Rb", "mdot", "cp")])


# ----------------------------------------------------------------------------- exact oracle
class Oracle:
    """T_g + sum (q_i-q_(i-1)) G(n,i)/(2 pi k H N) + q_n R_b/(H N) - q_n/(2 mdot cp N)  in Fractions.

    q: field loads in W (rejection positive), t: hours; G from the harness's own log + interpolation."""

    def __init__(self, truth, rb, gx, gy, q, t):
        self.N, self.H = F(truth["N"]), F(truth["H"])
        self.twoPiK = 2 * F(math.pi) * F(truth["k"])
        self.Tg, self.Rb = F(truth["Tg"]), F(rb)
        self.mdot, self.cp = F(truth["mdot"]), F(truth["cp"])
        alpha = truth["k"] / truth["rhoCp"]
        self.ts = truth["H"] ** 2 / (9.0 * alpha)
        self.g = interp_fun(gx, gy)
        self.q = [0.0] + [float(v) for v in q]
        self.t = [0.0] + [float(v) for v in t]
        self.dq = [F(self.q[i]) - F(self.q[i - 1]) for i in range(1, len(self.q))]
        self._gcache = {}

    def gval(self, dt):
        v = self._gcache.get(dt)
        if v is None:
            v = self.g(math.log((dt * 3600.0) / self.ts))
            self._gcache[dt] = v
        return v

    def row(self, n):
        tn = self.t[n]
        return [self.gval(tn - self.t[j]) for j in range(n)]

    def step(self, n, row=None):
        """(eft, dTb, sum|terms|) at 1-based step n."""
        row = row or self.row(n)
        s = F(0)
        sa = F(0)
        for j in range(n):
            term = self.dq[j] * F(row[j])
            s += term
            sa += abs(term)
        den = self.twoPiK * self.H * self.N
        dtb = s / den
        qn = F(self.q[n])
        eft = self.Tg + dtb + qn * self.Rb / (self.H * self.N) - qn / (2 * self.mdot * self.cp * self.N)
        return eft, dtb, float(sa / den)

    def hypothesis(self, n, row=None):
        """Hypothesis of `sign_of_departure` at step n: G(n,.) non-increasing and last-step coefficient >= 0."""
        row = row or self.row(n)
        mono = all(row[j] >= row[j + 1] for j in range(n - 1))
        coef = F(row[n - 1]) / (self.twoPiK * self.H) + self.Rb / self.H - 1 / (2 * self.mdot * self.cp)
        return mono, coef


# ----------------------------------------------------------------------------- table for the model
def gln_table(tv, ts, steps, gfun):
    """Exact argument -> value table of g(ln x) for the model: x = (tv[n]-tv[j])*3600/ts."""
    tab = {}
    fts = F(ts)
    ftv = [F(v) for v in tv]
    for n in steps:
        tn = tv[n]
        for j in range(n):
            key = (ftv[n] - ftv[j]) * 3600 / fts
            if key not in tab:
                dt = tn - tv[j]
                tab[key] = gfun(math.log((dt * 3600.0) / ts))
    keys = sorted(tab)
    return ",".join(f"{k.numerator}/{k.denominator}" for k in keys) or "-", ",".join(core.rs(tab[k]) for k in keys) or "-"


# ----------------------------------------------------------------------------- workers
def run_det(cfg):
    """BaseGHE._simulate_detailed called directly with an arbitrary G (stub callable)."""
    import numpy as np

    c = Case(cfg)
    try:
        ghe, truth = build(cfg)
    except Exception as e:  # F10-type construction failures are not C09's subject
        c.skip = f"construct:{type(e).__name__}"
        return c
    rng = random.Random(cfg["seed"] + 7)
    n = cfg["n"]
    style = cfg["style"]
    mag = 10 ** rng.uniform(1, 6)
    if style == "pos":
        q = [rng.uniform(0, mag) for _ in range(n)]
    elif style == "neg":
        q = [-rng.uniform(0, mag) for _ in range(n)]
    elif style == "zero":
        q = [0.0] * n
    elif style == "sparse":
        q = [rng.choice([0.0, 0.0, rng.uniform(-mag, mag)]) for _ in range(n)]
    else:
        q = [rng.uniform(-mag, mag) for _ in range(n)]
    qdtype = cfg.get("qdtype", "float64")
    if qdtype != "float64":  # whole watts in an integer array: +-3 W (less than one watt per borehole) or kW scale
        lim = 3 if cfg.get("small") else 50000
        q = [float(rng.randint(0, lim) if style == "pos" else -rng.randint(0, lim) if style == "neg" else 0 if style == "zero"
                   else rng.randint(-lim, lim)) for _ in range(n)]
    tlen = n + cfg["textra"]
    t, acc = [], 0.0
    for _ in range(max(tlen, 0)):
        acc += rng.choice([1e-6, 1.0, rng.uniform(0.01, 700.0)])
        t.append(acc)
    rows = [[rng.uniform(-3.0, 40.0) for _ in range(i)] for i in range(1, n + 1)]
    calls = {"i": 0, "bad": False}

    def gstub(x):
        i = calls["i"]
        calls["i"] += 1
        if i >= len(rows) or len(x) != i + 1:
            calls["bad"] = True
            return np.zeros(len(x))
        return np.array(rows[i])

    p = obj_params(ghe)
    check_thermal(c, cfg, truth, p)
    c.line = f"sup.det {pline(p)} {rl(q)} {rl(t)} {rl(v for r in rows for v in r)}"
    try:
        with warnings.catch_warnings():
            warnings.simplefilter("ignore")
            eft, dtb = ghe._simulate_detailed(np.array(q, dtype=getattr(np, qdtype)), np.array(t, dtype=float), gstub)
        c.impl = ("ok", n, [float(v) for v in eft], [float(v) for v in dtb], None, None)
    except IndexError:
        c.impl = ("raise", "IndexError")
    c.count(f"det:dtype:{qdtype}" + (":small" if cfg.get("small") and qdtype != "float64" else ""))
    if qdtype != "float64" and c.impl[0] == "ok":  # the same numbers as floats must give identical temperatures
        calls["i"] = 0
        with warnings.catch_warnings():
            warnings.simplefilter("ignore")
            e2, d2 = ghe._simulate_detailed(np.array(q, dtype=float), np.array(t, dtype=float), gstub)
        if [float(v) for v in e2] != c.impl[2] or [float(v) for v in d2] != c.impl[3]:
            j = next((j for j in range(n) if float(e2[j]) != c.impl[2][j] or float(d2[j]) != c.impl[3][j]), 0)
            c.fail.append(("container-equivalence", f"_simulate_detailed with the loads as {qdtype} array and the same numbers as float64 differ at step {j+1}: "
                           f"{c.impl[2][j]!r} vs {float(e2[j])!r} (N={cfg['N']}, q={q[:4]}...)", {"q": q, "t": t, "qdtype": qdtype, "truth": truth}))
    c.steps = list(range(1, n + 1))
    c.sig = ("det", cfg["pipe"], cfg["N"], n, style, cfg["textra"], cfg["seed"], qdtype)
    c.count(f"det:{style}")
    c.count("det:time-axis-" + ("short" if cfg["textra"] < 0 else "exact" if cfg["textra"] == 0 else "long"))
    if calls["bad"]:
        c.fail.append(("det-g-call-shape", "g was not called once per step with i lags", {}))
    # predicate: the formula with this G, from the inputs the harness chose
    if c.impl[0] == "ok":
        rb = truth.get("Rb", p["Rb"])
        o = Oracle(truth, rb, [0.0, 1.0], [0.0, 0.0], q, t[:n] if tlen >= n else t + [0.0] * (n - tlen))
        for i in range(1, n + 1):
            want, wd, sa = o.step(i, rows[i - 1])
            err = abs(c.impl[2][i - 1] - float(want))
            c.maxerr = max(c.maxerr, err / max(1.0, abs(float(want))))
            if not close(c.impl[2][i - 1], float(want), sa) or not close(c.impl[3][i - 1], float(wd), sa):
                c.fail.append(("det-formula", f"_simulate_detailed step {i}: hp_eft={c.impl[2][i-1]!r} dTb={c.impl[3][i-1]!r}, formula gives {float(want)!r}, {float(wd)!r}",
                               {"step": i, "q": q, "t": t, "G_row": rows[i - 1], "truth": truth, "Rb": rb}))
                break
        if style == "zero" and any(v != truth["Tg"] for v in c.impl[2]):
            c.fail.append(("det-zero-load", "zero load does not return exactly the ground temperature", {"eft": c.impl[2][:5], "Tg": truth["Tg"]}))
    elif tlen >= n:
        c.fail.append(("det-unexpected-raise", "IndexError although the time axis is long enough", {"n": n, "tlen": tlen}))
    return c


def _sample_steps(rng, n, k):
    if n <= k:
        return list(range(1, n + 1))
    s = set(range(1, min(n, 13) + 1)) | {n, n - 1, n // 2}
    while len(s) < k:
        s.add(rng.randint(1, n))
    return sorted(s)


def _check_formula(c, o, eft, dtb, steps, what, replay):
    for i in steps:
        row = o.row(i)
        want, wd, sa = o.step(i, row)
        fw = float(want)
        c.maxerr = max(c.maxerr, abs(eft[i - 1] - fw) / max(1.0, abs(fw)))
        if not close(eft[i - 1], fw, sa) or not close(dtb[i - 1], float(wd), sa):
            c.fail.append((f"{what}-formula", f"{what} step {i}: hp_eft={eft[i-1]!r} dTb={dtb[i-1]!r}; the documented formula gives {fw!r}, {float(wd)!r}{getattr(o, 'note', '')}",
                           dict(replay, step=i)))
            return False
    return True


def _check_sign(c, o, eft, steps, q, what, replay):
    """Sign of the departure for single-signed loads; F11 when the hypothesis fails and the sign flips."""
    pos = all(v >= 0 for v in q)
    neg = all(v <= 0 for v in q)
    if not (pos or neg) or not any(v != 0 for v in q):
        c.count(f"{what}:sign:mixed-or-zero-load")
        return
    sgn = 1 if pos else -1
    tg = float(o.Tg)
    for i in steps:
        row = o.row(i)
        mono, coef = o.hypothesis(i, row)
        dep = (eft[i - 1] - tg) * sgn
        flipped = dep < -1e-9
        if mono and coef >= 0:
            c.count(f"{what}:sign:hypothesis-holds")
            if flipped:
                c.fail.append((f"{what}-sign", f"{what} step {i}: single-signed load, hypothesis of sign_of_departure holds, but the departure has the wrong sign ({eft[i-1]-tg!r})",
                               dict(replay, step=i)))
                return
        elif coef < 0:
            c.count(f"{what}:sign:negative-last-step-coefficient")
            if flipped:
                c.count(f"{what}:sign:F11-flip")
                c.fail.append((KEY_F11, f"{what} step {i}: rejection-only/extraction-only load, last-step coefficient {float(coef):.3e} < 0, departure {eft[i-1]-tg!r} has the opposite sign",
                               dict(replay, step=i, coefficient=float(coef))))
        else:
            c.count(f"{what}:sign:g-row-not-monotone")


def run_hyb(cfg):
    """GHE.simulate(HYBRID) against ghSimulateHybrid and the formula; variants for the consequences."""
    import numpy as np
    from ghedesigner.enums import TimestepType

    c = Case(cfg)
    try:
        ghe, truth = build(cfg)
    except Exception as e:
        c.skip = f"construct:{type(e).__name__}"
        return c
    rng = random.Random(cfg["seed"] + 11)
    hl = ghe.hybrid_load
    if cfg.get("inject"):
        # an arbitrary load sequence in the stored format: two leading zeros, kW, end hours
        n = cfg["inject"]["n"]
        style = cfg["inject"]["style"]
        mag = 10 ** rng.uniform(0, 3)
        vals = {"pos": lambda: rng.uniform(0, mag), "neg": lambda: -rng.uniform(0, mag),
                "mixed": lambda: rng.uniform(-mag, mag), "pulse": lambda: rng.choice([0.0, 0.0, rng.uniform(-mag, mag)])}[style]
        load = [0.0, 0.0] + [vals() for _ in range(n)]
        hour, acc = [0.0, 0.0], 0.0
        for _ in range(n + cfg["inject"].get("textra", 0)):
            acc += rng.choice([1.0e-6, 1.0, 2.0, rng.uniform(0.5, 6.0), rng.uniform(100.0, 744.0)])
            hour.append(acc)
        hl.load = np.array(load)
        hl.hour = np.array(hour)
        c.count(f"hyb:injected:{style}")
    else:
        c.count(f"hyb:profile:{cfg['profile']}")
    load0 = np.array(hl.load, dtype=float)
    hour0 = np.array(hl.hour, dtype=float)
    with ghelib.quiet(), warnings.catch_warnings():
        warnings.simplefilter("ignore")
        try:
            mx, mn = ghe.simulate(TimestepType.HYBRID)
        except IndexError:
            c.impl = ("raise", "IndexError")
        except ValueError as e:
            if "interpolation range" in str(e):
                c.skip = "g-table-range"
                return c
            c.impl = ("raise", "ValueError")
    p = obj_params(ghe)
    check_thermal(c, cfg, truth, p)
    gx, gy = g_tables(c, ghe, truth, {k: v for k, v in cfg.items() if k != "loads"})
    gfun = interp_fun(gx, gy)
    q = [float(v) * 1000.0 for v in load0[2:]]
    t = [float(v) for v in hour0[2:]]
    n = len(q)
    c.sig = ("hyb", cfg["pipe"], cfg["N"], cfg["m1"], cfg.get("profile"), str(cfg.get("inject")), cfg["seed"],
             str(cfg["phys"]["fluid"]), cfg["phys"].get("fluid_temp"), str(cfg["phys"].get("pipe_k2")))
    c.count(f"hyb:pipe:{cfg['pipe']}")
    c.count("hyb:N:" + ("1" if cfg["N"] == 1 else "2-9" if cfg["N"] < 10 else "10-99" if cfg["N"] < 100 else "100-400"))
    c.count("hyb:steps:" + ("<=40" if n <= 40 else "41-100" if n <= 100 else ">100"))
    c.count("hyb:g-table:" + ("monotone" if all(a <= b for a, b in zip(gy, gy[1:])) else "non-monotone"))
    replay = {"cfg": cfg, "load_kW": [float(v) for v in load0], "hour": [float(v) for v in hour0], "truth": truth, "Rb": p["Rb"], "g_x": gx, "g_y": gy}
    if c.impl is None:
        eft = [float(v) for v in ghe.hp_eft]
        dtb = [float(v) for v in ghe.dTb]
        c.impl = ("ok", n, eft, dtb, float(mx), float(mn))
    c.steps = list(range(1, n + 1))
    tv = [0.0] + t
    if len(t) >= n:
        try:
            keys, vals = gln_table(tv, p["ts"], c.steps, gfun)
        except ValueError:
            c.skip = "g-table-range"
            return c
    else:
        keys, vals = "-", "-"
    c.line = f"sup.hyb {pline(p)} {core.rs(p['ts'])} {rl(load0)} {rl(hour0)} {keys} {vals}"
    if c.impl[0] != "ok":
        if len(t) >= n and n > 0:
            c.fail.append(("hyb-unexpected-raise", f"simulate(HYBRID) raised {c.impl[1]}", replay))
        return c
    eft, dtb = c.impl[2], c.impl[3]
    if len(eft) != n:
        c.fail.append(("hyb-steps", f"{len(eft)} results for {n} load steps", replay))
        return c
    if list(ghe.times) != t or [float(v) for v in ghe.loading] != q:
        c.fail.append(("hyb-bookkeeping", "GHE.times / GHE.loading are not the simulated axis / loads", replay))
    o = Oracle(truth, truth.get("Rb", p["Rb"]), gx, gy, q, t)
    o.note = f" [g: stored family at h_eq = H*B_table/B_field = {truth['h_eq']:g} m; B_field {truth['B_field']:g}, B_table {truth['B_table']:g}, H {truth['H']:g}]"
    if abs(o.ts - p["ts"]) > 1e-9 * p["ts"]:
        c.fail.append(("hyb-ts", f"characteristic time {p['ts']!r} is not H^2/(9 alpha) = {o.ts!r}", replay))
    _check_formula(c, o, eft, dtb, c.steps, "hybrid", replay)
    _check_sign(c, o, eft, c.steps, q, "hybrid", replay)
    if (mx, mn) != (max(eft), min(eft)):
        c.fail.append(("hyb-maxmin", "simulate() did not return (max, min) of hp_eft", replay))
    hi, lo = ghe.sim_params.max_EFT_allowable, ghe.sim_params.min_EFT_allowable
    want_cost = max(F(max(eft)) - F(hi), F(lo) - F(min(eft)))
    got_cost = ghe.cost(mx, mn)
    if not close(float(got_cost), float(want_cost)):
        c.fail.append(("excess", f"cost({mx},{mn}) = {got_cost!r}, max(over, under) = {float(want_cost)!r}", replay))
    c.cost_line = f"sup.cost {core.rs(hi)} {core.rs(lo)} {core.rs(mx)} {core.rs(mn)}"
    c.cost_impl = float(got_cost)

    # ---- consequences, each on the real object
    def sim():
        with ghelib.quiet(), warnings.catch_warnings():
            warnings.simplefilter("ignore")
            ghe.simulate(TimestepType.HYBRID)
        return [float(v) for v in ghe.hp_eft]

    tg = truth["Tg"]
    dep = [v - tg for v in eft]
    scale = max(1.0, max(abs(v) for v in dep))
    hl.load = np.zeros_like(load0)
    z = sim()
    if any(v != tg for v in z):
        c.fail.append(("zero-load", f"zero load gives {z[:3]} instead of exactly T_g = {tg}", replay))
    a = cfg["a"]
    hl.load = load0 * a
    s = sim()
    if any(abs((s[i] - tg) - a * dep[i]) > REL * max(1.0, abs(a)) * scale for i in range(n)):
        i = next(i for i in range(n) if abs((s[i] - tg) - a * dep[i]) > REL * max(1.0, abs(a)) * scale)
        c.fail.append(("linear", f"loads x {a}: departure {s[i]-tg!r} at step {i+1}, expected {a*dep[i]!r}", dict(replay, a=a)))
    other = np.array([0.0, 0.0] + [rng.uniform(-1, 1) * 50.0 for _ in range(len(load0) - 2)])
    hl.load = other
    s2 = sim()
    hl.load = load0 + other
    s12 = sim()
    sc2 = max(scale, max(abs(v - tg) for v in s2))
    if any(abs((s12[i] - tg) - (dep[i] + s2[i] - tg)) > REL * sc2 for i in range(n)):
        c.fail.append(("additive", "departure of the sum of two load sequences is not the sum of the departures", dict(replay, other=[float(v) for v in other])))
    hl.load = load0
    d = cfg["d"]
    ghe.bhe.soil.ugt = tg + d
    sh = sim()
    if any(abs(sh[i] - (eft[i] + d)) > REL * max(1.0, abs(eft[i] + d)) for i in range(n)):
        c.fail.append(("shift", f"ground temperature + {d}: results do not shift equally", dict(replay, d=d)))
    ghe.bhe.soil.ugt = tg
    return c


def run_hr(cfg):
    """GHE.simulate(HOURLY) against ghSimulateHourlyAt (sampled steps) and the formula."""
    import numpy as np
    from ghedesigner.enums import TimestepType

    c = Case(cfg)
    try:
        ghe, truth = build(cfg)
    except Exception as e:
        c.skip = f"construct:{type(e).__name__}"
        return c
    rng = random.Random(cfg["seed"] + 13)
    cont = cfg.get("container")
    if cont:  # the same values in the container under test (whole watts for the integer ones)
        base_vals = [float(v) for v in ghe.hourly_extraction_ground_loads]
        if cont in INT_CONTAINERS or cfg.get("round_loads"):
            base_vals = [float(round(v)) for v in base_vals]
        ghe.hourly_extraction_ground_loads = to_container(base_vals, cont)
        c.count(f"hr:container:{cont}")
    mk = (lambda vals: to_container(vals, cont)) if cont else (lambda vals: list(vals))
    loads = [float(v) for v in ghe.hourly_extraction_ground_loads]
    c.count(f"hr:kind:{cfg['hkind']}")
    c.sig = ("hr", cfg["hkind"], cfg["pipe"], cfg["N"], cfg["m0"], cfg["m1"], len(loads), bool(cfg.get("after_hybrid")), cfg["seed"], cont)
    if cfg.get("after_hybrid"):  # call history: the hourly result must not depend on an earlier hybrid run (F7, fixed)
        c.count("hr:after-hybrid-run")
        with ghelib.quiet(), warnings.catch_warnings():
            warnings.simplefilter("ignore")
            ghe.simulate(TimestepType.HYBRID)
    replay = {"cfg": {k: v for k, v in cfg.items() if k != "loads"}, "n_loads": len(loads), "truth": truth}

    def sim():
        with ghelib.quiet(), warnings.catch_warnings():
            warnings.simplefilter("ignore")
            r = ghe.simulate(TimestepType.HOURLY)
        return r, [float(v) for v in ghe.hp_eft], [float(v) for v in ghe.dTb]

    try:
        (mx, mn), eft, dtb = sim()
        c.impl = ("ok", len(eft), eft, dtb, float(mx), float(mn))
    except IndexError:
        c.impl = ("raise", "IndexError")
    except ValueError as e:
        if "interpolation range" in str(e):
            c.skip = "g-table-range"
            return c
        c.impl = ("raise", "ValueError")
    p = obj_params(ghe)
    check_thermal(c, cfg, truth, p)
    gx, gy = g_tables(c, ghe, truth, {k: v for k, v in cfg.items() if k != "loads"})
    gfun = interp_fun(gx, gy)
    # what the documentation says the hourly method simulates: rejection = -extraction, hour k ends at k,
    # the yearly profile repeated over the horizon
    n_months = cfg["m1"] - cfg["m0"] + 1
    whole_years = n_months % 12 == 0 and n_months > 0
    if c.impl[0] == "ok":
        n = c.impl[1]
        t = [float(k) for k in range(1, n + 1)]
        q = [-loads[(i % len(loads))] for i in range(n)]
        n_years_ = math.ceil(730 * n_months / 8760)
        want_n = min(len(loads) * n_years_, 730 * n_months) if len(loads) // 8760 < n_years_ else len(loads)
        if cfg["hkind"] in ("partial", "multi-short") and len(loads) // 8760 < n_years_ and len(loads) * n_years_ > 730 * n_months:
            c.count("hr:regression-05a458d-horizon-ends-inside-a-copy")
        if want_n is not None and n != want_n:
            c.fail.append(("hourly-steps", f"{n} hourly steps simulated, expected {want_n}", replay))
        k = cfg["ksteps"]
        c.steps = _sample_steps(rng, n, k)
        tv = [0.0] + t
        try:
            keys, vals = gln_table(tv, p["ts"], c.steps, gfun)
        except ValueError:
            c.skip = "g-table-range"
            return c
        o = Oracle(truth, truth.get("Rb", p["Rb"]), gx, gy, q, t)
        o.note = f" [g: stored family at h_eq = H*B_table/B_field = {truth['h_eq']:g} m; B_field {truth['B_field']:g}, B_table {truth['B_table']:g}, H {truth['H']:g}]"
        _check_formula(c, o, eft, dtb, c.steps, "hourly", replay)
        _check_sign(c, o, eft, c.steps, q, "hourly", replay)
        if (mx, mn) != (max(eft), min(eft)):
            c.fail.append(("hr-maxmin", "simulate() did not return (max, min) of hp_eft", replay))
        if [float(v) for v in ghe.loading[:n]] != q:
            c.fail.append(("hr-bookkeeping", "GHE.loading is not the simulated rejection load", replay))
        if cont:  # the same numbers as a list of floats must give identical temperatures
            ghe.hourly_extraction_ground_loads = [float(v) for v in loads]
            _, ef, df = sim()
            if ef != eft or df != dtb:
                j = next((j for j in range(min(len(ef), n)) if ef[j] != eft[j] or df[j] != dtb[j]), 0) if len(ef) == n else 0
                c.fail.append(("container-equivalence", f"hourly loads as {cont} and the same numbers as a list of floats give different results "
                               f"({n} vs {len(ef)} steps; step {j+1}: {eft[j]!r} vs {ef[j]!r}; N={cfg['N']}, loads={loads[:4]}...)",
                               dict(replay, container=cont, loads=loads[:50])))
            ghe.hourly_extraction_ground_loads = mk(loads)
        # consequences on the real object (only when cheap enough)
        if cfg.get("variants", True):
            tg = truth["Tg"]
            dep = [v - tg for v in eft]
            scale = max(1.0, max(abs(v) for v in dep))
            ghe.hourly_extraction_ground_loads = mk([0.0] * len(loads))
            _, z, _ = sim()
            if any(v != tg for v in z):
                c.fail.append(("zero-load", f"hourly: zero load gives {z[:3]} instead of exactly T_g = {tg}", replay))
            a = cfg.get("a_int", 2) if cont in INT_CONTAINERS else cfg["a"]  # integer containers are scaled by a whole factor
            ghe.hourly_extraction_ground_loads = mk([a * v for v in loads])
            _, s, _ = sim()
            bad = [i for i in range(n) if abs((s[i] - tg) - a * dep[i]) > REL * max(1.0, abs(a)) * scale]
            if bad:
                c.fail.append(("linear", f"hourly loads x {a}: departure {s[bad[0]]-tg!r} at step {bad[0]+1}, expected {a*dep[bad[0]]!r}", dict(replay, a=a)))
            ghe.hourly_extraction_ground_loads = mk(loads)
            d = cfg["d"]
            ghe.bhe.soil.ugt = tg + d
            _, sh, _ = sim()
            if any(abs(sh[i] - (eft[i] + d)) > REL * max(1.0, abs(eft[i] + d)) for i in range(n)):
                c.fail.append(("shift", f"hourly, ground temperature + {d}: results do not shift equally", dict(replay, d=d)))
            ghe.bhe.soil.ugt = tg
    else:
        keys, vals = "-", "-"
        c.steps = []
        # theorem hourly_never_index_error: no horizon / list length may raise (regression of /repo 05a458d)
        c.fail.append(("hr-unexpected-raise", f"simulate(HOURLY) with {len(loads)} hourly loads and a {n_months}-month horizon raised {c.impl[1]}", replay))
    c.line = (f"sup.hr {pline(p)} {core.rs(p['ts'])} {cfg['m0']} {cfg['m1']} {rl(loads)} {keys} {vals} "
              + (",".join(map(str, c.steps)) or "-"))
    if whole_years and cfg["hkind"] == "full" and c.impl[0] != "ok":
        c.fail.append(("hr-full-year-raise", "whole-year hourly simulation raised", replay))
    return c


def run_case(cfg):
    import time

    os.environ["OMP_NUM_THREADS"] = "1"
    t0 = time.time()
    try:
        c = {"det": run_det, "hyb": run_hyb, "hr": run_hr}[cfg["kind"]](cfg)
        c.wall = time.time() - t0
        return c
    except Exception as e:  # keep the pool alive; reported as infrastructure by the parent
        import traceback

        c = Case(cfg)
        c.skip = "harness-exception:" + type(e).__name__ + ":" + traceback.format_exc(limit=3)[-400:]
        return c


# ----------------------------------------------------------------------------- case generation
def rand_phys(rng, wide=True):
    p = ghelib.random_physics(rng) if rng.random() < 0.85 else ghelib.default_physics()
    h, d, dia = p["borehole"]
    if wide:
        r = rng.random()
        if r < 0.25:
            h = round(rng.uniform(20.0, 60.0), 1)
        elif r < 0.5:
            h = round(rng.uniform(140.0, 400.0), 1)
    p["borehole"] = (h, d, dia)
    r = rng.random()
    if r < 0.25:
        p["flow"] = round(rng.uniform(0.03, 0.15), 3)  # low flow: the F11 regime
    elif r < 0.35:
        p["flow"] = round(rng.uniform(0.8, 2.0), 3)
    # every fluid of the enum, at non-zero concentrations and at non-default temperatures
    if rng.random() < 0.6:
        name = rng.choice(["PropyleneGlycol", "EthyleneGlycol", "MethylAlcohol", "MethylAlcohol", "EthylAlcohol", "Water"])
        p["fluid"] = (name, 0.0 if name == "Water" else round(rng.uniform(5.0, 40.0), 1))
        if rng.random() < 0.5:
            p["fluid_temp"] = rng.choice([5.0, 10.0, 35.0, round(rng.uniform(2.0, 40.0), 1)])
    return p


def rand_n(rng):
    r = rng.random()
    if r < 0.12:
        return 1
    if r < 0.45:
        return rng.randint(2, 9)
    if r < 0.8:
        return rng.randint(10, 99)
    return rng.randint(100, 400)


def base_cfg(rng, kind):
    pipe = rng.choice(ghelib.PIPE_KINDS)
    cfg = {"kind": kind, "seed": rng.randrange(1 << 30), "phys": rand_phys(rng), "pipe": pipe, "N": rand_n(rng),
           "heights": rng.choice([1, 1, 3]), "monotone": rng.random() < 0.85, "m0": 1, "m1": 12,
           "profile": "constant", "scale": 1.0,
           "a": rng.choice([2.0, -1.0, 0.5, -3.5, round(rng.uniform(-4, 4), 3)]), "d": rng.choice([1.0, -7.25, round(rng.uniform(-15, 15), 2)])}
    if pipe == "COAXIAL" and cfg["phys"]["flow"] < 0.15:
        cfg["phys"]["flow"] = round(rng.uniform(0.2, 0.8), 3)  # F10: low-flow coaxial has no equivalent U-tube
    if pipe == "COAXIAL" and rng.random() < 0.7:  # insulated inner pipe / enhanced outer pipe / poor outer pipe
        cfg["phys"]["pipe_k2"] = rng.choice([(0.1, 0.4), (0.4, 0.6), (0.6, 0.2), (round(rng.uniform(0.1, 0.6), 2), round(rng.uniform(0.2, 0.6), 2))])
    cfg["indep"] = rng.random() < 0.75  # formula fed with the independent m_dot, c_p, R_b* (else with the object's)
    if kind != "det" and rng.random() < 0.45:  # field spacing different from the spacing the table is stored for
        cfg["b_ratio"] = rng.choice([0.5, 2.0, 1.3, 0.8, 3.0, round(rng.uniform(0.4, 3.0), 2)])
        cfg["height_factors"] = rng.choice([[0.5, 1.0, 2.0], [0.8, 1.0, 1.25], [0.7, 1.15, 1.6], [0.9, 1.4], [0.6, 1.0], [0.75, 0.9, 1.3]])
    return cfg


PROFILES = ["atlanta", "atlanta_neg", "balanced", "spiky", "constant", "heating_only", "cooling_only"]


def gen_cases(rng, tier):
    quick = tier == "quick"
    cases = []
    # --- det
    for i in range(120 if quick else 1500):
        cfg = base_cfg(rng, "det")
        cfg.update(profile="constant", scale=1.0, m1=1)
        cfg["n"] = rng.choice([1, 2, 3, 5, 8, 13, 21, 34]) if i % 4 else rng.randint(1, 60)
        cfg["style"] = rng.choice(["pos", "neg", "mixed", "mixed", "sparse", "zero"])
        cfg["textra"] = rng.choice([0, 0, 0, 1, 5, -1, -cfg["n"]])
        if i % 8 == 5:  # whole watts in an integer array, on a field where they do not divide evenly
            cfg.update(qdtype=rng.choice(["int64", "int32"]), small=rng.random() < 0.4, N=rng.choice([4, 4, 7, 13, 48, 300]),
                       style=rng.choice(["pos", "neg", "mixed", "mixed"]), textra=rng.choice([0, 0, 2]))
        cases.append(cfg)
    # --- hyb
    months = [1, 2, 3, 6, 11, 12, 13, 18, 24, 25, 36]
    for i in range(84 if quick else 900):
        cfg = base_cfg(rng, "hyb")
        cfg["profile"] = PROFILES[i % len(PROFILES)]
        cfg["scale"] = 10 ** rng.uniform(-1.0, 0.6) * max(1.0, cfg["N"] / 20.0)
        cfg["m1"] = rng.choice(months) if (quick or rng.random() < 0.95) else rng.choice([48, 60])
        if i % 3 == 2:
            cfg["inject"] = {"n": rng.choice([1, 2, 3, 7, 20, 60, 120]), "style": rng.choice(["pos", "neg", "mixed", "pulse"]),
                             "textra": rng.choice([0, 0, 0, 2, -1])}
        cases.append(cfg)
    # --- hr
    n_full = 2 if quick else 40
    for i in range(n_full):
        cfg = base_cfg(rng, "hr")
        cfg.update(hkind="full", profile=PROFILES[(i * 3) % len(PROFILES)], scale=10 ** rng.uniform(-1, 0.5) * max(1.0, cfg["N"] / 20.0),
                   m1=12 if (quick or i % 4) else 24, ksteps=40 if quick else 60, variants=True)
        if i % 2 == 1:  # a year of whole watts as Python ints (a JSON array written without decimal points)
            cfg.update(container="int-list", a_int=rng.choice([2, -3]), N=rng.choice([4, 7, 13, 48]))
        cases.append(cfg)
    # the same numbers in other containers: Python ints, numpy integer arrays, ints and floats mixed
    for i in range(16 if quick else 150):
        cfg = base_cfg(rng, "hr")
        cont = ["int-list", "np-int64", "int-list", "np-int32", "mixed-list", "int-list", "np-int64", "np-float64"][i % 8]
        ln = rng.choice([24, 100, 333])
        small = i % 3 == 0
        lim = 3 if small else 50000
        vals = [float(rng.randint(-lim, lim)) for _ in range(ln)]
        if cont in ("mixed-list", "np-float64"):
            vals = [v if k % 2 == 0 else v + rng.uniform(-0.5, 0.5) for k, v in enumerate(vals)]
        if i % 5 == 4:
            vals = [abs(v) for v in vals]
        cfg.update(hkind="container", container=cont, loads=vals, N=4 if small else rng.choice([4, 7, 13, 48, 300]),
                   m1=rng.choice([12, 12, 13, 24]) if cont in LIST_CONTAINERS else rng.choice([1, 6, 12]),
                   ksteps=60, variants=True, a_int=1000 if small else rng.choice([2, -7, 10]))
        cases.append(cfg)
    for i in range(24 if quick else 200):
        cfg = base_cfg(rng, "hr")
        r = i % 5
        if r in (0, 1):  # short list, repeated n_years times
            ln = rng.choice([1, 2, 24, 100, 333, 744])
            cfg.update(hkind="short", loads=[rng.uniform(-1, 1) * 10 ** rng.uniform(2, 5) for _ in range(ln)] if r == 0 else
                       [abs(rng.gauss(0, 1)) * 3000.0 * rng.choice([1, 1, 0]) for _ in range(ln)],
                       m1=rng.choice([1, 5, 12, 13, 24, 30]), ksteps=60)
        elif r == 2:  # partial year with a full-year list: the horizon ends inside the last copy (raised before 05a458d)
            cfg.update(hkind="partial", profile=rng.choice(PROFILES), scale=1.0, m1=rng.choice([1, 5, 11, 13, 13, 18, 23, 25]), ksteps=25, variants=False)
            if rng.random() < 0.3:
                cfg["m0"] = 3
                cfg["m1"] = cfg["m0"] + rng.choice([0, 5, 12, 15])
        elif r == 3 and i % 10 == 3:  # two-year list, three-year horizon: repeated three times, cut at 26280 (raised before 05a458d)
            cfg.update(hkind="multi-short", loads_gen=[17520, rng.randrange(1 << 30), 20000.0], m1=36, ksteps=20, variants=False)
        elif r == 3:  # list longer than the horizon: n_hours = len(list)
            ln = rng.choice([8760 * 2, 8761, 9000, 17521]) if not quick else rng.choice([8761, 9000])
            cfg.update(hkind="multi", loads=[rng.uniform(-1, 1) * 20000.0 for _ in range(ln)], m1=rng.choice([1, 12]), ksteps=25, variants=False)
        else:  # short list again, after a hybrid run on the same object
            ln = rng.choice([24, 100, 500])
            cfg.update(hkind="short", loads=[rng.uniform(-1, 1) * 20000.0 for _ in range(ln)], m1=rng.choice([12, 24]), ksteps=60,
                       after_hybrid=True)
        cases.append(cfg)
    return cases


def corpus_cases():
    import json

    out = []
    d = core.CORPUS / PROPERTY
    if d.is_dir():
        for f in sorted(d.glob("*.json")):
            cfg = json.loads(f.read_text())
            cfg["corpus"] = f.name
            if "phys" in cfg:
                cfg["phys"] = {k: tuple(v) if isinstance(v, list) else v for k, v in cfg["phys"].items()}
            out.append(cfg)
    return out


# ----------------------------------------------------------------------------- hourly bookkeeping stream
def hourly_sizes(ctx, rng):
    """The unit handling of the real GHE.simulate(HOURLY) for many (horizon, list length, stale self.times) combinations:
    `_simulate_detailed` of one real object is replaced by a recorder and the g-function refresh by a no-op, so that
    only the anchored bookkeeping runs.  Compared with the model (`sup.hrin`: sizes) and with the documented meaning
    (rejection = -extraction, the list repeated, hour k ends at k)."""
    import numpy as np
    from ghedesigner.enums import TimestepType

    cfg = {"kind": "hr", "seed": 5, "phys": ghelib.default_physics(), "pipe": "SINGLEUTUBE", "N": 4, "heights": 1, "m0": 1, "m1": 12,
           "loads": [0.0] * 24}
    ghe, _ = build(cfg)
    rec = {}

    def recorder(q, t, g):
        rec["q"], rec["t"] = np.array(q, dtype=float), np.array(t, dtype=float)
        return [0.0], [0.0]

    ghe._simulate_detailed = recorder
    ghe.grab_g_function = lambda b_over_h: (None, None)
    ghe.radial_numerical.calc_sts_g_functions = lambda bhe: None
    ghe.bhe.to_single = lambda: ghe.bhe_eq
    lines, sizes = [], []
    for _ in range(300 if ctx.tier == "quick" else 3000):
        m0 = rng.choice([1, 1, 1, 2, 7, 12])
        m1 = m0 - 1 + rng.choice([1, 2, 6, 11, 12, 13, 24, 25, 36, 120])
        ln = rng.choice([1, 24, 8759, 8760, 8761, 17519, 17520, 17521, 26280])
        tl = rng.choice([0, 0, 5])  # what an earlier run left in self.times; must not matter
        ghe.sim_params.start_month, ghe.sim_params.end_month = m0, m1
        loads = [float(k + 1) for k in range(ln)]
        ghe.hourly_extraction_ground_loads = loads
        ghe.times = np.arange(1, tl + 1, 1) * 0.5 if tl else []
        rec.clear()
        ghe.simulate(TimestepType.HOURLY)
        q, t = rec["q"], rec["t"]
        lines.append(f"sup.hrin {m0} {m1} {ln}")
        sizes.append(f"{q.size} {t.size}")
        ctx.count("hrin:" + ("repeat" if q.size != ln else "as-given") + ":" + ("stale-axis-present" if tl else "fresh"))
        # documented meaning
        if any(q[i] != -loads[i % ln] for i in range(0, q.size, max(1, q.size // 200))) or (q.size and q[-1] != -loads[(q.size - 1) % ln]):
            ctx.finding("hourly-load-sign-or-repetition", "hourly loads handed to the superposition are not the negated extraction loads repeated",
                        {"m0": m0, "m1": m1, "len": ln})
        if (t.size and (t[0] != 1.0 or t[-1] != float(t.size) or np.any(np.diff(t) != 1.0))):
            ctx.finding("hourly-time-axis", "hourly time axis is not 1, 2, ..., n_hours", {"m0": m0, "m1": m1, "len": ln, "t": t[:5].tolist()})
        if t.size < q.size:
            # _simulate_detailed raises IndexError on these (theorem time_axis_too_short); excluded for the
            # repaired source by hourly_never_index_error
            ctx.finding("hourly-axis-length", f"simulate(HOURLY), {ln} loads, {m1 - m0 + 1} months: {q.size} loads but {t.size} time values -> IndexError",
                        {"m0": m0, "m1": m1, "len": ln})
        nm_ = m1 - m0 + 1
        ny_ = math.ceil(730 * nm_ / 8760)
        want = min(ln * ny_, 730 * nm_) if ln // 8760 < ny_ else ln
        if q.size != want:
            ctx.finding("hourly-steps", f"simulate(HOURLY), {ln} loads, {nm_} months: {q.size} steps, expected {want} (list repeated over the horizon)",
                        {"m0": m0, "m1": m1, "len": ln})
        if ln // 8760 < ny_ and ln * ny_ > 730 * nm_:
            ctx.count("hrin:horizon-ends-inside-a-copy")
    so = ctx.driver(lines)
    if so is not None:
        ctx.count("model-compared:hrin", len(lines))
        badi = [i for i in range(len(lines)) if so[i] != sizes[i]]
        if badi:
            ctx.disagreements_checked += len(badi)
            ctx.broken.append("hourly-sizes-correspondence")
            ctx.extra["hourly_sizes_first"] = {"cmd": lines[badi[0]], "model": so[badi[0]], "impl": sizes[badi[0]]}


def par_driver(ctx, lines, workers=12):
    """ctx.driver on several driver processes at once (the commands are independent); longest lines first."""
    from concurrent.futures import ThreadPoolExecutor

    idx = sorted(range(len(lines)), key=lambda i: -len(lines[i]))
    chunks = [idx[k::workers] for k in range(workers)]
    chunks = [ch for ch in chunks if ch]
    with ThreadPoolExecutor(len(chunks)) as ex:
        outs = list(ex.map(lambda ch: ctx.driver([lines[i] for i in ch], timeout=1500), chunks))
    if any(o is None for o in outs):
        return None
    res = [None] * len(lines)
    for ch, o in zip(chunks, outs):
        for i, v in zip(ch, o):
            res[i] = v
    return res


# ----------------------------------------------------------------------------- main
def compare(ctx, c, out):
    """Model answer vs implementation for one case; returns a disagreement description or None."""
    if out in ("bad-arg", "bad-op", "bad-table", "nonfinite"):
        return f"model answered {out}"
    if out.startswith("raise "):
        name = out.split()[1]
        if c.impl[0] == "raise" and c.impl[1] == name:
            return None
        return f"model raises {name}, implementation {c.impl[0]} {c.impl[1] if c.impl[0]=='raise' else ''}"
    if c.impl[0] == "raise":
        return f"implementation raises {c.impl[1]}, model answers"
    parts = out.split(";")
    kind = c.cfg["kind"]
    if kind == "det":
        me, md = pl(parts[0]), pl(parts[1])
        mn_ = len(me)
    else:
        mn_ = int(parts[0])
        me, md = pl(parts[1]), pl(parts[2])
    if mn_ != c.impl[1]:
        return f"model simulates {mn_} steps, implementation {c.impl[1]}"
    eft, dtb = c.impl[2], c.impl[3]
    if len(me) != len(c.steps):
        return f"model returned {len(me)} values for {len(c.steps)} steps"
    for j, i in enumerate(c.steps):
        a, b = float(me[j]), float(md[j])
        if abs(eft[i - 1] - a) > REL * max(1.0, abs(a)) or abs(dtb[i - 1] - b) > REL * max(1.0, abs(b)):
            return f"step {i}: hp_eft impl {eft[i-1]!r} model {a!r}; dTb impl {dtb[i-1]!r} model {b!r}"
    if kind == "hyb":
        if float(core.pr(parts[3])) != c.impl[4] and abs(float(core.pr(parts[3])) - c.impl[4]) > REL * max(1.0, abs(c.impl[4])):
            return f"max: model {float(core.pr(parts[3]))!r} impl {c.impl[4]!r}"
        if abs(float(core.pr(parts[4])) - c.impl[5]) > REL * max(1.0, abs(c.impl[5])):
            return f"min: model {float(core.pr(parts[4]))!r} impl {c.impl[5]!r}"
    return None


def run(ctx: core.Ctx):
    ctx.rule = ("one case = one real GHE object (pipe kind, 1..400 boreholes, height 20..400 m, random media/flow, synthetic long-time g table "
                "combined with the real short-time table) x one load sequence x one method; distinct = distinct (stream, pipe, N, horizon, "
                "profile/sequence, seed); non-trivial = at least one simulated step or an error branch reached")
    ctx.trusted_base += [
        "translator translate/gen_superpose.py (constants and statement shapes of GHE.simulate / _simulate_detailed) and translate/gen.py (BaseGHE.cost, SEC_IN_HR)",
        "hand-written model Model/Superpose.lean, tied to the code by the det/hyb/hr differential streams",
        "g(ln(.)) enters as a parameter: the harness evaluates it with math.log and its own linear interpolation of the DOCUMENTED table: the stored "
        "long-time family interpolated in height at h_eq = H*B_table/B_field by the harness, joined with the object's short-time table (C10/C11 own those)",
        "pygfunction's secondary-coolant tables, film-coefficient / wall-conduction helpers and pipe classes (effective_borehole_thermal_resistance): the "
        "references for m_dot, c_p, R_b* are built from them out of the user-level inputs, without the package's GHEFluid / pipe classes",
        "numpy float rounding within 1e-9 relative (+1e-13 x sum of |terms|) of the exact rational value",
    ]
    ctx.assumptions += [
        "hourly_extraction_ground_loads is a Python list whenever it has to be repeated (`q_dot * n_years` is list repetition; a numpy array would be "
        "multiplied element-wise instead — candidate finding reported to the coordinator); numpy arrays are fed only with n_years = 1",
        "float32 load arrays are not fed: the unchanged code divides them by the borehole count in float32 (4e-8 relative, beyond the 1e-9 tolerance)",
        "parameters with a zero divisor (H, k, nbh, m_dot*cp) give inf/nan in numpy without raising; the model answers `nonfinite`; real objects never have them",
        "int(n_months/12.0*8760.0) = 730*n_months in float arithmetic (checked for n_months = 1..4800 on every run)",
        "the hourly time axis is rebuilt on every call (F7 fixed in /repo); a source that reuses self.times again stops the translator",
    ]
    ctx.lean_prepare()
    rng = ctx.rng

    # float truncation of n_hours agrees with the exact value the model uses
    bad = [m for m in range(1, 4801) if int(m / 12.0 * 8760.0) != 730 * m]
    ctx.count("n_hours-float-vs-exact-checked", 4800)
    if bad:
        ctx.broken.append("n_hours-float-truncation")
        ctx.extra["n_hours_float_mismatch"] = bad[:5]

    if ctx.replay:
        import json

        rp = json.loads(open(ctx.replay).read())
        cfg = (rp.get("replay") or rp).get("cfg") or rp
        if "phys" in cfg:
            cfg["phys"] = {k: tuple(v) if isinstance(v, list) else v for k, v in cfg["phys"].items()}
        cases = [cfg]
        ctx.log("replaying", ctx.replay)
    else:
        cases = corpus_cases() + gen_cases(rng, ctx.tier)
    # heavy hourly cases first so that the pool is balanced
    order = sorted(range(len(cases)), key=lambda i: (cases[i]["kind"] != "hr" or cases[i].get("hkind") not in ("full", "multi", "multi-short", "partial")))
    import time

    t0 = time.time()
    results = core.pool_map(run_case, [cases[i] for i in order])
    ctx.extra["phase_impl_and_oracle_s"] = round(time.time() - t0, 1)
    lines, owners = [], []
    for c in results:
        for k, v in c.counts.items():
            ctx.count(k, v)
        wk = "worker_seconds_" + c.cfg["kind"]
        ctx.extra[wk] = round(ctx.extra.get(wk, 0.0) + c.wall, 1)
        if c.skip:
            ctx.count("skipped:" + c.skip.split(":")[0] + ":" + c.skip.split(":")[1] if c.skip.startswith(("construct", "harness")) else "skipped:" + c.skip)
            if c.skip.startswith("harness-exception"):
                ctx.infra(c.skip)
            continue
        nontrivial = c.impl is not None and (c.impl[0] == "raise" or c.impl[1] > 0)
        sample = None
        if ctx.cases % 53 == 0:
            sample = {"stream": c.cfg["kind"], "pipe": c.cfg["pipe"], "N": c.cfg["N"], "H": c.cfg["phys"]["borehole"][0],
                      "flow": c.cfg["phys"]["flow"], "months": [c.cfg["m0"], c.cfg["m1"]], "steps_or_error": c.impl[1],
                      "first_eft": c.impl[2][:2] if c.impl[0] == "ok" else None}
        ctx.case(c.sig, nontrivial, sample)
        ctx.count("outcome:" + c.cfg["kind"] + ":" + (c.impl[0] if c.impl[0] == "ok" else c.impl[1]))
        ctx.extra["max_rel_error_vs_formula"] = max(ctx.extra.get("max_rel_error_vs_formula", 0.0), c.maxerr)
        ctx.extra["max_abs_difference_documented_g_vs_package_lookup"] = max(ctx.extra.get("max_abs_difference_documented_g_vs_package_lookup", 0.0), c.gdev)
        ctx.extra["max_rel_disagreement_mdot_cp_Rb_vs_independent"] = max(ctx.extra.get("max_rel_disagreement_mdot_cp_Rb_vs_independent", 0.0), c.therm)
        for key, what, rep in c.fail:
            ctx.finding(key, what, dict(rep, cfg=c.cfg, how_to_replay="./check C09 --replay <this file>"))
        if c.line:
            lines.append(c.line)
            owners.append((c, "main"))
        if getattr(c, "cost_line", None):
            lines.append(c.cost_line)
            owners.append((c, "cost"))
    t0 = time.time()
    out = par_driver(ctx, lines) if lines else []
    ctx.extra["phase_model_s"] = round(time.time() - t0, 1)
    ctx.extra["model_input_MB"] = round(sum(len(x) for x in lines) / 1e6, 1)
    if out is not None:
        for (c, what), o in zip(owners, out):
            if what == "cost":
                d = None if (not o.startswith("bad") and abs(float(core.pr(o)) - c.cost_impl) <= REL * max(1.0, abs(c.cost_impl))) else f"cost: model {o} impl {c.cost_impl!r}"
                stream = "cost-correspondence"
            else:
                d = compare(ctx, c, o)
                stream = c.cfg["kind"] + "-correspondence"
            ctx.count("model-compared:" + (what if what == "cost" else c.cfg["kind"]))
            if d:
                ctx.disagreements_checked += 1
                ctx.count("disagreement:" + stream)
                if stream not in ctx.broken:
                    ctx.broken.append(stream)
                    ctx.extra[stream.replace("-", "_") + "_first"] = {"what": d, "cfg": {k: v for k, v in c.cfg.items() if k != "loads"}}
    if not ctx.replay:
        hourly_sizes(ctx, rng)
    ctx.programs = 3
    ctx.exhaustive = False
    if ctx.tier == "thorough":
        ctx.leanchecker(["GHEVerif.Props.C09", "GHEVerif.Lemmas.Superpose", "GHEVerif.Model.Superpose"])
