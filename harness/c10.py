"""C10 — Short-time radial g-function is conservative and physically consistent.

Proof: lean/GHEVerif/Props/C10.lean about the model lean/GHEVerif/Model/Radial.lean (written once,
polymorphic in the scalar type; theorems over any ordered field / the reals, `log` a parameter).
Tie to the code:
  * literal constants (cell counts, far-field radius, time step, …) regenerated from
    radial_numerical_borehole.py into Gen/RadialConsts.lean (translate/gen_radial.py);
  * correspondence: the Float instantiation of the same definitions against the real
    `RadialNumericalBH.calc_sts_g_functions` on the same inputs — cell table (1e-12), the three
    diagonals LAPACK receives (1e-12), step count (exact), 30-point lntts/g/g_bhw and the final
    temperature profile (1e-7); the cell table also against the Rat instantiation (1e-13);
  * predicate on the implementation's own table / temperatures / outputs with an oracle written
    here in `fractions.Fraction` + `math` (tiling, fluid thermal mass, layer resistances, energy
    balance stored + leak = injected, far-field leak, finite, monotone, sign bounds);
  * call history: ONE RadialNumericalBH re-used for sequences of 2-4 boreholes (as GHE re-uses
    `self.radial_numerical`), incl. steps engineered to keep R_f and R_b* bit-identical while heat
    capacities / height change; every element must be bit-identical to a fresh object and satisfy the
    predicate; steps changing soil conductivity / radii with identical resistances are regressions for
    the repaired `partial_init` (it used to keep the first exchanger's c_0 and grid geometry);
  * one input at a time: in one process, base -> a NEW object differing in a single physical input -> base again,
    for every input the response depends on; each run against the Lean model for its own inputs; a variant
    bit-identical to the base although the model says the input matters is `history-input-ignored-<input>`;
  * GHE-level call history: build a real GHE, change the height, simulate(HOURLY / HYBRID) repeatedly; after every call
    `ghe.radial_numerical` must hold the response of the current exchanger at the current height (fresh object, model);
  * real exchangers: fluid thermal mass and R_b* targets come from pygfunction's own Fluid / SingleUTube on the user-level
    inputs (ghelib.independent_fluid), not from the package's media / exchanger objects;
  * the 0.5 % finer-mesh claim: differential run of the Float model with 2x cells and dt/4
    (level translation_validation, reported in the evidence; not a theorem).
"""
from __future__ import annotations

import json
import math
import os
import struct
import subprocess
import types
from fractions import Fraction
from pathlib import Path

import core
import ghelib  # noqa: F401  (puts VERIF_REPO first on sys.path)

PROPERTY = "C10"
LEVEL = "proof"
MANIFEST = {
    "text": "C10 — short-time radial g-function: cells tile the radius, fluid thermal mass, layer resistances sum to R_b, "
            "energy balance (stored = injected - far-field leak) and discrete maximum principle (monotone, g_bhw >= 0, g >= -2 pi k R_b) "
            "proved for the temperatures the model's own loop computes (its elimination is proved exact; coefficient positivity derived from valid inputs); model tied to the code by a Float differential run; 0.5 % finer-mesh agreement as translation validation",
    "note": "Float rounding is not reasoned about: theorems are over ordered fields / the reals for the same polymorphic definitions; "
            "LAPACK dgtsv enters as 'returns the solution of the tridiagonal system'",
    "technique": "Lean 4 theorems about a scalar-polymorphic model + Float instantiation run against numpy/LAPACK + independent Fraction oracle",
    "design_ref": "DESIGN.md C10",
}

DRIVER = core.LEAN / ".lake" / "build" / "bin" / "driver"
SQRT2, PI = math.sqrt(2.0), math.pi
FLUIDS = [("Water", 0.0), ("PropyleneGlycol", 20.0), ("PropyleneGlycol", 35.0), ("EthyleneGlycol", 25.0),
          ("MethylAlcohol", 15.0), ("EthylAlcohol", 20.0)]
INPUT_KEYS = ["r_b", "r_out", "r_in", "k_soil", "rc_soil", "rc_grout", "rc_pipe", "rc_fluid", "R_f", "R_b", "H", "k_s"]
# |stored + leak - injected| / injected.  DESIGN.md says 1e-9; measured rounding noise reaches 2e-9 (temperatures are
# stored as 20 K + rise, one ulp of 20 K times the total heat capacity out to 10 m (~1e9 J/K/m) is ~4e-6 J per step against
# 120 J injected per step), a coefficient / volume slip gives 1e-3 and more.
BAL_TOL = 5e-8
LEAK_TOL = 1e-6      # the property's literal claim
FINE_TOL = 5e-3      # 0.5 %


# ----------------------------------------------------------------------------- wire helpers
def bits2f(s: str) -> float:
    return struct.unpack("<d", struct.pack("<Q", int(s)))[0]


def drive(lines, timeout=900):
    r = subprocess.run([str(DRIVER)], input="\n".join(lines) + "\n", capture_output=True, text=True, timeout=timeout)
    out = r.stdout.splitlines()
    if r.returncode != 0 or len(out) != len(lines):
        raise RuntimeError(f"driver rc={r.returncode} in={len(lines)} out={len(out)} err={r.stderr[-200:]}")
    return out


_MODEL_CACHE: dict = {}


def drive_cached(lines):
    """The model is a pure function of its command line: identical requests inside one worker are answered once."""
    key = tuple(lines)
    if key not in _MODEL_CACHE:
        if len(_MODEL_CACHE) > 64:
            _MODEL_CACHE.clear()
        _MODEL_CACHE[key] = drive(lines)
    return _MODEL_CACHE[key]


def floats(part: str):
    return [bits2f(x) for x in part.split()]


# ----------------------------------------------------------------------------- case generation
def _round(x, n=6):
    return float(f"{x:.{n}g}")


def gen_real(rng, pipe_kind=None, H=None):
    """A real borehole object inside the property's quantifier ranges."""
    pipe_kind = pipe_kind or rng.choices(["SINGLEUTUBE", "DOUBLEUTUBEPARALLEL", "DOUBLEUTUBESERIES", "COAXIAL"], [70, 10, 10, 10])[0]
    r_b = _round(rng.choice([0.05, 0.12, rng.uniform(0.05, 0.12), rng.uniform(0.05, 0.12)]), 4)
    if H is None:
        H = rng.choice([20.0, 400.0, _round(math.exp(rng.uniform(math.log(20), math.log(400))), 4),
                        _round(rng.uniform(20, 400), 4), _round(rng.uniform(20, 400), 4)])
    c = {"kind": "real", "pipe_kind": pipe_kind, "fluid": list(rng.choice(FLUIDS)),
         "m_flow": _round(math.exp(rng.uniform(math.log(0.02), math.log(1.5))), 4),
         "H": H, "D": _round(rng.uniform(1.0, 4.0), 3), "r_b": r_b,
         "k_pipe": _round(rng.uniform(0.3, 0.6), 3), "rc_pipe": _round(rng.uniform(1.2e6, 2.2e6), 5),
         "k_grout": _round(rng.uniform(0.6, 2.5), 3), "rc_grout": _round(rng.uniform(1.5e6, 4.2e6), 5),
         "k_soil": _round(rng.uniform(0.8, 4.0), 3), "rc_soil": _round(rng.uniform(1.3e6, 3.9e6), 5),
         "final_time": None, "fluid_temp": rng.choice([20.0, 20.0, 5.0, 10.0, 15.0, 25.0, 30.0])}
    if pipe_kind == "COAXIAL":
        f = min(1.0, (2 * r_b) / 0.14) * rng.uniform(0.85, 1.0)
        c["r_in"] = [_round(0.0442 * f / 2), _round(0.050 * f / 2)]
        c["r_out"] = [_round(0.0974 * f / 2), _round(0.110 * f / 2)]
        c["s"] = 0.0
    else:
        n_u = 1 if pipe_kind == "SINGLEUTUBE" else 2
        # pipes that fit: n_u U-tubes, every pipe centre at s/2 + r_out from the axis
        r_max = (r_b / 2.05) if n_u == 1 else (r_b / 2.5)
        r_out = _round(min(rng.choice([0.01335, 0.0167, 0.02108, 0.02413, rng.uniform(0.010, 0.030)]), r_max), 5)
        r_in = _round(r_out * rng.uniform(0.76, 0.90), 5)
        room = r_b - 2 * r_out                     # s/2 <= room
        lo = 0.002 if n_u == 1 else min(2 * room, 0.45 * r_out * 2 + 0.004)
        s = _round(rng.uniform(min(lo, 2 * room * 0.98), 2 * room * 0.98), 5)
        c.update({"r_in": r_in, "r_out": r_out, "s": s})
    return c


def gen_stub(rng, degenerate=None):
    """Direct control of every number the radial model reads (duck-typed SingleUTube)."""
    r_b = _round(rng.choice([0.05, 0.12, rng.uniform(0.05, 0.12)]), 5)
    r_out = _round(rng.uniform(0.010, r_b / 2.0), 5)
    r_in = _round(r_out * rng.uniform(0.70, 0.92), 5)
    R_f = _round(math.exp(rng.uniform(math.log(0.002), math.log(0.6))), 5)
    R_b = _round(R_f / 2 + rng.uniform(0.03, 0.35), 5)
    k = _round(rng.uniform(0.8, 4.0), 4)
    c = {"kind": "stub", "r_b": r_b, "r_out": r_out, "r_in": r_in, "k_soil": k, "rc_soil": _round(rng.uniform(1.3e6, 3.9e6), 5),
         "rc_grout": _round(rng.uniform(1.5e6, 4.2e6), 5), "rc_pipe": _round(rng.uniform(1.2e6, 2.2e6), 5),
         "rc_fluid": _round(rng.uniform(3.4e6, 4.25e6), 5), "R_f": R_f, "R_b": R_b,
         "H": rng.choice([20.0, 400.0, _round(rng.uniform(20, 400), 4)]), "k_s": k,
         "final_time": rng.choice([None, None, _round(rng.uniform(3 * 3600, 60 * 3600), 5)])}
    if degenerate == "Rf0":
        c["R_f"] = 0.0
    elif degenerate == "Rpg0":
        c["R_b"] = c["R_f"] / 2.0
    elif degenerate == "nowall":
        c["r_in"] = c["r_out"]
    elif degenerate == "rc_soil0":
        c["rc_soil"] = 0.0
    elif degenerate == "H0":
        c["H"] = 0.0
    elif degenerate == "tiny_final":
        c["final_time"] = 100.0
    elif degenerate == "thin_pipe_neg_radius":
        c["r_in"] = _round(0.2 * c["r_out"], 5)   # r_fluid < 0 < r_conv?  (sqrt2 r_po - 2 t_p < 0)
    if degenerate:
        c["degenerate"] = degenerate
    return c


def signature(c):
    return json.dumps({k: v for k, v in c.items() if k != "fine"}, sort_keys=True)


# ----------------------------------------------------------------------------- the implementation, instrumented in-process
def build_bhe(c):
    if c["kind"] == "stub":
        ns = types.SimpleNamespace
        st = ns(b=ns(r_b=c["r_b"], H=c["H"]), pipe=ns(r_out=c["r_out"], r_in=c["r_in"], rhoCp=c["rc_pipe"]),
                soil=ns(k=c["k_soil"], rhoCp=c["rc_soil"]), grout=ns(rhoCp=c["rc_grout"]), fluid=ns(rhoCp=c["rc_fluid"]),
                k_s=c["k_s"], R_f=c["R_f"])
        st.calc_effective_borehole_resistance = lambda: c["R_b"]
        return st, {}
    from ghedesigner.borehole import GHEBorehole
    from ghedesigner.borehole_heat_exchangers import get_bhe_object
    from ghedesigner.enums import BHPipeType
    from ghedesigner.media import GHEFluid, Grout, Pipe, Soil

    fluid = GHEFluid(fluid_str=c["fluid"][0], percent=c["fluid"][1], temperature=c.get("fluid_temp", 20.0))
    bore = GHEBorehole(c["H"], c["D"], c["r_b"], x=0.0, y=0.0)
    grout = Grout(c["k_grout"], c["rc_grout"])
    soil = Soil(c["k_soil"], c["rc_soil"], 18.0)
    pk = c["pipe_kind"]
    if pk == "COAXIAL":
        pipe = Pipe((0, 0), list(c["r_in"]), list(c["r_out"]), 0, 1.0e-6, [c["k_pipe"], c["k_pipe"]], c["rc_pipe"])
    else:
        n_u = 1 if pk == "SINGLEUTUBE" else 2
        pipe = Pipe(Pipe.place_pipes(c["s"], c["r_out"], n_u), c["r_in"], c["r_out"], c["s"], 1.0e-6, c["k_pipe"], c["rc_pipe"])
    with ghelib.quiet():
        bhe = get_bhe_object(BHPipeType[pk], c["m_flow"], fluid, bore, pipe, grout, soil)
        eq = bhe.to_single()
    info = {}
    try:
        if pk == "COAXIAL":
            info["Re"] = float(bhe.compute_reynolds_concentric(c["m_flow"], c["r_in"][1], c["r_out"][0], fluid))
        else:
            mp = c["m_flow"] / 2.0 if pk == "DOUBLEUTUBEPARALLEL" else c["m_flow"]
            info["Re"] = float(bhe.compute_reynolds(mp, c["r_in"], fluid))
    except Exception:  # noqa: BLE001
        info["Re"] = None
    return eq, info


def independent_inputs(c):
    """What the USER asked for, without the package's media / exchanger classes: the volumetric heat capacity of the
    requested fluid from pygfunction's own Fluid (documented mixture codes, ghelib.independent_fluid) and, for a single
    U-tube, R_f and the effective borehole resistance R_b* from pygfunction's own pipe classes."""
    import pygfunction as gt

    f = ghelib.independent_fluid({"fluid": (c["fluid"][0], c["fluid"][1]), "fluid_temp": c.get("fluid_temp", 20.0)})
    ind = {"rc_fluid": float(f.rho * f.cp), "fluid": f"{c['fluid'][0]} {c['fluid'][1]} % at {c.get('fluid_temp', 20.0)} C"}
    if c.get("pipe_kind") == "SINGLEUTUBE":
        h = gt.pipes.convective_heat_transfer_coefficient_circular_pipe(c["m_flow"], c["r_in"], f.mu, f.rho, f.k, f.cp, 1.0e-6)
        r_f = 1.0 / (h * 2.0 * math.pi * c["r_in"])
        r_p = math.log(c["r_out"] / c["r_in"]) / (2.0 * math.pi * c["k_pipe"])
        d = c["s"] / 2.0 + c["r_out"]
        bore = gt.boreholes.Borehole(c["H"], c["D"], c["r_b"], 0.0, 0.0)
        tube = gt.pipes.SingleUTube([(-d, 0.0), (d, 0.0)], c["r_in"], c["r_out"], bore, c["k_soil"], c["k_grout"], r_f + r_p)
        ind["R_f"] = float(r_f)
        ind["R_b"] = float(tube.effective_borehole_thermal_resistance(c["m_flow"], f.cp))
    return ind


def run_impl(c, shared=None):
    """Run the real calc_sts_g_functions; capture the cell table, the diagonals handed to LAPACK and the
    temperatures after every solve by wrapping `fill_radial_cells` / `dgtsv` in-process (no source hook).
    `shared`: a one-element list holding a RadialNumericalBH to be re-used across calls (call-history stream,
    the way GHE re-uses `self.radial_numerical`); it is created from the first borehole when empty."""
    import numpy as np
    import ghedesigner.radial_numerical_borehole as rnb

    bhe, info = build_bhe(c)
    cap = {"T0": [], "Tb": [], "Tn2": [], "Tn1": []}
    try:
        if shared is not None and shared:
            rn = shared[0]
        else:
            rn = rnb.RadialNumericalBH(bhe)
            if shared is not None:
                shared.append(rn)
    except ArithmeticError as e:   # t_s is computed in the constructor as well (same expression as partial_init)
        R_b = float(bhe.calc_effective_borehole_resistance())
        return {"info": info, "raised": type(e).__name__, "stage": "init", "cap": cap,
                "inputs": [float(v) for v in (bhe.b.r_b, bhe.pipe.r_out, bhe.pipe.r_in, bhe.soil.k, bhe.soil.rhoCp, bhe.grout.rhoCp,
                                              bhe.pipe.rhoCp, bhe.fluid.rhoCp, bhe.R_f, R_b, bhe.b.H, bhe.k_s)]}
    orig_fill = rn.fill_radial_cells

    def fill(a, b):
        cells = orig_fill(a, b)
        cap["cells0"] = cells.copy()
        cap["cells"] = cells
        return cells

    rn.fill_radial_cells = fill
    real_dgtsv = rnb.dgtsv
    cap["Tw"] = []

    def dgtsv(dl, d, du, b, **kw):
        if "dl" not in cap:
            cap["dl"], cap["d"], cap["du"] = dl.copy(), d.copy(), du.copy()
            # the cell the ORACLE takes for the borehole wall: the one that starts at r_b in the table just built
            try:
                rin = cap["cells0"][0]
                cap["wall_idx_oracle"] = int(np.argmax(rin >= float(bhe.b.r_b) * (1.0 - 1e-12)))
            except Exception:  # noqa: BLE001
                cap["wall_idx_oracle"] = None
        r = real_dgtsv(dl, d, du, b, **kw)
        cap["T0"].append(float(b[0]))
        bi = int(rn.bh_wall_idx)
        cap["Tb"].append(float(b[bi]) if 0 <= bi < len(b) else float("nan"))
        wi = cap.get("wall_idx_oracle")
        cap["Tw"].append(float(b[wi]) if wi is not None and 0 <= wi < len(b) else float("nan"))
        cap["Tn2"].append(float(b[-2]))
        cap["Tn1"].append(float(b[-1]))
        return r

    rnb.dgtsv = dgtsv
    res = {"info": info}
    try:
        R_b = float(bhe.calc_effective_borehole_resistance())
        res["inputs"] = [float(v) for v in (bhe.b.r_b, bhe.pipe.r_out, bhe.pipe.r_in, bhe.soil.k, bhe.soil.rhoCp, bhe.grout.rhoCp,
                                            bhe.pipe.rhoCp, bhe.fluid.rhoCp, bhe.R_f, R_b, bhe.b.H, bhe.k_s)]
        res["r_far"] = float(rn.r_far_field)
        res["init_temp"] = float(rn.init_temp)
        ret = None
        try:
            with np.errstate(all="ignore"):
                ret = rn.calc_sts_g_functions(bhe, final_time=c.get("final_time"))
            res["raised"] = None
        except Exception as e:  # noqa: BLE001
            res["raised"] = type(e).__name__
        # the object's own idea of the grid AFTER the call (partial_init may adapt it to the exchanger)
        res["counts"] = [int(rn.num_fluid_cells), int(rn.num_conv_cells), int(rn.num_pipe_cells), int(rn.num_grout_cells), int(rn.num_soil_cells)]
        res["num_cells"] = int(rn.num_cells)
        res["bh_idx"] = int(rn.bh_wall_idx)
    finally:
        rnb.dgtsv = real_dgtsv
        del rn.fill_radial_cells      # drop the instance-level wrapper: the object may be used again
    res["t_s"] = float(rn.t_s)
    res["calc_time"] = float(rn.calc_time_in_sec)
    res["cap"] = cap
    if c.get("kind") == "real":
        try:
            res["independent"] = independent_inputs(c)
        except Exception as e:  # noqa: BLE001
            res["independent_error"] = f"{type(e).__name__}: {e}"[:200]
    if res["raised"] is None:
        res["lntts"], res["g"], res["g_bhw"] = (np.array(v, dtype=float) for v in (rn.lntts, rn.g, rn.g_bhw))
        # the very objects a caller is left with (not copies): what is returned and what hangs on the object
        res["refs"] = {"returned": ret, "lntts": rn.lntts, "g": rn.g, "g_bhw": rn.g_bhw, "g_sts": rn.g_sts}
    return res


# ----------------------------------------------------------------------------- oracle (Fractions + math; no implementation code)
def oracle_geometry(inp, counts, r_far):
    F = Fraction
    r_b, r_po, r_pi = F(inp[0]), F(inp[1]), F(inp[2])
    s2 = F(SQRT2)
    t = r_po - r_pi
    r_out_tube = s2 * r_po
    r_in_tube = r_out_tube - t
    r_conv = r_in_tube - t / 4
    r_fluid = r_conv - F(3, 4) * t
    bounds = [r_fluid, r_conv, r_in_tube, r_out_tube, r_b, F(r_far)]
    edges = []
    for reg, n in enumerate(counts):
        lo, hi = bounds[reg], bounds[reg + 1]
        for j in range(n):
            edges.append(lo + (hi - lo) * j / n)
    edges.append(bounds[-1])
    return bounds, edges


def rel(a, b, floor=0.0):
    return abs(a - b) / max(abs(b), floor, 1e-300)


def predicate(c, res):
    """Property predicate on the implementation's own outputs.  Returns (failures, metrics)."""
    import numpy as np

    fails, m = [], {}
    inp, counts = res["inputs"], res["counts"]
    cap = res["cap"]
    tab = cap["cells0"]
    n = tab.shape[1]
    r_in, r_c, r_out, kk, rc, temp, vol = (tab[i] for i in range(7))
    nf, nc, npi, ng, nsoil = counts
    # -- tiling
    bounds, edges = oracle_geometry(inp, counts, 10.0)   # the property names the 10 m far field
    if n != sum(counts) or n != len(edges) - 1:
        fails.append(("cell-count", f"table has {n} cells, the object's counts sum to {sum(counts)}"))
        return fails, m
    gap = max(rel(float(r_out[i]), float(r_in[i + 1])) for i in range(n - 1))
    e_in = max(rel(float(r_in[i]), float(edges[i]), 1e-3) for i in range(n))
    e_out = max(rel(float(r_out[i]), float(edges[i + 1]), 1e-3) for i in range(n))
    e_c = max(rel(float(r_c[i]), float((edges[i] + edges[i + 1]) / 2), 1e-3) for i in range(n))
    m["tile_gap"], m["tile_edges"] = gap, max(e_in, e_out, e_c)
    if gap > 1e-12:
        i = max(range(n - 1), key=lambda i: rel(float(r_out[i]), float(r_in[i + 1])))
        fails.append(("tiling-gap", f"r_out[{i}]={r_out[i]!r} != r_in[{i+1}]={r_in[i+1]!r}"))
    if max(e_in, e_out, e_c) > 1e-12:
        fails.append(("tiling-edges", f"cell edges/centres differ from the uniform subdivision of [r_fluid,r_conv,r_in_tube,sqrt2 r_po,r_b,r_far] by {max(e_in, e_out, e_c):.2e}"))
    if not all(float(b0) < float(b1) for b0, b1 in zip(bounds, bounds[1:])) or float(bounds[0]) <= 0:
        m["invalid_geometry"] = True
        return fails, m   # not a valid borehole: the remaining claims are not made
    if not np.all(temp == res["init_temp"]):
        fails.append(("init-temp", "initial temperatures are not the uniform init_temp"))
    # -- where the borehole wall is read: the cell at bh_wall_idx must be the first soil cell, starting at r_b
    bh = res.get("bh_idx")
    wall = nf + nc + npi + ng
    m["annulus_mm"] = float(bounds[4] - bounds[3]) * 1000.0
    if bh is None or not (0 <= bh < n) or bh != wall or rel(float(r_in[bh]), inp[0]) > 1e-12:
        where = f"r = {float(r_in[bh])!r}" if bh is not None and 0 <= bh < n else "outside the table"
        fails.append(("wall-index", f"bh_wall_idx = {bh} ({where}) but the cell that starts at the borehole wall r_b = {inp[0]!r} is cell {wall} "
                                    f"(counts {counts})"))
    # -- fluid thermal mass
    ind = res.get("independent") or {}
    rc_fluid = ind.get("rc_fluid", inp[7])      # real exchangers: the requested fluid from pygfunction's own Fluid, not from the object
    rb_star = ind.get("R_b", inp[9])            # single U-tubes: R_b* from pygfunction's own pipe class on the user-level inputs
    src = f" (rho*cp of {ind['fluid']} = {rc_fluid!r} from pygfunction's own Fluid; the exchanger's fluid object says {inp[7]!r})" if ind else ""
    mass = math.fsum(float(rc[i]) * float(vol[i]) for i in range(nf))
    want = 2.0 * math.pi * inp[2] ** 2 * rc_fluid
    m["fluid_mass_rel"] = rel(mass, want)
    if m["fluid_mass_rel"] > 1e-12:
        fails.append(("fluid-thermal-mass", f"fluid cells hold {mass!r} J/K/m, the fluid in both legs holds {want!r}" + src))
    if "R_f" in ind and rel(inp[8], ind["R_f"]) > 1e-9:
        fails.append(("fluid-resistance", f"the exchanger's R_f = {inp[8]!r}, for the requested fluid and flow it is {ind['R_f']!r}"))
    v_or = [math.pi * float(edges[i + 1] ** 2 - edges[i] ** 2) for i in range(n)]
    m["vol_rel"] = max(rel(float(vol[i]), v_or[i]) for i in range(n))
    if m["vol_rel"] > 1e-9:
        fails.append(("cell-volume", f"a cell volume differs from pi (r_out^2 - r_in^2) by {m['vol_rel']:.2e}"))
    # -- layer resistances
    lo, hi = nf, nf + nc + npi + ng
    rsum = math.fsum(math.log(float(r_out[i]) / float(r_in[i])) / (2.0 * math.pi * float(kk[i])) for i in range(lo, hi))
    m["layers_rel"] = rel(rsum, rb_star)
    if m["layers_rel"] > 1e-10:
        fails.append(("layers-sum-Rb", f"layers between fluid and wall sum to {rsum!r}, R_b* = {rb_star!r}"
                                       + (" (from pygfunction's own SingleUTube on the user-level inputs)" if "R_b" in ind else "")))
    if not all(float(kk[i]) == inp[3] and float(rc[i]) == inp[4] for i in range(hi, n)):
        fails.append(("soil-properties", "soil cells do not carry the soil conductivity / heat capacity"))
    # -- response
    if res["raised"] is not None:
        fails.append(("raised", f"valid borehole but calc_sts_g_functions raised {res['raised']}"))
        return fails, m
    T0, Tb, Tn2, Tn1 = (np.array(cap[k]) for k in ("T0", "Tb", "Tn2", "Tn1"))
    Tw = np.array(cap.get("Tw") or cap["Tb"])     # temperature of the cell that starts at r_b (oracle's choice of cell)
    steps = len(T0)
    dt, q, Ti = 120.0, 1.0, res["init_temp"]
    if steps == 0:
        # a response came back although no tridiagonal solve was observed (e.g. served from a cache): only the
        # checks on the 30 resampled points can be made here; the comparison with the model / a fresh object decides the rest
        m["no_time_march_observed"] = True
        lnt, g, gb = res["lntts"], res["g"], res["g_bhw"]
        c0 = 2.0 * math.pi * inp[3]
        if not (np.all(np.isfinite(g)) and np.all(np.isfinite(gb)) and np.all(np.isfinite(lnt))):
            fails.append(("not-finite", "non-finite g value"))
            return fails, m
        if len(g) != 30 or len(gb) != 30 or len(lnt) != 30:
            fails.append(("resample-length", f"{len(g)} resampled points, expected 30"))
        if np.any(np.diff(lnt) <= 0):
            fails.append(("lntts-not-increasing", "resampled ln(t/ts) not strictly increasing"))
        if np.any(np.diff(g) < -1e-9 * np.maximum(1.0, np.abs(g[1:]))):
            fails.append(("g-not-monotone", f"g decreases: min step {float(np.min(np.diff(g))):.3e}"))
        if np.any(np.diff(gb) < -1e-9) or float(np.min(gb)) < -1e-9:
            fails.append(("gbhw-negative" if float(np.min(gb)) < -1e-9 else "gbhw-not-monotone", "g_bhw negative or decreasing"))
        if float(np.min(g)) < -c0 * inp[9] - 1e-9 * max(1.0, abs(c0 * inp[9])):
            fails.append(("g-below-floor", f"g = {float(np.min(g))!r} < -2 pi k R_b*"))
        m["g_last"], m["gb_last"] = float(g[-1]), float(gb[-1])
        return fails, m
    m["steps"], m["period_h"] = steps, steps * dt / 3600.0
    Tfin = np.array(cap["cells"][5], dtype=float)
    lnt, g, gb = res["lntts"], res["g"], res["g_bhw"]
    if not (np.all(np.isfinite(Tfin)) and np.all(np.isfinite(g)) and np.all(np.isfinite(gb)) and np.all(np.isfinite(lnt))
            and np.all(np.isfinite(T0))):
        fails.append(("not-finite", "non-finite temperature or g value"))
        return fails, m
    C = [float(rc[i]) * v_or[i] for i in range(n)]
    stored = math.fsum(C[i] * (float(Tfin[i]) - Ti) for i in range(n - 1))
    a_e = 1.0 / (math.log(float(r_out[n - 2]) / float(r_c[n - 2])) / (2 * math.pi * float(kk[n - 2]))
                 + math.log(float(r_c[n - 1]) / float(r_in[n - 1])) / (2 * math.pi * float(kk[n - 1])))
    leak = a_e * dt * math.fsum((Tn2 - Tn1).tolist())
    injected = q * dt * steps
    m["balance"] = (stored + leak - injected) / injected
    m["leak"] = leak / injected
    m["stored_over_injected"] = stored / injected
    if abs(m["balance"]) > BAL_TOL:
        fails.append(("energy-balance", f"stored {stored!r} + leak {leak!r} != injected {injected!r} (residual {m['balance']:.3e} of injected)"))
    elif m["leak"] > LEAK_TOL:
        key = "far-field-leak-period-gt-150h" if m["period_h"] > 150.0 else "far-field-leak-short-period"
        fails.append((key, f"heat stored is {stored/injected - 1:.3e} short of the heat injected: it left through the fixed 10 m boundary "
                           f"(period {m['period_h']:.0f} h, H={inp[10]})"))
    if Tn1[-1] != Ti or not np.all(Tn1 == Ti):
        fails.append(("far-field-fixed", "the last cell does not stay at the initial temperature"))
    # monotone, signs (tolerance: rounding of a solve whose entries are ~20 K)
    c0 = 2.0 * math.pi * inp[3]
    tolT = 1e-10
    dmin0 = float(np.min(np.diff(T0))) if steps > 1 else 0.0
    dminb = float(np.min(np.diff(Tb))) if steps > 1 else 0.0
    m["min_dT0"], m["min_dTb"] = dmin0, dminb
    if dmin0 < -tolT or T0[0] < Ti - tolT:
        fails.append(("fluid-not-monotone", f"fluid temperature decreases by {-dmin0:.3e} K in one step under constant injection"))
    if dminb < -tolT:
        fails.append(("wall-not-monotone", f"borehole-wall temperature decreases by {-dminb:.3e} K in one step"))
    if float(np.min(Tb)) < Ti - tolT:
        fails.append(("wall-below-initial", f"borehole-wall temperature {float(np.min(Tb))!r} below the initial {Ti}"))
    tolg = 1e-9
    if len(g) != 30 or len(gb) != 30 or len(lnt) != 30:
        fails.append(("resample-length", f"{len(g)} resampled points, expected 30"))
    if np.any(np.diff(lnt) <= 0):
        fails.append(("lntts-not-increasing", "resampled ln(t/ts) not strictly increasing"))
    if np.any(np.diff(g) < -tolg * np.maximum(1.0, np.abs(g[1:]))):
        fails.append(("g-not-monotone", f"g decreases: min step {float(np.min(np.diff(g))):.3e}"))
    if np.any(np.diff(gb) < -tolg):
        fails.append(("gbhw-not-monotone", f"g_bhw decreases: min step {float(np.min(np.diff(gb))):.3e}"))
    if float(np.min(gb)) < -tolg:
        fails.append(("gbhw-negative", f"g_bhw = {float(np.min(gb))!r} < 0"))
    floor = -c0 * inp[9]
    m["g0_minus_floor"] = float(g[0]) - floor
    if float(np.min(g)) < floor - tolg * max(1.0, abs(floor)):
        fails.append(("g-below-floor", f"g = {float(np.min(g))!r} < -2 pi k R_b* = {floor!r}"))
    # the 30 points are the raw response at both ends, and inside the raw range
    g_first, g_last = c0 * ((float(T0[0]) - Ti) / q - inp[9]), c0 * ((float(T0[-1]) - Ti) / q - inp[9])
    gb_last = c0 * ((float(Tw[-1]) - Ti) / q)
    gb_first = c0 * ((float(Tw[0]) - Ti) / q)
    if rel(float(g[0]), g_first, 1.0) > 1e-9 or rel(float(g[-1]), g_last, 1.0) > 1e-9:
        fails.append(("g-scaling", f"g ends {float(g[0])!r},{float(g[-1])!r} are not 2 pi k ((T_f - T_0)/q - R_b*) = {g_first!r},{g_last!r}"))
    if not (rel(float(gb[-1]), gb_last, 1.0) <= 1e-9 and rel(float(gb[0]), gb_first, 1.0) <= 1e-9):
        fails.append(("gbhw-scaling", f"g_bhw ends {float(gb[0])!r},{float(gb[-1])!r} are not 2 pi k (T_wall - T_0)/q = {gb_first!r},{gb_last!r} with T_wall the "
                                      f"temperature of the cell that starts at r_b (cell {cap.get('wall_idx_oracle')}; the object reads cell {bh})"))
    t_first = t_last = (1e-12 - dt) + dt      # the clock starts at 1e-12 - 120 and is advanced before the first solve
    for _ in range(steps - 1):
        t_last += dt
    m["t_first"] = t_first
    if abs(float(lnt[-1]) - math.log(t_last / res["t_s"])) > 1e-9 or abs(float(lnt[0]) - math.log(t_first / res["t_s"])) > 1e-9:
        fails.append(("lntts-ends", "resampled ln(t/ts) ends are not the first/last computed times"))
    final = c.get("final_time") or res["calc_time"]
    if not (final - 2 * dt <= t_last <= final + dt):
        fails.append(("period", f"last computed time {t_last} vs requested {final}"))
    m["g_last"], m["gb_last"] = float(g[-1]), float(gb[-1])
    return fails, m


# ----------------------------------------------------------------------------- one case: implementation + model + predicate
def close(a, b, tol):
    return abs(a - b) <= tol * max(1.0, abs(b)) or (a != a and b != b)


def worker(c):
    """Never lets an exception escape: whatever goes wrong while comparing (the implementation changed shape, raised
    somewhere new, returned something unexpected) is reported as a broken correspondence for this case."""
    import traceback

    try:
        kind = c.get("kind")
        r = (history_worker(c) if kind == "history" else one_at_a_time_worker(c) if kind == "one-at-a-time"
             else ghe_history_worker(c) if kind == "ghe-history" else case_worker(c))
        r.pop("refs", None)
        return r
    except Exception as e:  # noqa: BLE001
        tb = traceback.format_exc(limit=4).strip().splitlines()
        return {"case": c, "history": c.get("kind") in ("history", "one-at-a-time", "ghe-history"), "corr": [("worker-exception", f"{type(e).__name__}: {e} @ {tb[-3:] }"[:400])],
                "fails": [], "metrics": {}, "info": {}, "elements": 0, "worker_exception": True}


def case_worker(c):
    import numpy as np

    out = {"case": c, "corr": [], "fails": [], "metrics": {}, "info": {}}
    try:
        res = run_impl(c)
    except Exception as e:  # noqa: BLE001  (object construction failed: outside C10)
        out["build_failed"] = f"{type(e).__name__}: {e}"[:200]
        return out
    out["info"] = res["info"]
    inp = res["inputs"]
    out["inputs"] = inp
    out["raised"] = res["raised"]
    args = " ".join(core.rs(v) for v in [SQRT2, PI] + inp)
    ft = "none" if c.get("final_time") is None else core.rs(float(c["final_time"]))
    lines = ["radial-cells " + args, "radial-tri " + args, f"radial-sts {args} {ft} 1 1 none"]
    # Rat instantiation of the cell table: the two logarithms as a lookup
    F = Fraction
    t = F(inp[1]) - F(inp[2])
    r_out_tube = F(SQRT2) * F(inp[1])
    r_in_tube = r_out_tube - t
    r_conv = r_in_tube - t / 4
    rat_ok = r_conv != 0 and r_in_tube != 0 and r_in_tube / r_conv > 0 and F(inp[0]) / r_in_tube > 0
    if rat_ok:
        ratio1 = r_in_tube / r_conv
        l1, l2 = math.log(float(ratio1)), math.log(float(F(inp[0]) / r_in_tube))
        lines.append("radial-cells-rat " + " ".join(core.rs(v) for v in [SQRT2, PI, ratio1, l1, l2] + inp))
    mo = drive_cached(lines)
    cap = res["cap"]

    def bad(stream, detail):
        out["corr"].append((stream, detail))

    # ---- cells
    if res.get("stage") == "init":
        pass   # the constructor raised: only the exception of the whole call is compared below
    elif mo[0].startswith("raise"):
        exc = mo[0].split()[1]
        if res["raised"] != exc or "cells0" in cap:
            bad("cells-exception", f"model raises {exc} in fill_radial_cells, implementation: raised={res['raised']} table={'cells0' in cap}")
    elif "cells0" not in cap:
        bad("cells-exception", f"implementation raised {res['raised']} before the table, model built one")
    else:
        mc = np.array(floats(mo[0][3:])).reshape(-1, 7).T
        ic = cap["cells0"]
        if mc.shape != ic.shape:
            bad("cells-shape", f"{mc.shape} vs {ic.shape}")
        else:
            with np.errstate(all="ignore"):
                err = np.abs(mc - ic) / np.maximum(np.abs(ic), 1e-300)
            err = np.where(mc == ic, 0.0, err)
            out["metrics"]["corr_cells"] = float(np.nanmax(err))
            if not np.all(err <= 1e-12):
                j = int(np.nanargmax(err))
                bad("cells", f"prop {j // ic.shape[1]} cell {j % ic.shape[1]}: impl {ic.flat[j]!r} model {mc.flat[j]!r}")
            if rat_ok and mo[3].startswith("ok"):
                rcells = np.array([float(core.pr(x)) for x in mo[3].split()[1:]]).reshape(-1, 7).T
                with np.errstate(all="ignore"):
                    e2 = np.abs(rcells - ic) / np.maximum(np.abs(ic), 1e-300)
                e2 = np.where(rcells == ic, 0.0, e2)
                out["metrics"]["corr_cells_rat"] = float(np.nanmax(e2))
                if not np.all(e2 <= 1e-13 * 50):   # vol = pi (r_o^2 - r_i^2) cancels ~ r/thickness digits
                    j = int(np.nanargmax(e2))
                    bad("cells-rat", f"prop {j // ic.shape[1]} cell {j % ic.shape[1]}: impl {ic.flat[j]!r} rat model {rcells.flat[j]!r}")
    # ---- diagonals
    if mo[1].startswith("ok") and "dl" in cap:
        parts = mo[1][3:].split("|")
        worst = 0.0
        for name, part in zip(("dl", "d", "du"), parts):
            mv, iv = np.array(floats(part)), cap[name]
            if mv.shape != iv.shape:
                bad("tri-shape", f"{name}: {mv.shape} vs {iv.shape}")
                continue
            with np.errstate(all="ignore"):
                err = np.where(mv == iv, 0.0, np.abs(mv - iv) / np.maximum(np.abs(iv), 1e-300))
            worst = max(worst, float(np.nanmax(err)))
            if not np.all(err <= 1e-12):
                j = int(np.nanargmax(err))
                bad("tri-" + name, f"{name}[{j}]: impl {iv[j]!r} model {mv[j]!r}")
        out["metrics"]["corr_tri"] = worst
    # ---- response
    if mo[2].startswith("raise"):
        exc = mo[2].split()[1]
        if res["raised"] != exc:
            bad("sts-exception", f"model raises {exc}, implementation raised {res['raised']}")
        out["model_raised"] = exc
    elif res["raised"] is not None:
        bad("sts-exception", f"implementation raised {res['raised']}, model returned a response")
    else:
        parts = mo[2].split("|")
        head = parts[0].split()
        n_model = int(head[1])
        marched = bool(cap["T0"])    # no solve observed: the response was produced without a time march (a cache); only outputs are compared
        if marched and n_model != len(cap["T0"]):
            bad("steps", f"implementation solved {len(cap['T0'])} steps, model {n_model}")
        out["metrics"]["marched"] = marched
        worst = 0.0
        streams = [("lntts", parts[1], res["lntts"]), ("g", parts[2], res["g"]), ("g_bhw", parts[3], res["g_bhw"])]
        if marched and "cells" in cap:
            streams.append(("finalT", parts[5], np.array(cap["cells"][5], dtype=float)))
        for name, part, iv in streams:
            mv = np.array(floats(part))
            if mv.shape != iv.shape:
                bad("sts-shape", f"{name}: {mv.shape} vs {iv.shape}")
                continue
            err = np.abs(mv - iv) / np.maximum(1.0, np.abs(mv))
            worst = max(worst, float(np.max(err)))
            if not np.all(err <= 1e-7):
                j = int(np.argmax(err))
                bad("sts-" + name, f"{name}[{j}]: impl {iv[j]!r} model {mv[j]!r}")
        out["metrics"]["corr_sts"] = worst
        out["model30"] = [floats(parts[1]), floats(parts[2]), floats(parts[3])]
        raw = floats(parts[4])
        c0 = 2 * math.pi * inp[3]
        g_first = c0 * ((cap["T0"][0] - 20.0) - inp[9]) if cap["T0"] else float("nan")
        if cap["T0"] and not close(raw[2], g_first, 1e-7):
            bad("sts-raw-first", f"first raw g: impl {g_first!r} model {raw[2]!r}")
        # model's own bookkeeping of the far-field flux against the implementation's temperatures
        leak_impl = math.fsum((np.array(cap["Tn2"]) - np.array(cap["Tn1"])).tolist())
        leak_model = bits2f(head[3])
        out["metrics"]["leak_model_vs_impl"] = abs(leak_model - leak_impl) / max(abs(leak_impl), 1e-30) if leak_impl else abs(leak_model)
    if res["raised"] is None:
        out["impl30"] = [[float(v) for v in res[k]] for k in ("lntts", "g", "g_bhw")]
    # ---- predicate on the implementation
    valid = not c.get("degenerate")
    if valid and "cells0" in cap:
        fails, metrics = predicate(c, res)
        out["fails"] = fails
        out["metrics"].update(metrics)
    # ---- 0.5 % finer-mesh differential (translation validation): 2x cells, dt/4, same physical duration
    if c.get("fine") and res["raised"] is None and valid:
        steps = len(cap["T0"]) or int(mo[2].split("|")[0].split()[1])
        fo = drive([f"radial-sts {args} {ft} 2 4 {4 * steps}"])[0]
        if fo.startswith("ok"):
            parts = fo.split("|")
            raw = floats(parts[4])
            g_fine = raw[3]
            g_impl, gb_impl = float(res["g"][-1]), float(res["g_bhw"][-1])
            # the code's "borehole wall" temperature is the centre of the first soil cell; on the 2x mesh that radius is
            # the face between the first two soil cells: compare at the same radius (mean of the two neighbours)
            tf = floats(parts[5])
            bw = 2 * sum(res["counts"][:4])
            gb_fine = 2 * math.pi * inp[3] * (0.5 * (tf[bw] + tf[bw + 1]) - 20.0)
            out["fine"] = {"g_impl": g_impl, "g_fine": g_fine, "rel": abs(g_impl - g_fine) / abs(g_fine),
                           "gb_impl": gb_impl, "gb_fine_same_radius": gb_fine, "rel_bhw": abs(gb_impl - gb_fine) / abs(gb_fine),
                           "steps": steps, "H": inp[10]}
        else:
            out["fine"] = {"error": fo[:80]}
    # keep the pickled result small
    return out



# ----------------------------------------------------------------------------- call-history stream
# GHE keeps ONE RadialNumericalBH (`self.radial_numerical`) and calls calc_sts_g_functions(self.bhe_eq) on it again and
# again with changing exchangers.  A history is a sequence of 2-4 boreholes solved on one object; every element must be
# bit-identical to the same borehole solved on a fresh object (and satisfy the usual predicate).
HIST_VARS = ["capacities", "capacities", "height", "grout_pipe_k", "flow_fluid", "same", "back", "everything_but_soil_k_and_radii", "soil_k", "radii"]


def other_in(rng, v, lo, hi):
    """A value of the generator's range [lo, hi] at least 10 % of the range away from v."""
    while True:
        w = _round(rng.uniform(lo, hi), 5)
        if abs(w - v) > 0.1 * (hi - lo):
            return w


def vary_real(rng, base, first, var):
    c = dict(base)
    if var == "capacities":       # R_f and R_b* bit-identical (they do not depend on rho*cp), the grid and t_s do
        c["rc_soil"] = other_in(rng, base["rc_soil"], 1.3e6, 3.9e6)
        c["rc_grout"] = other_in(rng, base["rc_grout"], 1.5e6, 4.2e6)
        c["rc_pipe"] = rng.choice([base["rc_pipe"], other_in(rng, base["rc_pipe"], 1.2e6, 2.2e6)])
    elif var == "height":
        c["H"] = _round(rng.uniform(20, 200), 4)
    elif var == "grout_pipe_k":
        c["k_grout"] = _round(rng.uniform(0.6, 2.5), 3)
        c["k_pipe"] = _round(rng.uniform(0.3, 0.6), 3)
    elif var == "flow_fluid":
        c["m_flow"] = _round(math.exp(rng.uniform(math.log(0.02), math.log(1.5))), 4)
        c["fluid"] = list(rng.choice(FLUIDS))
    elif var == "back":
        c = dict(first)
    elif var == "everything_but_soil_k_and_radii":
        for k, v in vary_real(rng, vary_real(rng, vary_real(rng, vary_real(rng, base, first, "capacities"), first, "height"),
                                            first, "grout_pipe_k"), first, "flow_fluid").items():
            c[k] = v
    elif var == "soil_k":         # regression (fix 6f0d501): c_0 = 2 pi k_soil used to be computed in __init__ only
        c["k_soil"] = _round(base["k_soil"] * rng.choice([0.5, 1.5]), 4)
    elif var == "radii":          # regression (fix 6f0d501): radii / thicknesses used to be computed in __init__ only
        c["r_b"] = _round(min(0.12, base["r_b"] * 1.15), 4)
    return c


def vary_stub(rng, base, first, var):
    c = dict(base)
    if var == "capacities":       # identical R_f, R_b*, different capacities (incl. the fluid's)
        for k, lo, hi in (("rc_soil", 1.3e6, 3.9e6), ("rc_grout", 1.5e6, 4.2e6), ("rc_pipe", 1.2e6, 2.2e6), ("rc_fluid", 3.4e6, 4.25e6)):
            c[k] = other_in(rng, base[k], lo, hi)
    elif var == "height":
        c["H"] = _round(rng.uniform(20, 200), 4)
    elif var in ("grout_pipe_k", "flow_fluid"):   # for a stub these only move the resistances
        c["R_f"] = _round(math.exp(rng.uniform(math.log(0.002), math.log(0.6))), 5)
        c["R_b"] = _round(c["R_f"] / 2 + rng.uniform(0.03, 0.35), 5)
    elif var == "back":
        c = dict(first)
    elif var == "everything_but_soil_k_and_radii":
        c = vary_stub(rng, vary_stub(rng, vary_stub(rng, base, first, "capacities"), first, "height"), first, "flow_fluid")
        c["final_time"] = rng.choice([None, _round(rng.uniform(3 * 3600, 60 * 3600), 5)])
    elif var == "soil_k":         # identical resistances, different soil conductivity
        c["k_soil"] = c["k_s"] = _round(base["k_soil"] * rng.choice([0.5, 1.5]), 4)
    elif var == "radii":          # identical resistances, different pipe
        c["r_out"] = _round(base["r_out"] * 0.9, 5)
        c["r_in"] = _round(base["r_in"] * 0.9, 5)
    return c


def gen_history(rng, stub=False, probe=None, h_max=200.0):
    if stub:
        first = gen_stub(rng)
        first["H"] = _round(rng.uniform(20, h_max), 4)
    else:
        first = gen_real(rng, rng.choices(["SINGLEUTUBE", "DOUBLEUTUBEPARALLEL", "COAXIAL"], [80, 10, 10])[0], H=_round(rng.uniform(20, h_max), 4))
    vary = vary_stub if stub else vary_real
    if probe:
        vs = [probe]
    else:
        vs = [rng.choice(HIST_VARS) for _ in range(rng.randint(1, 3))]
        if "capacities" not in vs:
            vs[rng.randrange(len(vs))] = "capacities"
    seq = [first]
    for v in vs:
        seq.append(vary(rng, seq[-1], first, v))
    return {"kind": "history", "seq": seq, "vars": ["first"] + vs, "probe": probe, "H": max(x["H"] for x in seq) * len(seq)}


HIST_FIELDS = ("lntts", "g", "g_bhw")


def history_worker(c):
    """One RadialNumericalBH for the whole sequence vs a fresh object per borehole: bit-identical, and the usual
    predicate on what the re-used object produced."""
    import numpy as np

    out = {"case": c, "history": True, "fails": [], "corr": [], "metrics": {}, "elements": 0}
    shared = []
    kept = None      # what a caller holds after call #0: the returned arrays and obj.lntts / obj.g / obj.g_bhw / obj.g_sts
    for i, (sub, var) in enumerate(zip(c["seq"], c["vars"])):
        try:
            fresh = run_impl(sub)
            got = run_impl(sub, shared=shared)
        except Exception as e:  # noqa: BLE001  (object construction failed: outside C10)
            out["build_failed"] = f"{type(e).__name__}: {e}"[:200]
            return out
        if i == 0 and got.get("refs"):
            kept = snapshot_refs(sub, got)
        out["elements"] += 1
        diffs = []
        if fresh["raised"] != got["raised"]:
            diffs.append(f"raised {got['raised']} vs fresh {fresh['raised']}")
        for k in ("t_s", "calc_time"):
            if fresh[k] != got[k]:
                diffs.append(f"{k} {got[k]!r} vs fresh {fresh[k]!r}")
        fc, gc = fresh["cap"], got["cap"]
        # what the instrumentation saw on the way (grid, matrix, number of solves) is compared only where both runs showed it:
        # an implementation may legitimately skip work it has done before, the OUTPUTS below must be identical regardless
        for k in ("cells0", "dl", "d", "du"):
            if k in fc and k in gc and not np.array_equal(fc[k], gc[k]):
                diffs.append(f"{k} differs")
        if fc["T0"] and gc["T0"] and len(fc["T0"]) != len(gc["T0"]):
            diffs.append(f"steps {len(gc['T0'])} vs fresh {len(fc['T0'])}")
        if fresh["raised"] is None and got["raised"] is None:
            for k in HIST_FIELDS:
                if not np.array_equal(fresh[k], got[k]):
                    j = int(np.argmax(np.abs(fresh[k] - got[k]))) if fresh[k].shape == got[k].shape else -1
                    diffs.append(f"{k}[{j}] {float(got[k][j])!r} vs fresh {float(fresh[k][j])!r}")
        if diffs:
            out["fails"].append(("history-differs-from-fresh-object", f"borehole #{i} ({var}) of a sequence solved on ONE RadialNumericalBH differs from the same borehole "
                                      f"on a fresh object: " + "; ".join(diffs[:5])))
        # the usual predicate on what the re-used object produced
        if not sub.get("degenerate") and "cells0" in gc and "inputs" in got and "counts" in got:
            fails, metrics = predicate(sub, got)
            out["fails"] += [(k if k.startswith("far-field-leak") else "history:" + k, f"borehole #{i} ({var}) on a re-used object: {w}") for k, w in fails]
            for k in ("balance", "tile_edges", "fluid_mass_rel", "layers_rel"):
                if metrics.get(k) is not None:
                    out["metrics"][k] = max(out["metrics"].get(k, 0.0), abs(metrics[k]))
    if kept is not None and out["elements"] > 1:
        check_kept(c, kept, out)
    return out


def snapshot_refs(sub, got):
    """The objects a caller is left with after a call, plus a bitwise snapshot of their contents."""
    import numpy as np

    refs = got["refs"]
    live = {}
    ret = refs.get("returned")
    if isinstance(ret, tuple):
        for j, a in enumerate(ret):
            live[f"returned[{j}]"] = a
    for k in ("lntts", "g", "g_bhw"):
        live["obj." + k] = refs.get(k)
    snap = {k: np.array(v, dtype=float, copy=True) for k, v in live.items() if v is not None}
    gs = refs.get("g_sts")
    xs = np.array(got["lntts"], dtype=float, copy=True)
    try:
        gs_vals = np.array(gs(xs), dtype=float, copy=True) if gs is not None else None
    except Exception:  # noqa: BLE001
        gs_vals = None
    return {"live": live, "snap": snap, "g_sts": gs, "g_sts_x": xs, "g_sts_vals": gs_vals, "sub": sub, "res": got}


def check_kept(c, kept, out):
    """After the later calls on the same object: do the arrays handed out by call #0 still hold call #0's response?"""
    import numpy as np

    changed = []
    for k, snap in kept["snap"].items():
        now = np.array(kept["live"][k], dtype=float)
        if now.shape != snap.shape or not np.array_equal(now, snap):
            j = int(np.argmax(np.abs(now - snap))) if now.shape == snap.shape else -1
            changed.append(f"{k}[{j}] was {float(snap[j])!r}, now {float(now[j])!r}" if j >= 0 else f"{k} changed shape {snap.shape}->{now.shape}")
    if kept["g_sts"] is not None and kept["g_sts_vals"] is not None:
        try:
            now = np.array(kept["g_sts"](kept["g_sts_x"]), dtype=float)
            if not np.array_equal(now, kept["g_sts_vals"]):
                changed.append("obj.g_sts (kept interpolator) evaluates differently")
        except Exception as e:  # noqa: BLE001
            changed.append(f"obj.g_sts (kept interpolator) now raises {type(e).__name__}")
    out["metrics"]["kept_arrays_checked"] = len(kept["snap"])
    if not changed:
        return
    # re-run the C10 predicate for borehole #0 on what the caller now holds
    res0 = dict(kept["res"])
    live = kept["live"]
    pick = lambda a, b: np.array(live[a] if live.get(a) is not None else live[b], dtype=float)   # noqa: E731
    try:
        res0["lntts"] = pick("returned[0]", "obj.lntts")
        res0["g"] = pick("returned[1]", "obj.g")
        res0["g_bhw"] = np.array(live["obj.g_bhw"], dtype=float)
        fails, _ = predicate(kept["sub"], res0)
    except Exception as e:  # noqa: BLE001
        fails = [("predicate-not-evaluable", f"{type(e).__name__}: {e}")]
    fails = [(k, w) for k, w in fails if not k.startswith("far-field-leak")]
    what = (f"the arrays handed out by call #0 on a RadialNumericalBH (returned tuple / obj.lntts, obj.g, obj.g_bhw) were overwritten by the "
            f"{len(c['seq']) - 1} later call(s) on the same object ({', '.join(c['vars'][1:])}): " + "; ".join(changed[:4]))
    if fails:
        out["fails"].append(("history-earlier-result-overwritten",
                             what + " -- they no longer describe borehole #0: " + "; ".join(f"{k}: {w}" for k, w in fails[:3])))
    else:
        out["corr"].append(("history", what + " (the C10 predicate still holds on the changed arrays)"))



# ----------------------------------------------------------------------------- 'one input at a time' stream
# In ONE process: base exchanger on a fresh object, then a NEW object whose exchanger differs from the base in a single
# physical input, then the base again (base -> variant -> base), for every input the response depends on.  Each run is
# compared with the Lean model for ITS OWN inputs (and gets the usual predicate); a variant that comes out bit-identical to
# the base although the model says the input matters is `history-input-ignored-<input>`; a base that does not reproduce
# itself after the variant is `history-base-not-reproduced`.
def one_at_a_time_variants(rng, base):
    v = []
    if base["kind"] == "stub":
        rng_in = {"rc_soil": (1.3e6, 3.9e6), "rc_grout": (1.5e6, 4.2e6), "rc_pipe": (1.2e6, 2.2e6), "rc_fluid": (3.4e6, 4.25e6)}
        for k, (lo, hi) in rng_in.items():
            v.append((k, {k: other_in(rng, base[k], lo, hi)}))
        v.append(("k_soil", {"k_soil": _round(base["k_soil"] * 1.3, 4), "k_s": _round(base["k_soil"] * 1.3, 4)}))
        v.append(("R_f", {"R_f": _round(base["R_f"] * 0.7, 5)}))
        v.append(("R_b", {"R_b": _round(base["R_b"] * 1.2, 5)}))
        v.append(("r_b", {"r_b": _round(min(0.12, base["r_b"] * 1.1), 5) if base["r_b"] < 0.119 else 0.11}))
        v.append(("r_out", {"r_out": _round(base["r_out"] * 0.95, 5)}))
        v.append(("r_in", {"r_in": _round(base["r_in"] * 0.97, 5)}))
        v.append(("H", {"H": _round(base["H"] * 1.25 if base["H"] < 300 else base["H"] * 0.8, 4)}))
        v.append(("final_time", {"final_time": 30 * 3600.0 if base.get("final_time") is None else None}))
    else:
        v.append(("rc_grout", {"rc_grout": other_in(rng, base["rc_grout"], 1.5e6, 4.2e6)}))
        v.append(("rc_soil", {"rc_soil": other_in(rng, base["rc_soil"], 1.3e6, 3.9e6)}))
        v.append(("rc_pipe", {"rc_pipe": other_in(rng, base["rc_pipe"], 1.2e6, 2.2e6)}))
        v.append(("k_grout", {"k_grout": _round(base["k_grout"] * (1.3 if base["k_grout"] < 1.8 else 0.7), 3)}))
        v.append(("k_soil", {"k_soil": _round(base["k_soil"] * (1.3 if base["k_soil"] < 3.0 else 0.7), 3)}))
        v.append(("k_pipe", {"k_pipe": _round(base["k_pipe"] * (1.3 if base["k_pipe"] < 0.45 else 0.75), 3)}))
        v.append(("fluid", {"fluid": ["PropyleneGlycol", 35.0] if base["fluid"][0] != "PropyleneGlycol" else ["Water", 0.0]}))
        v.append(("m_flow", {"m_flow": _round(base["m_flow"] * (2.0 if base["m_flow"] < 0.7 else 0.5), 4)}))
        v.append(("H", {"H": _round(base["H"] * 1.25 if base["H"] < 300 else base["H"] * 0.8, 4)}))
        v.append(("final_time", {"final_time": 30 * 3600.0}))
        if base["pipe_kind"] == "SINGLEUTUBE":
            v.append(("r_b", {"r_b": _round(base["r_b"] + 0.004, 4)}))
            v.append(("r_out", {"r_out": _round(base["r_out"] * 1.03, 5)}))      # r_in kept: thicker wall
            v.append(("r_in", {"r_in": _round(base["r_in"] * 0.97, 5)}))
            v.append(("shank_spacing", {"s": _round(base["s"] * 0.8, 5)}))
    return [(name, dict(base, **chg)) for name, chg in v]


def gen_one_at_a_time(rng, stub=False, h_max=150.0):
    if stub:
        base = gen_stub(rng)
        base["H"] = _round(rng.uniform(20, h_max), 4)
        base["final_time"] = None
    else:
        base = gen_real(rng, "SINGLEUTUBE", H=_round(rng.uniform(20, h_max), 4))
        # leave room for the geometric variants (+4 mm radius, +3 % pipe)
        base["r_b"] = _round(min(base["r_b"], 0.114), 4)
        base["s"] = _round(min(base["s"], 2 * (base["r_b"] - 2.1 * base["r_out"]) * 0.9), 5)
    return {"kind": "one-at-a-time", "base": base, "variants": [[n, c_] for n, c_ in one_at_a_time_variants(rng, base)],
            "H": base["H"] * 3 * 14}


def same30(a, b):
    return a is not None and b is not None and a == b


def one_at_a_time_worker(c):
    out = {"case": c, "oat": True, "fails": [], "corr": [], "metrics": {}, "inputs_tried": [], "runs": 0}
    base = c["base"]
    for name, var in c["variants"]:
        seq = []
        for sub in (base, var, base):
            try:
                r = case_worker(sub)
            except Exception as e:  # noqa: BLE001
                r = {"corr": [("oat-run-exception", f"{name}: {type(e).__name__}: {e}"[:300])], "fails": [], "case": sub}
            seq.append(r)
            out["runs"] += 1
        b1, v, b2 = seq
        if "build_failed" in v or "build_failed" in b1:
            out["inputs_tried"].append(name + ":build-failed")
            continue
        out["inputs_tried"].append(name)
        hist = {"kind": "one-at-a-time", "base": base, "variants": [[name, var]]}     # the two-call history, replayable alone
        for tag, r in (("base", b1), (name, v), ("base-again", b2)):
            for stream, detail in r.get("corr", []):
                out["corr"].append((stream, f"[one-at-a-time {name}: {tag}] {detail}"))
            for key, what in r.get("fails", []):
                out["fails"].append((key if key.startswith("far-field-leak") else "history:" + key,
                                     f"[one input at a time, {name}: {tag}] {what}", hist))
        i1, iv, i2 = b1.get("impl30"), v.get("impl30"), b2.get("impl30")
        m1, mv = b1.get("model30"), v.get("model30")
        if same30(i1, iv) and m1 is not None and mv is not None:
            dm = max(abs(x - y) for a, b in zip(m1, mv) for x, y in zip(a, b)) if all(len(a) == len(b) for a, b in zip(m1, mv)) else float("inf")
            if dm > 1e-9:
                j = max(range(len(mv[1])), key=lambda j: abs(mv[1][j] - iv[1][j]))
                out["fails"].append((f"history-input-ignored-{name}",
                                     f"a NEW RadialNumericalBH for an exchanger that differs from the previous one only in {name} "
                                     f"({ {k: (base.get(k), var.get(k)) for k in var if var.get(k) != base.get(k)} }) returned the previous exchanger's response bit for bit; "
                                     f"the model for its own inputs differs from it by up to {dm:.3e} (g[{j}]: got {iv[1][j]!r}, model {mv[1][j]!r})", hist))
        if i1 is not None and i2 is not None and not same30(i1, i2):
            j = max(range(len(i1[1])), key=lambda j: abs(i1[1][j] - i2[1][j])) if len(i1[1]) == len(i2[1]) else 0
            out["fails"].append(("history-base-not-reproduced",
                                 f"the base exchanger computed again (new object) right after the variant in {name} differs from its first computation: "
                                 f"g[{j}] {i2[1][j]!r} vs {i1[1][j]!r}", hist))
    return out



# ----------------------------------------------------------------------------- GHE-level call history
# The route the tool takes: a GHE owns one RadialNumericalBH (`ghe.radial_numerical`) and refreshes it in `simulate`.
# After construction and after EVERY simulate call (HOURLY or HYBRID), at whatever height the exchanger now has, the radial
# response the GHE holds (t_s, lntts, g, g_bhw, g_sts) must be that of the CURRENT equivalent exchanger at the CURRENT height:
# bit-identical to a fresh RadialNumericalBH for `ghe.bhe.to_single()`, and equal to the Lean model for those inputs.
def gen_ghe_history(rng):
    dia = rng.choice([0.14, 0.15, 0.2])
    phys = {"fluid": list(rng.choice(FLUIDS)), "fluid_temp": rng.choice([20.0, 10.0, 30.0]),
            "grout": [_round(rng.uniform(0.6, 2.5), 3), _round(rng.uniform(2.0e6, 4.2e6), 5)],
            "soil": [_round(rng.uniform(0.8, 4.0), 3), _round(rng.uniform(1.5e6, 3.5e6), 5), 18.0],
            "pipe_k": _round(rng.uniform(0.3, 0.6), 3), "pipe_rho_cp": 1542000.0,
            "borehole": [_round(rng.uniform(62, 138), 4), 2.0, dia], "flow": _round(rng.uniform(0.15, 0.8), 3)}
    steps = []
    for k in range(rng.randint(2, 4)):
        steps.append([_round(rng.uniform(62, 138), 4), rng.choice(["HOURLY", "HOURLY", "HYBRID"])])
    if not any(m == "HOURLY" for _, m in steps):
        steps[-1][1] = "HOURLY"
    return {"kind": "ghe-history", "phys": phys, "pipe_kind": rng.choices(["SINGLEUTUBE", "DOUBLEUTUBEPARALLEL"], [75, 25])[0],
            "steps": steps, "H": 5000.0}


def bhe_inputs(bhe):
    R_b = float(bhe.calc_effective_borehole_resistance())
    return [float(v) for v in (bhe.b.r_b, bhe.pipe.r_out, bhe.pipe.r_in, bhe.soil.k, bhe.soil.rhoCp, bhe.grout.rhoCp,
                               bhe.pipe.rhoCp, bhe.fluid.rhoCp, bhe.R_f, R_b, bhe.b.H, bhe.k_s)]


def ghe_history_worker(c):
    import numpy as np
    import ghedesigner.radial_numerical_borehole as rnb
    from ghedesigner.enums import TimestepType

    out = {"case": c, "ghe": True, "fails": [], "corr": [], "metrics": {}, "checked": 0, "methods": []}
    ph = c["phys"]
    phys = {"fluid": tuple(ph["fluid"]), "fluid_temp": ph.get("fluid_temp", 20.0), "grout": tuple(ph["grout"]), "soil": tuple(ph["soil"]),
            "pipe_k": ph["pipe_k"], "pipe_rho_cp": ph["pipe_rho_cp"], "borehole": tuple(ph["borehole"]), "flow": ph["flow"]}
    try:
        ghe = ghelib.build_ghe(phys, c["pipe_kind"], [(0.0, 0.0), (5.0, 0.0)], ghelib.atlanta_loads(), 2, max_h=140.0, min_h=60.0,
                               heights=[60.0, 100.0, 140.0])
    except Exception as e:  # noqa: BLE001
        out["build_failed"] = f"{type(e).__name__}: {e}"[:200]
        return out

    def check(k, what):
        held = ghe.radial_numerical
        with ghelib.quiet():
            eq = ghe.bhe.to_single()
            fresh = rnb.RadialNumericalBH(eq)
            with np.errstate(all="ignore"):
                fresh.calc_sts_g_functions(eq)
        out["checked"] += 1
        H = float(ghe.bhe.b.H)
        period = lambda o: math.exp(float(o.lntts[-1])) * float(o.t_s) / 3600.0   # noqa: E731
        diffs = []
        if float(held.t_s) != float(fresh.t_s):
            diffs.append(f"t_s {float(held.t_s)!r} vs {float(fresh.t_s)!r}")
        for nm in ("lntts", "g", "g_bhw"):
            a, b = np.asarray(getattr(held, nm), dtype=float), np.asarray(getattr(fresh, nm), dtype=float)
            if a.shape != b.shape or not np.array_equal(a, b):
                diffs.append(f"{nm}[-1] {float(a[-1]) if a.size else None!r} vs {float(b[-1])!r}")
        try:
            if held.g_sts is None or not np.array_equal(np.asarray(held.g_sts(np.asarray(held.lntts))), np.asarray(held.g)):
                diffs.append("g_sts does not interpolate the held g")
        except Exception as e:  # noqa: BLE001
            diffs.append(f"g_sts raises {type(e).__name__}")
        # the model for the current exchanger
        inp = bhe_inputs(eq)
        args = " ".join(core.rs(v) for v in [SQRT2, PI] + inp)
        mo = drive_cached([f"radial-sts {args} none 1 1 none"])[0]
        model_note = ""
        if mo.startswith("ok"):
            parts = mo.split("|")
            ml, mg, mb = floats(parts[1]), floats(parts[2]), floats(parts[3])
            for nm, mv, fv in (("lntts", ml, fresh.lntts), ("g", mg, fresh.g), ("g_bhw", mb, fresh.g_bhw)):
                fv = np.asarray(fv, dtype=float)
                if len(mv) != len(fv) or float(np.max(np.abs(np.array(mv) - fv) / np.maximum(1.0, np.abs(mv)))) > 1e-7:
                    out["corr"].append(("ghe-sts-" + nm, f"fresh object for the GHE's current exchanger (H={H}) vs model: {nm}[-1] {float(fv[-1])!r} vs {mv[-1]!r}"))
            hg = np.asarray(held.g, dtype=float)
            if len(mg) == len(hg):
                model_note = f"; the model for the current exchanger ends at g = {mg[-1]!r} after {math.exp(ml[-1]) * float(fresh.t_s) / 3600.0:.1f} h"
        if diffs:
            out["fails"].append(("ghe-radial-response-not-current",
                                 f"after step {k} ({what}, H = {H} m) the radial response held by the GHE is not that of its current exchanger: it ends at "
                                 f"{period(held):.1f} h with g = {float(np.asarray(held.g)[-1])!r}, a fresh RadialNumericalBH for ghe.bhe.to_single() ends at "
                                 f"{period(fresh):.1f} h with g = {float(fresh.g[-1])!r}{model_note} ({'; '.join(diffs[:4])})"))

    check(0, "construction")
    for k, (H, method) in enumerate(c["steps"], 1):
        ghe.bhe.b.H = float(H)            # what GHE.size does before every simulate
        try:
            with ghelib.quiet():
                ghe.simulate(TimestepType[method])
        except Exception as e:  # noqa: BLE001
            out["corr"].append(("ghe-simulate-exception", f"simulate({method}) at H={H} raised {type(e).__name__}: {e}"[:300]))
            break
        out["methods"].append(method)
        check(k, f"simulate({method})")
    return out


# ----------------------------------------------------------------------------- run
def corpus_cases():
    d = core.CORPUS / "C10"
    cases = []
    if d.exists():
        for f in sorted(d.glob("*.json")):
            try:
                j = json.loads(f.read_text())
                cases.append(j.get("replay", j).get("case", j.get("replay", j)))
            except Exception:  # noqa: BLE001
                pass
    return cases


def bucket(x, edges, fmt="{}"):
    for lo, hi in zip(edges, edges[1:]):
        if lo <= x < hi:
            return f"[{fmt.format(lo)},{fmt.format(hi)})"
    return f">={fmt.format(edges[-1])}" if x >= edges[-1] else f"<{fmt.format(edges[0])}"


def run(ctx: core.Ctx):
    ctx.rule = ("one case = one borehole (real SingleUTube / equivalent of a double U-tube or coaxial pipe built through pygfunction, or a duck-typed "
                "object giving direct control of r_b, r_p, R_f, R_b*, capacities, H, final_time) run through the real calc_sts_g_functions; "
                "plus call histories: one RadialNumericalBH re-used for 2-4 boreholes in a row, compared bit for bit with a fresh object per borehole; "
                "distinct = distinct input tuples; non-trivial = the response was computed (degenerate inputs that must raise are counted as trivial)")
    ctx.trusted_base += [
        "translator plug-in translate/gen_radial.py (literal constants of radial_numerical_borehole.py)",
        "hand-written scalar-polymorphic model Model/Radial.lean, tied to the code by the Float differential run below; Float rounding is not reasoned about",
        "LAPACK dgtsv / numpy.log / numpy.interp / numpy.linspace / math.log, exp, sqrt: contracts, measured (cell table 1e-12, diagonals 1e-12, response 1e-7)",
        "pygfunction supplies R_f, R_b*, fluid properties: inputs of the model",
        "Python oracle in harness/c10.py (Fraction geometry, math.fsum energy bookkeeping)",
    ]
    ctx.assumptions += [
        "theorems are over ordered fields / the reals for the same definitions the Float run executes; `log` is any function with log(a/b)=log a - log b on positives where needed",
        "the model's own tridiagonal elimination is proved exact (strict diagonal dominance from positive coefficients, which follow from valid inputs), so energy balance / maximum principle hold for what the model computes over an ordered field; LAPACK's solve of the same system is compared with it (1e-7), not verified",
        "the 0.5 % finer-mesh agreement is a differential run (translation_validation), not a theorem",
        "monotonicity / sign checks on the implementation allow 1e-10 K (rounding of a solve with entries ~20 K)",
    ]
    ctx.lean_prepare()
    if not DRIVER.exists():
        ctx.infra("driver executable missing")
        return
    rng = ctx.rng
    quick = ctx.tier == "quick"

    if ctx.replay:
        j = json.loads(Path(ctx.replay).read_text())
        rep = j.get("replay", j)
        cases = [rep.get("case", rep)]
    else:
        cases = corpus_cases()
        n_real, n_stub, n_fine = (60, 24, 6) if quick else (1100, 400, 40)
        real = [gen_real(rng) for _ in range(n_real)]
        # make sure the ends of the height range are there
        real[0]["H"], real[1]["H"] = 400.0, 20.0
        # every fluid at a non-zero concentration and at non-default temperatures
        temps = [5.0, 10.0, 30.0, 15.0, 25.0, 8.0]
        for k, c_ in enumerate(real[6:6 + (12 if quick else 60)]):
            c_["fluid"] = list(FLUIDS[k % len(FLUIDS)])
            c_["fluid_temp"] = temps[(k // len(FLUIDS) + k) % len(temps)]
        # wide grout annuli: the largest boreholes with the smallest pipes (r_b - sqrt2 r_po up to ~100 mm)
        for k, c_ in enumerate(real[2:2 + (4 if quick else 60)]):
            if c_["pipe_kind"] != "COAXIAL":
                c_["r_b"] = [0.12, 0.11, 0.115, 0.1][k % 4]
                c_["r_out"] = [0.01335, 0.0167][k % 2]
                c_["r_in"] = _round(c_["r_out"] * 0.82, 5)
                room = c_["r_b"] - 2 * c_["r_out"]
                c_["s"] = _round(rng.uniform(0.02, 2 * room * 0.9) if c_["pipe_kind"] == "SINGLEUTUBE" else rng.uniform(0.06, 2 * room * 0.9), 5)
        stubs = [gen_stub(rng) for _ in range(n_stub)]
        degs = ["Rf0", "Rpg0", "nowall", "rc_soil0", "H0", "tiny_final", "thin_pipe_neg_radius"]
        stubs += [gen_stub(rng, d) for d in (degs if quick else degs * 6)]
        # finer-mesh differential: moderate heights in quick (cost 8x), plus whatever the budget allows in thorough
        fine = [gen_real(rng, "SINGLEUTUBE", H=_round(rng.uniform(20, 150 if quick else 400), 4)) for _ in range(n_fine)]
        for c in fine:
            c["fine"] = True
        n_hr, n_hs, n_pr = (12, 8, 2) if quick else (160, 90, 8)
        hmax = 200.0 if quick else 400.0
        hist = [gen_history(rng, stub=False, h_max=hmax) for _ in range(n_hr)] + [gen_history(rng, stub=True, h_max=hmax) for _ in range(n_hs)]
        # regressions for fix 6f0d501 (partial_init now refreshes c_0 and the grid geometry): always present
        for pr in ("soil_k", "radii"):
            hist += [gen_history(rng, stub=(i % 2 == 1), probe=pr, h_max=120.0) for i in range(n_pr)]
        n_or, n_os = (3, 2) if quick else (30, 20)
        oat = [gen_one_at_a_time(rng, stub=False, h_max=150.0 if quick else 400.0) for _ in range(n_or)] \
            + [gen_one_at_a_time(rng, stub=True, h_max=150.0 if quick else 400.0) for _ in range(n_os)]
        ghes = [gen_ghe_history(rng) for _ in range(4 if quick else 40)]
        cases = cases + fine + real + stubs + hist + oat + ghes
    # longest first so that the pool stays busy
    order = sorted(range(len(cases)), key=lambda i: -(cases[i].get("H") or 0) * (9 if cases[i].get("fine") else 1))
    try:
        results = core.pool_map(worker, [cases[i] for i in order], workers=16)
    except Exception as e:  # noqa: BLE001  (e.g. an unpicklable result): fall back to in-process, case by case
        ctx.log("pool failed, running in-process:", type(e).__name__, e)
        results = [worker(cases[i]) for i in order]

    fine_rows, worst, hist_samples, oat_samples, ghe_samples = [], {}, [0], [0], [0]

    def note_corr(c, r):
        for stream, detail in r.get("corr", []):
            ctx.disagreements_checked += 1
            name = stream + "-correspondence"
            if name not in ctx.broken:
                ctx.broken.append(name)
                ctx.extra.setdefault("first_disagreement", {})[stream] = {"case": c, "detail": detail}

    def absorb(r):
        c = r["case"]
        if r.get("worker_exception"):
            ctx.count("worker-exception(reported as broken correspondence)")
            ctx.case(signature(c), False)
            note_corr(c, r)
            return
        if r.get("ghe"):
            if "build_failed" in r:
                ctx.count("build-failed(outside C10):ghe-history")
                ctx.case(signature(c), False)
                return
            ctx.case(signature(c), True, {"ghe_history": c["steps"], "pipe": c["pipe_kind"]} if ghe_samples[0] < 1 else None)
            ghe_samples[0] += 1
            ctx.count("ghe-history:objects=" + c["pipe_kind"])
            ctx.count("ghe-history:responses-checked", r["checked"])
            for m_ in r["methods"]:
                ctx.count("ghe-history:simulate=" + m_)
            note_corr(c, r)
            for key, what in r["fails"]:
                ctx.finding(key, what, {"case": c})
            return
        if r.get("oat"):
            ctx.case(signature(c), True, {"one_at_a_time": r["inputs_tried"]} if oat_samples[0] < 1 else None)
            oat_samples[0] += 1
            ctx.count("one-at-a-time:bases")
            ctx.count("one-at-a-time:runs(base,variant,base)", r["runs"])
            for nm in r["inputs_tried"]:
                ctx.count("one-at-a-time:input=" + nm)
            note_corr(c, r)
            for key, what, hist_ in r["fails"]:
                ctx.finding(key, what, {"case": hist_})
            return
        if r.get("history"):
            if "build_failed" in r:
                ctx.count("build-failed(outside C10):history")
                ctx.case(signature(c), False)
                return
            ctx.case(signature(c), True, {"history": c["vars"], "H": [x["H"] for x in c["seq"]]} if hist_samples[0] < 2 else None)
            hist_samples[0] += 1
            ctx.count(f"history:len={len(c['seq'])}")
            ctx.count("history:objects=" + ("stub" if c["seq"][0]["kind"] == "stub" else c["seq"][0]["pipe_kind"]))
            for v in c["vars"][1:]:
                ctx.count("history:step=" + v)
            ctx.count("history:boreholes-compared-bitwise", r["elements"])
            for k, v in r["metrics"].items():
                worst["history_" + k] = max(worst.get("history_" + k, 0.0), v)
            note_corr(c, r)
            for key, what in r["fails"]:
                ctx.finding(key, what, {"case": c})
            return
        kind = c["kind"] if c["kind"] == "stub" else c["pipe_kind"]
        if "build_failed" in r:
            ctx.count("build-failed(outside C10):" + kind)
            ctx.case(signature(c), False)
            return
        inp, mt = r.get("inputs") or [float("nan")] * 12, r.get("metrics", {})
        computed = r.get("raised") is None and not c.get("degenerate") and not mt.get("invalid_geometry")
        ctx.case(signature(c), computed, {"case": c, "steps": mt.get("steps"), "g_last": mt.get("g_last"), "balance": mt.get("balance"),
                                          "leak": mt.get("leak")} if computed else None)
        ctx.count("kind:" + kind)
        ctx.count("H:" + bucket(inp[10], [0, 20.0001, 50, 100, 200, 300, 399.999, 401]))
        ctx.count("r_b_mm:" + bucket(inp[0] * 1000, [0, 50.001, 70, 90, 110, 119.999, 200]))
        if c["kind"] == "real":
            ctx.count("fluid:" + c["fluid"][0] + ("" if c["fluid"][1] == 0 else "(mixture)"))
            ctx.count("fluid_temp_C:" + str(c.get("fluid_temp", 20.0)))
            re = r["info"].get("Re")
            if re is not None:
                ctx.count("flow:" + ("laminar(Re<2300)" if re < 2300 else "transitional(2300-4000)" if re < 4000 else "turbulent(Re>=4000)"))
        if c.get("degenerate"):
            ctx.count(f"degenerate:{c['degenerate']}->" + str(r.get("raised")))
        if mt.get("invalid_geometry"):
            ctx.count("invalid-geometry(no claim)")
        if computed:
            if mt.get("period_h") is not None:
                ctx.count("period_h:" + bucket(mt["period_h"], [0, 49.1, 100, 150, 400, 1000, 5000], "{:g}"))
            if mt.get("annulus_mm") is not None:
                ctx.count("grout_annulus_mm:" + bucket(mt["annulus_mm"], [0, 20, 40, 67.5, 80, 200], "{:g}"))
            for k in ("balance", "leak", "corr_cells", "corr_cells_rat", "corr_tri", "corr_sts", "tile_gap", "tile_edges", "fluid_mass_rel", "layers_rel"):
                if mt.get(k) is not None:
                    worst[k] = max(worst.get(k, 0.0), abs(mt[k]))
        note_corr(c, r)
        for key, what in r["fails"]:
            ctx.finding(key, what, {"case": c, "inputs": dict(zip(INPUT_KEYS, inp)), "metrics": mt})
        if "fine" in r:
            fine_rows.append(r["fine"])
            f = r["fine"]
            if "rel" in f and (f["rel"] > FINE_TOL or f["rel_bhw"] > FINE_TOL):
                ctx.finding("finer-mesh-0.5pct", f"last g {f['g_impl']!r} vs finer mesh/time step {f['g_fine']!r} (rel {f['rel']:.2e}); g_bhw rel {f['rel_bhw']:.2e}",
                            {"case": c, "fine": f})
            elif "error" in f:
                ctx.broken.append("finer-mesh-run: " + f["error"])
    for r in results:
        try:
            absorb(r)
        except Exception as e:  # noqa: BLE001  (never an infrastructure error: the case is reported as not comparable)
            ctx.disagreements_checked += 1
            if "result-shape-correspondence" not in ctx.broken:
                ctx.broken.append("result-shape-correspondence")
                ctx.extra.setdefault("first_disagreement", {})["result-shape"] = {"case": r.get("case") if isinstance(r, dict) else None,
                                                                                   "detail": f"{type(e).__name__}: {e}"}
    ctx.programs = 1
    ctx.exhaustive = False
    ctx.extra["worst_observed"] = {k: float(f"{v:.3e}") for k, v in worst.items()}
    ctx.extra["translation_validation"] = {
        "claim": "last g of the implementation within 0.5 % of the Float model run with 2x cells in every region and dt/4 for the same physical duration",
        "level": "translation_validation (differential run, not a theorem)",
        "runs": len(fine_rows),
        "max_rel_g": max([f["rel"] for f in fine_rows if "rel" in f], default=None),
        "max_rel_g_bhw": max([f["rel_bhw"] for f in fine_rows if "rel" in f], default=None),
        "rows": fine_rows[:8],
    }
    if ctx.tier == "thorough":
        ctx.leanchecker(["GHEVerif.Props.C10", "GHEVerif.Lemmas.Radial", "GHEVerif.Model.Radial"])
