"""C07 — Hybrid loads retain each month's peaks with positive, bounded durations.

Proof: lean/GHEVerif/Props/C07.lean — `retention_months`, `pulse_present_and_placed` (for arbitrary
monthly arrays: which entries a retained month emits, their loads, and their windows: centred on
noon of the peak day, abutting at noon on a shared day), `unretained_month_is_average_only`,
`duration_bounds` (for every non-decreasing short-time response with non-negative step response,
every two-day window with 0 <= q <= peak and 0 <= avg < peak: 0 < duration <= 48 h, by an Abel
summation bound and inverse interpolation in a sorted table) together with `duration_definition`
(the duration is where the interpolated peak-step response equals the maximum of the nominal
response), `window_is_two_days_ending_on_peak_day`.

Tie to the code: the C06 correspondence (whole constructor incl. durations, two-day windows) plus
`perform_current_month_simulation` on arbitrary windows vs the model's `durationOf`.
Predicate on the implementation's arrays, with oracles written here from the property text:
pulse magnitudes == the profile's monthly max, signs, blocks of retained months == average /
pulse pattern with noon-centred (abutting) windows, unretained months == one average entry,
0 < duration <= 48, no pulse for an empty direction, and the duration re-derived from `g_sts` by
bisection on the interpolated step response (Cullin & Spitler).
Glue streams (every tier): real GHE objects (GHE.__init__, leap load years with peaks on 31 December)
before/after simulate/size, and real design searches through all six design classes with explicit
load_years and with SYSTEM flow — peaks of every month of every load year retained, durations equal to
those of a HybridLoad built from the public classes for the same exchanger.
"""
from __future__ import annotations

import math

import core
import hybridlib as H

PROPERTY = "C07"
LEVEL = "proof"
MANIFEST = {
    "text": "Retained months carry their hourly peaks as noon-centred pulses with durations in (0, 48] h defined by the Cullin-Spitler rule",
    "note": "pulse presence/placement for arbitrary monthly arrays; duration bounds for every monotone short-time response; clamped 1-January pulses are a known finding",
    "technique": "Lean 4 proof over a Rat model + differential run against the real HybridLoad + independent duration oracle",
    "design_ref": "DESIGN.md §5 C07",
}


# ----------------------------------------------------------------------------- oracles (no shared code with the implementation)
def oracle_window(series, m, day):
    """Hours [24(day-1), 24(day+1)) of month m (0-based) of `series` (kW), wrapping to 31 December."""
    a = H.MONTH_START[m] + 24 * (day - 1)
    return [series[(a + k) % 8760] for k in range(48)]


def oracle_duration(window, monthly_peak, avg, S):
    """Cullin–Spitler duration: time at which a step of (peak − avg) produces the same response as the
    maximum over the two days of the peak-scaled hourly profile.  S[k] = step response (K per kW) at k h,
    k = 1..48 (S[0] unused).  Returns (duration | None when the rule gives the placeholder, peak used)."""
    mx = max([0.0] + window)
    peak = monthly_peak if abs(monthly_peak - mx) < 0.1 else mx
    if peak == 0.0:
        return None, peak
    w = [0.0] + [(q - avg) / peak * q for q in window]
    best = 0.0
    for n in range(1, 49):
        # superposition of load changes with the step response
        t = math.fsum((w[j + 1] - w[j]) * S[n - j] for j in range(n))
        best = max(best, t)
    if not best > 0.0:
        return None, peak
    step = peak - avg

    def resp(t):  # interpolated step response at time t (hours), 0 at t = 0
        k = min(int(t), 47)
        lo = 0.0 if k == 0 else step * S[k]
        hi = step * S[k + 1]
        return lo + (t - k) * (hi - lo)

    lo, hi = 0.0, 48.0
    if resp(hi) < best:
        return float("inf"), peak  # beyond two days: extrapolation territory
    for _ in range(200):
        mid = 0.5 * (lo + hi)
        if resp(mid) < best:
            lo = mid
        else:
            hi = mid
    return 0.5 * (lo + hi), peak


def expected_block(r, i, prev, lm, rate):
    """(load, start, end) triples month i must consist of, from its record, per the property text."""
    fmh = prev + 1
    out = []
    t = float(prev)
    nc = fmh + 24 * r["dayc"] + 12
    nh = fmh + 24 * r["dayh"] + 12
    cool = heat = None
    if r["pcl"] > 0:
        cool = (r["pcl"], nc - r["dcl"], float(nc)) if r["dayc"] == r["dayh"] else (r["pcl"], nc - r["dcl"] / 2, nc + r["dcl"] / 2)
    if r["phl"] > 0:
        heat = (-r["phl"], float(nh), nh + r["dhl"]) if r["dayc"] == r["dayh"] else (-r["phl"], nh - r["dhl"] / 2, nh + r["dhl"] / 2)
    order = [cool, heat] if r["dayc"] <= r["dayh"] else [heat, cool]
    for p in order:
        if p is None:
            continue
        if not (r["dayc"] == r["dayh"] and p is heat and cool is not None):
            out.append((rate, t, p[1]))  # average up to the pulse (none between abutting pulses)
        out.append(p)
        t = p[2]
    out.append((rate, t, float(lm)))
    return out


def check_blocks(ctx, label, load, hour, mt, start, end, years, replay, prefix=""):
    """Every simulated month's entries against the pattern its record asks for (retained months: average /
    pulse pattern with noon-centred or abutting windows; other months: one average entry)."""
    yr = years if len(years) > 1 else years[0]
    multi = len(years) > 1
    j = 2
    for i in range(start, end + 1):
        prev, lm = H.oracle_month_end(i - 1, yr), H.oracle_month_end(i, yr)
        blk = []
        t = hour[j - 1]
        while j < len(hour):
            blk.append((load[j], t, hour[j]))
            t = hour[j]
            j += 1
            if t == float(lm) and not (j < len(hour) and hour[j] == float(lm)):
                break
        if not blk:
            ctx.finding(prefix + "month-missing", f"{label}: no entries for month {i}", dict(replay, month=i))
            return False
        r = mt[(i - 1) % len(mt)]
        rate = blk[-1][0]
        retained = multi or H.ipf(i, start, end)
        if retained:
            want = expected_block(r, i, prev, lm, rate)
            ctx.count(prefix + "retained-block:" + ("same-day" if r["dayc"] == r["dayh"] else "different-days") + f"/{sum(1 for w in want if w[0] != rate or False)}p")
        else:
            want = [(rate, float(prev), float(lm))]
            ctx.count(prefix + "unretained-block")
        ok = len(blk) == len(want) and all(a[0] == b[0] and H.close(a[1], b[1], 1e-9) and H.close(a[2], b[2], 1e-9) for a, b in zip(blk, want))
        if not ok:
            nc = prev + 1 + 24 * r["dayc"] + 12
            nh = prev + 1 + 24 * r["dayh"] + 12
            clamped = (r["pcl"] > 0 and r["dcl"] / 2 > nc) or (r["phl"] > 0 and r["dhl"] / 2 > nh)
            key = "pulse-clamped-not-centred" if clamped and retained else (prefix + "pulse-placement" if retained else prefix + "unretained-month-not-average-only")
            ctx.finding(key, f"{label}: month {i} emits {blk} but its record asks for {want}", dict(replay, month=i, record=r))
            return False
    return True


def retention_object(ctx, label, snap, raw, years, start, end, replay, prefix):
    """C07 on one snapshot of a hybrid load against the input profile `raw` (W) of its load years:
    every month of every load year keeps its hourly peak (magnitude, day), durations lie in (0, 48],
    and the sequence carries them as pulses (check_blocks).  Returns True when everything held."""
    yr = years if len(years) > 1 else years[0]
    mt = H.month_table(snap["monthly"])
    n_rec = 12 * len(years)
    if len(mt) < n_rec:
        ctx.finding(prefix + "monthly-arrays-short", f"{label}: monthly arrays describe {len(mt)} month(s), the load years {years} have {n_rec}", replay)
        return False
    good = True
    for k in range(n_rec):
        a, b = H.oracle_month_end(k, yr), H.oracle_month_end(k + 1, yr)
        seg = raw[a:b]
        rej = [-x / 1000.0 if x < 0 else 0.0 for x in seg]
        ext = [x / 1000.0 if x >= 0 else 0.0 for x in seg]
        r = mt[k]
        for name, s_, pk, day, dur in (("rejection", rej, r["pcl"], r["dayc"], r["dcl"]), ("extraction", ext, r["phl"], r["dayh"], r["dhl"])):
            want = max(s_) if s_ else float("nan")
            if not s_ or pk != want or day != s_.index(want) // 24:
                ctx.finding(prefix + "peak-not-retained", f"{label}: load-year month {k+1} {name} peak is {pk} kW on day {day}; the input's hourly peak of that month is "
                            f"{want} kW on day {s_.index(want) // 24 if s_ else None}", dict(replay, month=k + 1))
                good = False
            if not (math.isfinite(dur) and 0.0 < dur <= 48.0):
                ctx.finding("degenerate-duration" if abs(pk - (r["avgcl"] if name == "rejection" else r["avghl"])) <= 1e-9 * max(pk, 1e-300) else prefix + "duration-bounds",
                            f"{label}: load-year month {k+1} {name} duration {dur} h outside (0, 48]", dict(replay, month=k + 1))
                good = False
        if not good:
            return False
    if all(math.isfinite(x) for x in snap["load"] + snap["hour"]):
        good = check_blocks(ctx, label, snap["load"], snap["hour"], mt[:n_rec], start, end, years, replay, prefix)
    return good


def glue_streams(ctx, phys, quick):
    """(1) real GHE objects built through GHE.__init__ (start months 1/2/4/7/12, leap load years, distinct
    monthly peaks incl. peaks ON 31 December and on the last day of February), inspected after construction
    and after simulate/size; (2) real design searches through every design class with explicit load_years
    and with SYSTEM flow: the returned GHE's hybrid load keeps the peaks of every month of every load year
    and carries the Cullin-Spitler durations of THAT exchanger (compared with a HybridLoad built from the
    public classes for the same per-borehole flow)."""
    jobs = H.ghe_history_jobs(ctx.rng, 8 if quick else 40, phys, "peaky")
    outs = core.pool_map(H.run_ghe_history, jobs)
    for a, o in zip(jobs, outs):
        label0 = f"GHE(start_month={a['start']}, end_month={a['end']}, load_years={a['years']}, {a['hours']}-hour profile)"
        replay = {"builder": "hybridlib.run_ghe_history", "args": {k: v for k, v in a.items() if k != "phys"}, "phys": a["phys"]}
        ctx.count(f"ghe-history:start-{a['start']}/years-{a['years'][0]}")
        if "raise" in o:
            ctx.case(("ghe-history", a["start"], a["end"], a["years"][0], a["seed"]), False)
            ctx.finding("ghe-history-raise", f"{label0} raised {o['raise']}", replay)
            continue
        raw = H.profile_of(a)
        for k, (name, snap) in enumerate(o["steps"]):
            label = f"{label0} after {[n for n, _ in o['steps'][1:k + 1]] or 'construction'}"
            ctx.case(("ghe-history", a["start"], a["end"], a["years"][0], a["seed"], k), True)
            if not retention_object(ctx, label, snap, raw, a["years"], a["start"], a["end"], dict(replay, step=k), "ghe-history-"):
                break
    jobs = H.design_search_jobs(ctx.rng, 9 if quick else 27, phys, "peaky")
    outs = core.pool_map(H.run_design_search, jobs)
    for a, o in zip(jobs, outs):
        label = (f"{a['design']} design search ({a.get('flow_type', 'BOREHOLE')} flow {a.get('flow', phys['flow'])} L/s, load_years={a['years']}, "
                 f"{a['months']} months): hybrid load of the returned GHE")
        replay = {"builder": "hybridlib.run_design_search", "args": {k: v for k, v in a.items() if k != "phys"}, "phys": a["phys"]}
        ctx.count(f"design-search:{a['design']}/{a.get('flow_type', 'BOREHOLE')}/years-{'+'.join(map(str, a['years']))}")
        if "raise" in o:
            ctx.case(("design-search", a["design"], tuple(a["years"]), a["seed"]), False)
            ctx.finding("design-search-raise", f"{label}: the search raised {o['raise']}", replay)
            continue
        ctx.case(("design-search", a["design"], tuple(a["years"]), a.get("flow_type"), a["seed"]), True,
                 {"design_search": a["design"], "years": a["years"], "boreholes": o["n_boreholes"]} if len(ctx.samples) < 6 else None)
        snap = o["returned"]
        raw = H.profile_of(a)
        if snap["years"] != list(a["years"]):
            # the consequence for this property, then one finding for the dropped calendar
            n_rec = 12 * len(a["years"])
            lost = max(0, n_rec - len(snap["monthly"]))
            ctx.finding("design-search-load-years-dropped:" + a["design"],
                        f"{label}: hybrid_load.years = {snap['years']} instead of the requested {a['years']}; the monthly peaks of {lost} load-year month(s) are not retained", replay)
            continue
        good = retention_object(ctx, label, snap, raw, a["years"], 1, a["months"], replay, "design-search-")
        # durations (and hence pulse widths) of THIS exchanger
        ref = o["reference"]["max_height"]
        worst = None
        for m, (x, y) in enumerate(zip(snap["monthly"], ref["monthly"]), 1):
            for j in (8, 9):
                if math.isfinite(y[j]) and y[j] > 1e-3 and abs(x[j] - y[j]) > 1e-9 * y[j]:
                    if worst is None or abs(x[j] - y[j]) / y[j] > worst[0]:
                        worst = (abs(x[j] - y[j]) / y[j], m, H.MONTHLY_FIELDS[j], x[j], y[j])
        if worst:
            ctx.finding("design-search-durations-not-of-this-exchanger",
                        f"{label} ({o['n_boreholes']} boreholes, {o['flow_per_borehole']:.4f} L/s per borehole): month {worst[1]} {worst[2]} = {worst[3]} h, "
                        f"a HybridLoad built from the public classes for the same exchanger gives {worst[4]} h ({100 * worst[0]:.2f} % off)", replay)
        elif good and (snap["hour"] != ref["hour"] or snap["load"] != ref["load"]):
            ctx.finding("design-search-sequence-not-of-this-exchanger", f"{label}: (load, hour) sequence differs from the one of a HybridLoad built for the same exchanger", replay)


def multiyear_stream(ctx, phys):
    """Peak retention of HybridLoad objects built directly with multi-year `years` lists (distinct peaks in
    every month of every load year).  With a leap year in the list the pulses are placed with a calendar
    that is 24 h off for the other years (known finding multi-year-leap-calendar)."""
    jobs = H.multiyear_jobs(ctx.rng, phys, "peaky")
    outs = core.pool_map(H.run_multiyear, jobs)
    for a, o in zip(jobs, outs):
        years = a["years"]
        n = 12 * len(years)
        label = f"HybridLoad(years={years}, {n} months)"
        replay = {"builder": "hybridlib.run_multiyear", "args": {k: v for k, v in a.items() if k != "phys"}, "phys": a["phys"]}
        ctx.count("multi-year:" + ("with-leap-year" if H.has_leap(years) else "ordinary-years"))
        if "raise" in o:
            ctx.case(("multi-year", tuple(years), a["seed"]), False)
            ctx.finding("multi-year-raise", f"{label} raised {o['raise']}", replay)
            continue
        ctx.case(("multi-year", tuple(years), a["seed"]), True)
        snap = o["snap"]
        raw = H.multiyear_profile(a["seed"], years, "peaky")
        if H.has_leap(years):
            # signature of the known finding: the month ends of the sequence are not those of the load years
            ends = {float(H.oracle_month_end(i, years)) for i in range(1, n + 1)}
            if not ends <= set(snap["hour"]):
                missing = sorted(ends - set(snap["hour"]))
                ctx.finding("multi-year-leap-calendar", f"{label}: {len(missing)} month end(s) of the load years are not breakpoints (first: hour {missing[0]}); "
                            "pulses of those months are placed relative to a calendar that is 24 h off", replay)
                continue
        retention_object(ctx, label, snap, raw, years, 1, n, replay, "multi-year-")


def run(ctx: core.Ctx):
    ctx.rule = ("case = (hourly profile, borehole/ground parameter set, horizon) as in C06 with 5 (quick) / 200 (thorough) parameter sets, plus "
                "arbitrary two-day windows through perform_current_month_simulation; distinct = distinct (kind, seed, parameter set, horizon); "
                "non-trivial = at least one retained pulse with a simulated (non-placeholder) duration")
    ctx.trusted_base += [
        "translator translate/gen.py + gen_hybrid.py (calendar functions, 1e-6 / 12 / 0.1 / 2*HRS_IN_DAY literals)",
        "hand-written model Model/Hybrid.lean; g_sts enters as its 48 hourly samples; scipy interp1d modelled as sort + searchsorted + line",
        "RadialNumericalBH / pygfunction borehole resistance produce g_sts and R_b (their properties are C10/C15); the hypotheses of duration_bounds "
        "(g_sts non-decreasing over 1..48 h, g(1h)/(2 pi k) + R_b >= 0) are measured on every parameter set and reported",
    ]
    ctx.assumptions += [
        "years=[2019]; noon is read in the tool's own 1-based hour labels (first_month_hour(1) = 1)",
        "durations compared at 1e-6 h with the independent bisection oracle, 1e-7 relative with the model",
        "a duration is only defined for a direction that has a pulse; zero-peak directions are counted, not checked (their energy effect is C06's finding)",
    ]
    ctx.lean_prepare()
    quick = ctx.tier == "quick"
    n_phys = 5 if quick else 200
    physs = H.phys_sets(ctx.rng, n_phys)

    # ------------------------------------------------------------------ hypotheses of duration_bounds, per parameter set
    S_of = []
    for k, p in enumerate(physs):
        tpk, rb, g = H.g_params(p)
        mono = all(a <= b for a, b in zip(g, g[1:]))
        pos = g[0] / tpk + rb >= 0
        ctx.count("g_sts:" + ("monotone" if mono else "NOT-monotone") + "/" + ("S(1h)>=0" if pos else "S(1h)<0"))
        S_of.append([None] + [gv / tpk + rb for gv in g])
        if not (mono and pos):
            ctx.extra.setdefault("duration_bounds_hypothesis_fails_for", []).append(p)

    corpus = H.load_corpus("C07")
    cases = corpus + H.gen_cases(ctx.rng, 300 if quick else 6000, n_phys)
    results = H.explore(ctx, cases, physs)
    for res in results:
        c, im = res["case"], res["impl"]
        kind = c.get("kind", "corpus:" + c.get("corpus", "spec"))
        ctx.count("kind:" + kind)
        if im["monthly"] is None:
            for e in c["ends"]:
                ctx.case((kind, c.get("pseed"), c.get("phys_id"), e), False)
            continue
        raw = res["raw"]
        mt = H.month_table(im["monthly"])
        rej = [-x / 1000.0 if x < 0 else 0.0 for x in raw]
        ext = [x / 1000.0 if x >= 0 else 0.0 for x in raw]
        S = S_of[c.get("phys_id", 0)]
        base_replay = {"case": {k: v for k, v in c.items() if k != "raw"}, "phys": res["phys"],
                       "how": "hybridlib.raw_of_case(case) -> HybridLoad(raw, bhe_eq, radial_numerical, SimulationParameters(1, end, …))"}
        simulated = 0
        degenerate = False
        # ---- per month: magnitudes, days, windows, durations
        for m in range(12):
            r = mt[m]
            seg_r = rej[H.MONTH_START[m]:H.MONTH_START[m + 1]]
            seg_e = ext[H.MONTH_START[m]:H.MONTH_START[m + 1]]
            for name, seg, series, pk, day, dur, avg, win in (
                    ("rejection", seg_r, rej, r["pcl"], r["dayc"], r["dcl"], r["avgcl"], im["windows"][m][0]),
                    ("extraction", seg_e, ext, r["phl"], r["dayh"], r["dhl"], r["avghl"], im["windows"][m][1])):
                want_pk = max(seg)
                if pk != want_pk or day != seg.index(want_pk) // 24:
                    ctx.finding("peak-magnitude-or-day", f"{kind}: month {m+1} {name} peak {pk} on day {day}, the profile has {want_pk} on day {seg.index(want_pk)//24}",
                                dict(base_replay, month=m + 1))
                if win != oracle_window(series, m, int(day)):
                    ctx.finding("two-day-window", f"{kind}: month {m+1} {name} two-day window is not hours [24(day-1), 24(day+1)) of the month",
                                dict(base_replay, month=m + 1))
                if not (math.isfinite(dur) and 0.0 < dur <= 48.0):
                    flat = abs(pk - avg) <= 1e-9 * max(pk, 1e-300)
                    over = math.isfinite(dur) and dur > 48.0 and pk > 0 and max(win) > pk and abs(max(win) - pk) < 0.1
                    key = ("degenerate-duration" if flat else "window-exceeds-peak-within-tolerance" if over
                           else "duration-above-48h" if math.isfinite(dur) and dur > 48.0 else "duration-bounds")
                    degenerate = degenerate or flat
                    ctx.finding(key, f"{kind}: month {m+1} {name} duration {dur} h (peak {pk}, average {avg}) is outside (0, 48]",
                                dict(base_replay, month=m + 1, window=win))
                    continue
                if pk == 0.0:
                    ctx.count("duration:zero-peak-direction:" + ("placeholder" if dur <= 2e-6 else "real"))
                    continue
                od, used = oracle_duration(win, pk, avg, S)
                if abs(pk - avg) <= 1e-9 * pk:
                    ctx.count("duration:constant-month(near-boundary)")
                    continue
                if od is None:
                    ctx.count("duration:placeholder")
                    if abs(dur - 1e-6) > 1e-12:
                        ctx.finding("duration-placeholder", f"{kind}: month {m+1} {name}: nominal response never positive but duration {dur}", dict(base_replay, month=m + 1))
                    continue
                simulated += 1
                ctx.count("duration:" + ("<2h" if dur < 2 else "2-12h" if dur < 12 else "12-26h" if dur < 26 else "26-48h"))
                if used != pk:
                    ctx.count("duration:two-day-max-replaced-peak")
                if not abs(dur - od) <= 1e-6 * max(1.0, od):
                    ctx.finding("duration-definition", f"{kind}: month {m+1} {name} duration {dur} h, the Cullin-Spitler rule on g_sts gives {od} h",
                                dict(base_replay, month=m + 1, window=win, peak=pk, avg=avg))
        # ---- per horizon: blocks
        for e in c["ends"]:
            run_ = im["runs"][e]
            if "raise" in run_:
                ctx.case((kind, c.get("pseed"), c.get("phys_id"), e), False)
                continue
            ctx.case((kind, c.get("pseed"), c.get("phys_id"), e), simulated > 0,
                     {"kind": kind, "end": e, "durations_jan": (mt[0]["dcl"], mt[0]["dhl"])} if len(ctx.samples) < 6 else None)
            load, hour = run_["load"], run_["hour"]
            if degenerate or not all(math.isfinite(x) for x in load + hour):
                ctx.count("blocks-skipped:degenerate-duration")
                continue
            check_blocks(ctx, f"{kind} end={e}", load, hour, mt, 1, e, [H.YEAR], dict(base_replay, end=e))

    # ------------------------------------------------------------------ the glue: real GHE objects and design searches
    glue_streams(ctx, physs[0], quick)
    multiyear_stream(ctx, physs[0])

    # ------------------------------------------------------------------ perform_current_month_simulation on arbitrary windows vs the model
    n_w = 200 if quick else 4000
    rng = ctx.rng
    jobs = []
    for _ in range(n_w):
        pid = rng.randrange(n_phys)
        style = rng.choice(["random", "plateau", "single-hour", "ramp", "prev-day-higher", "zero"])
        pk = 10 ** rng.uniform(-1, 3)
        if style == "random":
            w = [rng.uniform(0, pk) for _ in range(48)]
        elif style == "plateau":
            w = [rng.uniform(0, 0.2 * pk) for _ in range(48)]
            a = rng.randrange(0, 40)
            for k in range(a, min(48, a + rng.randint(2, 40))):
                w[k] = pk * rng.uniform(0.95, 1.0)
        elif style == "single-hour":
            w = [rng.uniform(0, 0.1 * pk) for _ in range(48)]
        elif style == "ramp":
            w = [pk * k / 48.0 for k in range(48)]
        elif style == "prev-day-higher":
            w = [pk * rng.uniform(1.0, 1.5) for _ in range(24)] + [rng.uniform(0, pk) for _ in range(24)]
        else:
            w = [0.0] * 48
        if style != "zero":
            w[24 + rng.randrange(24)] = pk
        else:
            pk = 0.0
        avg = rng.uniform(0, 1.0) * (sum(w) / 48.0) if rng.random() < 0.8 else pk * rng.uniform(0.5, 1.2)
        jobs.append((pid, style, w, pk, avg))
    impls = core.pool_map(_impl_duration, [(physs[pid], w, pk, avg) for pid, _, w, pk, avg in jobs], chunksize=8)
    lines = []
    for pid, _, w, pk, avg in jobs:
        tpk, rb, g = H.g_params(physs[pid])
        lines.append(f"hyb.dur {core.rs(tpk)} {core.rs(rb)} {H.csv(g)} {core.rs(pk)} {core.rs(avg)} {H.csv(w)}")
    outs = H.drive(ctx, lines)
    if outs is not None:
        for (pid, style, w, pk, avg), im, o in zip(jobs, impls, outs):
            ctx.count("window-style:" + style)
            ctx.case(("window", style, pid, repr(w[:3]), pk, avg), True)
            parts = o.split(" | ")
            md = parts[0].strip()
            ok = True
            if md.startswith("raise"):
                ok = im.get("raise") == md.split()[1]
            elif "raise" in im:
                ok = False
            elif md == "nan":
                ok = not math.isfinite(im["dur"])
            else:
                d = H.fix(md)
                flat = abs(pk - avg) <= 1e-9 * max(pk, 1e-300)
                ok = flat or H.close(im["dur"], d, 1e-7)
                if ok and im.get("pk") is not None and len(parts) == 3 and not parts[2].startswith("raise"):
                    mpk = [H.fix(t) for t in parts[1].split()]
                    mnm = [H.fix(t) for t in parts[2].split()]
                    scale = max(1.0, max(abs(float(v)) for v in mpk + mnm))
                    ok = all(abs(a - float(b)) <= 1e-9 * scale for a, b in zip(im["pk"], mpk)) and \
                        all(abs(a - float(b)) <= 1e-9 * scale for a, b in zip(im["nm"], mnm))
            if not ok:
                H._disagree(ctx, "hybrid-duration-correspondence", {"phys_id": pid, "style": style, "window": w, "peak": pk, "avg": avg},
                            f"impl {({k: v for k, v in im.items() if k in ('dur', 'raise')})} model {md[:60]}")
    ctx.programs = 4
    ctx.exhaustive = False
    ctx.extra["profiles"] = len(cases)
    ctx.extra["parameter_sets"] = n_phys
    if not quick:
        ctx.leanchecker(["GHEVerif.Props.C07", "GHEVerif.Lemmas.HybridDur", "GHEVerif.Lemmas.HybridAxis", "GHEVerif.Lemmas.HybridEnergy",
                         "GHEVerif.Lemmas.HybridSplit", "GHEVerif.Lemmas.HybridProc", "GHEVerif.Lemmas.HybridSeq", "GHEVerif.Lemmas.HybridCal",
                         "GHEVerif.Model.Hybrid"])


def _impl_duration(args):
    """The real find_peak_durations logic for one direction on an arbitrary window: the tolerance rule,
    then perform_current_month_simulation (or the placeholder)."""
    phys, w, pk, avg = args
    import warnings

    from ghedesigner.ground_loads import HybridLoad

    eq, rn = H.borehole(phys)
    hl = HybridLoad.__new__(HybridLoad)
    hl.bhe, hl.radial_numerical = eq, rn
    td = [0.0] + list(w)
    tol = 0.1
    cur = pk if abs(pk - max(td)) < tol else max(td)
    if cur == 0.0:
        return {"dur": 1.0e-6, "pk": None}
    a, b = [], []
    try:
        with warnings.catch_warnings():
            warnings.simplefilter("ignore")
            d, _, _ = hl.perform_current_month_simulation(td, cur, avg, a, b)
    except Exception as e:  # noqa: BLE001
        return {"raise": type(e).__name__}
    return {"dur": float(d), "pk": [float(x) for x in a[0]], "nm": [float(x) for x in b[0]]}
