"""C16 — Point-in-polygon classification used for land constraints is exact.

Proof: lean/GHEVerif/Props/C16.lean — the squaring cascade decides the on-edge comparison over the
reals (bandTest_iff), `classify` has the closed form "0 in the band, else crossing-number parity
with the half-open vertex rule" for every vertex list and every rational point
(classify_closed_form, ray_eq_crossing_number), `0` is returned exactly in the tolerance band
(on_edge_iff_in_band, boundary_reported_on_edge, c_zero_on_segment), the answer is invariant under
rotation and reversal of the vertex list (classify_rotate, classify_reverse), and the degenerate
alignments (horizontal_edge_ignored, vertex_level_counted_once).
Tie to the code: the per-edge decisions of `shape.point_polygon_check` are regenerated from the
source (translate/gen_polygon.py -> Gen/Polygon.lean), the rest of the function is pinned by AST,
and the model is run against the real function on the same inputs (exhaustive lattice stream +
random real-valued stream); an independent exact oracle (integers / fractions.Fraction, crossing
number by definition, band by integer square roots) judges the implementation's own outputs.
"""
from __future__ import annotations

import json
import math
import subprocess
import time
from collections import Counter
from fractions import Fraction
import random
from itertools import permutations
from math import isqrt

import core
import ghelib  # noqa: F401  (puts VERIF_REPO first on sys.path)

PROPERTY = "C16"
LEVEL = "proof"
MANIFEST = {
    "text": "C16 — point_polygon_check agrees with the crossing-number definition (half-open vertex rule) and reports "
            "on-edge exactly in the tolerance band: Lean theorems for every vertex list and rational point; exhaustive "
            "lattice + random differential runs against the real function with an exact independent oracle.",
    "design_ref": "DESIGN.md §4 C16",
    "technique": "Lean 4 theorems about Model/Polygon.lean whose per-edge decisions are regenerated from shape.py; "
                 "exhaustive 4x4-lattice and random real-valued correspondence runs; exact integer/Fraction oracle",
    "note": "Jordan curve theorem (odd crossing number = topological interior) is not proved; float rounding of the "
            "implementation is covered only by the differential runs (near-boundary inputs are counted and skipped)",
}

EXE = core.LEAN / ".lake" / "build" / "bin" / "driver"
TOL_DEFAULT = 0.001  # point_polygon_check default
TOL_CUTOUT = 0.01    # remove_cutout default
TOL_WIDE = 0.02      # puts lattice points strictly inside the band without being on the boundary (smallest non-zero value 0.01248)
HALF_PTS = [(i * 0.5, j * 0.5) for j in range(9) for i in range(9)]  # [0,4]^2 step 1/2
LAT = [(i % 4, i // 4) for i in range(16)]
NEAR = 1e-9  # |band value - tol| or |c| below this: float rounding may decide, case is skipped (counted)


# ----------------------------------------------------------------------------- exact oracle
def _sqrt_bounds(q: Fraction, k: int):
    """Rigorous rational bounds lo <= sqrt(q) <= hi with hi - lo <= 10^-k / den."""
    n, d = q.numerator, q.denominator
    s = 10 ** k
    t = n * d * s * s
    r = isqrt(t)
    lo = Fraction(r, d * s)
    return (lo, lo) if r * r == t else (lo, Fraction(r + 1, d * s))


_band_cache: dict = {}


def band_value(a, b, d, tol: Fraction):
    """Decide  sqrt(a)+sqrt(b)-sqrt(d) < tol  by interval arithmetic on integer square roots.
    -> (in_band: bool | None, |value - tol| lower bound as float)."""
    key = (a, b, d, tol)
    hit = _band_cache.get(key)
    if hit is not None:
        return hit
    a, b, d = Fraction(a), Fraction(b), Fraction(d)
    res = (None, 0.0)
    for k in (25, 60, 200):
        la, ha = _sqrt_bounds(a, k)
        lb, hb = _sqrt_bounds(b, k)
        ld, hd = _sqrt_bounds(d, k)
        lo, hi = la + lb - hd, ha + hb - ld
        if hi < tol:
            res = (True, float(tol - hi))
            break
        if lo >= tol and (lo > tol or k == 200):
            res = (False, float(lo - tol))
            break
    if len(_band_cache) < 2_000_000:
        _band_cache[key] = res
    return res


def oracle(poly, p, tol: Fraction):
    """Crossing-number definition, written from the property text.  `poly`, `p` exact numbers
    (int or Fraction).  -> (expected, info) with info = dict(kind, align, margin, cmin)."""
    px, py = p
    n = len(poly)
    on_seg = False
    in_band = False
    margin = math.inf
    undecided = False
    crossings = 0
    level_vertex = any(v[1] == py for v in poly)
    collinear_ext = False
    cmin = math.inf
    for i in range(n):
        ax, ay = poly[i - 1]
        bx, by = poly[i]
        ux, uy = bx - ax, by - ay
        wx, wy = px - ax, py - ay
        cr = ux * wy - uy * wx
        if ux == 0 and uy == 0:   # degenerate edge (repeated vertex): only the vertex itself
            if wx == 0 and wy == 0:
                on_seg = True
        elif cr == 0:
            dot = ux * wx + uy * wy
            if 0 <= dot <= ux * ux + uy * uy:
                on_seg = True
            else:
                collinear_ext = True
        ib, m = band_value(wx * wx + wy * wy, (px - bx) ** 2 + (py - by) ** 2, ux * ux + uy * uy, tol)
        if ib is None:
            undecided = True
        elif ib:
            in_band = True
        margin = min(margin, m)
        # half-open rule: min y < py <= max y
        if (ay < py <= by) or (by < py <= ay):
            # x of the edge at height py, compared with px without division
            lhs = wy * ux            # (py-ay)(bx-ax)
            rhs = wx * uy            # (px-ax)(by-ay)
            right = lhs > rhs if uy > 0 else lhs < rhs
            if right:
                crossings += 1
            cmin = min(cmin, abs(float(lhs - rhs)))
    if on_seg and tol > 0 and not in_band:
        raise AssertionError("oracle self-check: boundary point outside the band")
    if in_band:
        exp = 0
        kind = "on-boundary" if on_seg else "band-only"
    else:
        exp = 1 if crossings % 2 else -1
        kind = "inside" if exp == 1 else "outside"
    align = "level-vertex" if level_vertex else ("collinear-ext" if collinear_ext else "generic")
    if level_vertex and collinear_ext:
        align = "level-vertex+collinear-ext"
    if not level_vertex and any(abs(float(v[1] - py)) <= 1e-7 for v in poly):
        align = "near-level-vertex" + ("+collinear-ext" if collinear_ext else "")   # close to, but NOT at, a vertex level
    return exp, {"kind": kind, "align": align, "margin": margin, "cmin": cmin, "undecided": undecided,
                 "crossings": crossings}


# ----------------------------------------------------------------------------- lattice polygons
def _orient(a, b, c):
    return (b[0] - a[0]) * (c[1] - a[1]) - (b[1] - a[1]) * (c[0] - a[0])


def _on(a, b, c):
    return min(a[0], b[0]) <= c[0] <= max(a[0], b[0]) and min(a[1], b[1]) <= c[1] <= max(a[1], b[1])


def _seg_meet(a, b, c, d):
    o1, o2, o3, o4 = _orient(a, b, c), _orient(a, b, d), _orient(c, d, a), _orient(c, d, b)
    if ((o1 > 0) != (o2 > 0)) and o1 != 0 and o2 != 0 and ((o3 > 0) != (o4 > 0)) and o3 != 0 and o4 != 0:
        return True
    return (o1 == 0 and _on(a, b, c)) or (o2 == 0 and _on(a, b, d)) or (o3 == 0 and _on(c, d, a)) or (o4 == 0 and _on(c, d, b))


def is_simple(vs):
    """Distinct vertices; non-adjacent edges disjoint; adjacent edges meet only in their vertex
    (a straight angle is allowed: a vertex in the middle of a straight side)."""
    n = len(vs)
    for i in range(n):
        a, b, c = vs[i - 1], vs[i], vs[(i + 1) % n]
        if _orient(a, b, c) == 0 and (a[0] - b[0]) * (c[0] - b[0]) + (a[1] - b[1]) * (c[1] - b[1]) > 0:
            return False
    if n == 3:
        return _orient(*vs) != 0
    for i in range(n):
        for j in range(i + 1, n):
            if j == i + 1 or (i == 0 and j == n - 1):
                continue
            if _seg_meet(vs[i - 1], vs[i], vs[j - 1], vs[j]):
                return False
    return True


def poly_class(vs):
    n = len(vs)
    area2 = sum(vs[i - 1][0] * vs[i][1] - vs[i][0] * vs[i - 1][1] for i in range(n))
    turns = [_orient(vs[i - 1], vs[i], vs[(i + 1) % n]) for i in range(n)]
    convex = all(t >= 0 for t in turns) or all(t <= 0 for t in turns)
    horiz = any(vs[i - 1][1] == vs[i][1] for i in range(n))
    return f"n={n} {'ccw' if area2 > 0 else 'cw'} {'convex' if convex else 'concave'}{' horiz-edge' if horiz else ''}"


# ----------------------------------------------------------------------------- model side
def rs(x):
    f = core.frac(x)
    return f"{f.numerator}/{f.denominator}"


def query_line(op, tol, verts, pts):
    return (f"{op} {rs(tol)} {len(verts)} " + " ".join(f"{rs(x)} {rs(y)}" for x, y in verts)
            + f" {len(pts)} " + " ".join(f"{rs(x)} {rs(y)}" for x, y in pts))


def run_driver(lines):
    """Own copy of Ctx.driver so that pool workers can each run a driver process."""
    if not lines:
        return []
    try:
        r = subprocess.run([str(EXE)], input="\n".join(lines) + "\n", capture_output=True, text=True, timeout=3000)
    except (OSError, subprocess.TimeoutExpired):
        return None
    out = r.stdout.splitlines()
    if r.returncode != 0 or len(out) != len(lines):
        return None
    return out


# ----------------------------------------------------------------------------- workers
_PPC = None
_USE_MODEL = True


def _impl():
    global _PPC
    if _PPC is None:
        from ghedesigner.shape import point_polygon_check
        _PPC = point_polygon_check
    return _PPC


def _new_stats():
    return {"hist": Counter(), "bad_pred": [], "bad_corr": [], "n": 0, "min_margin": math.inf, "model_failed": 0,
            "skipped": 0, "oracle_bad": []}


def _merge(into, st):
    into["hist"].update(st["hist"])
    into["bad_pred"] += st["bad_pred"]
    into["bad_corr"] += st["bad_corr"]
    into["oracle_bad"] += st["oracle_bad"]
    into["n"] += st["n"]
    into["skipped"] += st["skipped"]
    into["model_failed"] += st["model_failed"]
    into["min_margin"] = min(into["min_margin"], st["min_margin"])
    into.setdefault("mutated", []).extend(st.get("mutated", []))


def _dyadic(verts, p):
    """All coordinates are multiples of 2^-10 below 2^15: the float evaluation of the cross product is exact."""
    return all(abs(x) < 32768 and x * 1024 == int(x * 1024) for v in list(verts) + [p] for x in v)


def _judge(st, stream, verts_f, pts_f, tol_f, impl, model, exps, infos, predicate=True):
    """Compare implementation / model / oracle for one (polygon, tolerance) and many points."""
    for k, p in enumerate(pts_f):
        st["n"] += 1
        info = infos[k]
        if info is not None:
            # float rounding may decide: exact band value within NEAR of a positive tolerance (for tol <= 0 the
            # float comparison `abs(..) < tol` is false whatever the rounding), or a cross product below NEAR on a
            # counted edge (an exactly zero one is kept when the inputs are dyadic, so that floats are exact)
            near = (info["kind"] in ("inside", "outside") and info["cmin"] < NEAR
                    and not (info["cmin"] == 0 and _dyadic(verts_f, p)))
            if tol_f > 0 and (info["undecided"] or info["margin"] < NEAR):
                near = True
            if near:
                st["skipped"] += 1
                st["hist"][f"{stream}: skipped near-boundary"] += 1
                continue
        if predicate:
            st["min_margin"] = min(st["min_margin"], info["margin"])
            st["hist"][f"{stream}: tol={tol_f:g} {info['kind']} / {info['align']}"] += 1
            if impl[k] != exps[k] and len(st["bad_pred"]) < 20:
                st["bad_pred"].append({"stream": stream, "contour": [list(v) for v in verts_f], "point": list(p), "tol": tol_f,
                                       "impl": impl[k], "expected": exps[k], "kind": info["kind"], "align": info["align"],
                                       "crossings": info["crossings"]})
        else:
            st["hist"][f"{stream}: tol={tol_f:g} (correspondence only) impl={impl[k]}"] += 1
        if model is not None and model[k] != impl[k] and len(st["bad_corr"]) < 20:
            st["bad_corr"].append({"stream": stream, "contour": [list(v) for v in verts_f], "point": list(p), "tol": tol_f,
                                   "impl": impl[k], "model": model[k]})


def lattice_worker(job):
    """job = (list of vertex-index tuples, tolerances with predicate, tolerances correspondence-only)."""
    polys, tols_pred, tols_corr = job
    ppc = _impl()
    st = _new_stats()
    pts2 = [(int(2 * x), int(2 * y)) for x, y in HALF_PTS]
    all_tols = [(t, True) for t in tols_pred] + [(t, False) for t in tols_corr]
    lines = []
    work = []
    for idx in polys:
        vs = [LAT[i] for i in idx]
        vf = [(float(x), float(y)) for x, y in vs]
        v2 = [(2 * x, 2 * y) for x, y in vs]
        cls = poly_class(vs)
        for tol, pred in all_tols:
            impl = [ppc(vf, p, on_edge_tolerance=tol) for p in HALF_PTS]
            st["hist"]["lattice polygons: " + cls] += 1
            if pred:
                tq = 2 * Fraction(tol)  # coordinates doubled -> distances doubled
                res = [oracle(v2, p2, tq) for p2 in pts2]
                exps = [r[0] for r in res]
                infos = [r[1] for r in res]
                for inf in infos:
                    inf["margin"] /= 2
            else:
                exps, infos = None, [None] * len(HALF_PTS)
            work.append((vf, tol, impl, exps, infos, pred))
            if _USE_MODEL:
                lines.append(query_line("ppc", tol, vf, HALF_PTS))
    out = run_driver(lines) if _USE_MODEL else None
    if _USE_MODEL and out is None:
        st["model_failed"] += 1
    for j, (vf, tol, impl, exps, infos, pred) in enumerate(work):
        model = None
        if out is not None:
            try:
                model = [int(x) for x in out[j].split()]
                if len(model) != len(HALF_PTS):
                    model = None
            except ValueError:
                model = None
            if model is None:
                st["model_failed"] += 1
        _judge(st, "lattice", vf, HALF_PTS, tol, impl, model, exps, infos, predicate=pred)
    return st


def random_worker(job):
    """job = list of cases {contour, points, tol, predicate, stream, cutout}"""
    ppc = _impl()
    from ghedesigner.feature_recognition import remove_cutout
    st = _new_stats()
    lines = []
    work = []
    for case in job:
        vf = [tuple(map(float, v)) for v in case["contour"]]
        pts = [tuple(map(float, p)) for p in case["points"]]
        tol = case["tol"]
        pred = case.get("predicate", True) and tol > 0
        if tol == TOL_DEFAULT and case.get("use_default", False):
            impl = [ppc(vf, p) for p in pts]  # the default argument itself
        else:
            impl = [ppc(vf, p, on_edge_tolerance=tol) for p in pts]
        vq = [(Fraction(x), Fraction(y)) for x, y in vf]
        res = [oracle(vq, (Fraction(p[0]), Fraction(p[1])), Fraction(tol)) for p in pts]
        exps, infos = [r[0] for r in res], [r[1] for r in res]
        st["hist"][f"{case['stream']} polygons: {case.get('shape', '?')}"] += 1
        st["hist"][f"{case['stream']} polygons: n={len(vf)}"] += 1
        work.append((case, vf, pts, tol, impl, exps, infos, pred))
        if _USE_MODEL:
            lines.append(query_line("ppc", tol, vf, pts))
        # remove_cutout wiring: default tolerance and flags, judged with the oracle at tol = 0.01
        if case.get("cutout") and pred:
            res2 = [oracle(vq, (Fraction(p[0]), Fraction(p[1])), Fraction(TOL_CUTOUT)) for p in pts]
            safe = [k for k, r in enumerate(res2) if not r[1]["undecided"] and r[1]["margin"] >= NEAR
                    and not (r[1]["kind"] in ("inside", "outside") and r[1]["cmin"] < NEAR)]  # cmin = 0 cannot occur here
            sp = [list(pts[k]) for k in safe]
            ex = [res2[k][0] for k in safe]
            for rem_in, keep_c in ((True, True), (True, False), (False, True), (False, False)):
                got = remove_cutout(sp, [list(v) for v in vf], remove_inside=rem_in, keep_contour=keep_c)
                if rem_in:
                    want = [q for q, e in zip(sp, ex) if e != 1 and not (e == 0 and not keep_c)]
                else:
                    want = [q for q, e in zip(sp, ex) if e == 1 or (e == 0 and keep_c)]
                st["hist"][f"remove_cutout calls remove_inside={rem_in} keep_contour={keep_c}"] += 1
                if [list(g) for g in got] != want and len(st["bad_pred"]) < 20:
                    st["bad_pred"].append({"stream": "remove_cutout", "contour": [list(v) for v in vf], "points": sp,
                                           "remove_inside": rem_in, "keep_contour": keep_c, "tol": TOL_CUTOUT,
                                           "impl": [list(g) for g in got], "expected": want, "kind": "remove_cutout",
                                           "align": f"remove_inside={rem_in},keep_contour={keep_c}"})
    out = run_driver(lines) if _USE_MODEL else None
    if _USE_MODEL and out is None:
        st["model_failed"] += 1
    for j, (case, vf, pts, tol, impl, exps, infos, pred) in enumerate(work):
        model = None
        if out is not None:
            try:
                model = [int(x) for x in out[j].split()]
                if len(model) != len(pts):
                    model = None
            except ValueError:
                model = None
            if model is None:
                st["model_failed"] += 1
        _judge(st, case["stream"], vf, pts, tol, impl, model, exps, infos, predicate=pred)
        if pred and "expect" in case:
            for k, e in enumerate(case["expect"]):
                if e is not None and exps[k] != e:
                    st["oracle_bad"].append({"contour": case["contour"], "point": case["points"][k], "oracle": exps[k], "pinned": e})
    return st


# ----------------------------------------------------------------------------- random generators
def _snap(rng, x, mode):
    if mode == "quarter":
        return round(x * 4) / 4
    if mode == "decimal":
        return round(x, 1)
    return x


def gen_polygon(rng):
    shape = rng.choice(["star", "star", "convex", "comb", "comb", "rect", "triangle"])
    mode = rng.choice(["real", "real", "quarter", "decimal"])
    cx, cy = rng.uniform(0, 80), rng.uniform(0, 80)
    if shape in ("star", "convex", "triangle"):
        n = 3 if shape == "triangle" else rng.randint(3, 12)
        for _ in range(50):
            ang = sorted(rng.uniform(0, 2 * math.pi) for _ in range(n))
            if all((ang[(i + 1) % n] - ang[i]) % (2 * math.pi) < math.pi * 0.95 for i in range(n)):
                break
        else:
            ang = [2 * math.pi * i / n for i in range(n)]
        if shape == "convex":
            ra, rb = rng.uniform(2, 40), rng.uniform(2, 40)
            vs = [(cx + ra * math.cos(a), cy + rb * math.sin(a)) for a in ang]
        else:
            r0 = rng.uniform(2, 40)
            vs = [(cx + (r := r0 * rng.uniform(0.25, 1.0)) * math.cos(a), cy + r * math.sin(a)) for a in ang]
    elif shape == "rect":
        w, h = rng.uniform(1, 60), rng.uniform(1, 60)
        vs = [(cx, cy), (cx + w, cy), (cx + w, cy + h), (cx, cy + h)]
    else:  # comb: rectangle with teeth cut from the top, many horizontal / vertical edges and level vertices
        teeth = rng.randint(1, 2) if rng.random() < 0.7 else rng.randint(1, 4)
        w, h = rng.uniform(4, 60), rng.uniform(4, 60)
        k = 2 * teeth + 1
        xs = sorted(rng.uniform(0, w) for _ in range(k - 1))
        xs = [0.0] + xs + [w]
        depth = [rng.uniform(0.2, 0.9) * h for _ in range(teeth)]
        if rng.random() < 0.5:
            depth = [depth[0]] * teeth  # all notch bottoms level with each other
        vs = [(cx, cy), (cx + w, cy)]
        top = []
        for t in range(k, 0, -1):  # walk the top from right to left
            lo, hi = xs[t - 1], xs[t]
            if t % 2 == 0:  # notch
                d = depth[(t // 2) - 1]
                top += [(cx + hi, cy + h - d), (cx + lo, cy + h - d)]
            else:
                top += [(cx + hi, cy + h), (cx + lo, cy + h)]
        vs += top
        if len(vs) > 12:
            vs = vs[:2] + top[:10]
    vs = [(_snap(rng, x, mode), _snap(rng, y, mode)) for x, y in vs]
    # drop consecutive duplicates created by snapping
    out = []
    for v in vs:
        if not out or v != out[-1]:
            out.append(v)
    if len(out) > 1 and out[0] == out[-1]:
        out.pop()
    if len(out) < 3:
        return gen_polygon(rng)
    if rng.random() < 0.5:
        out.reverse()
    r = rng.randrange(len(out))
    out = out[r:] + out[:r]
    return out, shape, mode


def gen_points(rng, vs, tol, m):
    xs, ys = [v[0] for v in vs], [v[1] for v in vs]
    x0, x1, y0, y1 = min(xs), max(xs), min(ys), max(ys)
    dx, dy = (x1 - x0) * 0.25 + 1, (y1 - y0) * 0.25 + 1
    pts = []
    n = len(vs)
    for _ in range(m):
        k = rng.random()
        i = rng.randrange(n)
        a, b = vs[i - 1], vs[i]
        if k < 0.35:
            p = (rng.uniform(x0 - dx, x1 + dx), rng.uniform(y0 - dy, y1 + dy))
        elif k < 0.55:   # level with a vertex
            p = (rng.uniform(x0 - dx, x1 + dx), b[1])
        elif k < 0.63:   # a vertex itself
            p = b
        elif k < 0.73:   # on an edge (up to rounding)
            t = rng.random()
            p = (a[0] + t * (b[0] - a[0]), a[1] + t * (b[1] - a[1]))
        elif k < 0.88:   # near an edge: inside / outside the band (half-width ~ sqrt(tol*L/2) mid-edge)
            t = rng.uniform(0.05, 0.95)
            L = math.hypot(b[0] - a[0], b[1] - a[1]) or 1.0
            hw = math.sqrt(max(tol, 1e-6) * L / 2)
            off = hw * rng.choice([0.2, 0.6, 0.9, 1.1, 1.5, 3.0, 10.0]) * rng.choice([-1, 1])
            nx, ny = -(b[1] - a[1]) / L, (b[0] - a[0]) / L
            p = (a[0] + t * (b[0] - a[0]) + off * nx, a[1] + t * (b[1] - a[1]) + off * ny)
        elif k < 0.95:   # collinear with an edge, beyond its end
            t = rng.choice([-1, 1]) * rng.uniform(0.05, 1.5)
            t = t + 1 if t > 0 else t
            p = (a[0] + t * (b[0] - a[0]), a[1] + t * (b[1] - a[1]))
        else:            # level with a vertex and vertically aligned with another
            p = (vs[rng.randrange(n)][0], b[1])
        pts.append((float(p[0]), float(p[1])))
    return pts


LEVEL_OFFSETS = ("ulp+", "ulp-", 1e-12, -1e-12, 1e-10, -1e-10, 1e-8, -1e-8)


def _off_level(vy, off):
    """A y that is close to, but never equal to, the vertex level `vy`."""
    if off == "ulp+" or off == "ulp-":
        if vy == 0.0:
            return 2.0 ** -80 if off == "ulp+" else -(2.0 ** -80)   # normal numbers instead of denormals
        return math.nextafter(vy, math.inf if off == "ulp+" else -math.inf)
    y = vy + off
    if y == vy:
        y = math.nextafter(vy, math.inf if off > 0 else -math.inf)
    return y


def _level_xs(vs, y):
    """Abscissae where the horizontal line at height y meets the outline (floats; only used to place test points)."""
    xs = []
    for i in range(len(vs)):
        a, b = vs[i - 1], vs[i]
        if a[1] != b[1] and min(a[1], b[1]) <= y <= max(a[1], b[1]):
            xs.append(a[0] + (y - a[1]) * (b[0] - a[0]) / (b[1] - a[1]))
    return sorted(xs)


def gen_near_level_points(rng, vs, n_vertices):
    """Points whose y is 1 ulp / 1e-12 / 1e-10 / 1e-8 above or below a vertex level (never equal), with x to the left of
    the outline, to the right of it, between consecutive crossings of that level, and just beside the vertex.  In exact
    arithmetic these are ordinary points (py != vy is a strict fact), so the half-open vertex rule must NOT apply."""
    allx = [v[0] for v in vs]
    x0, x1 = min(allx), max(allx)
    w = (x1 - x0) or 1.0
    pts = []
    idx = list(range(len(vs)))
    rng.shuffle(idx)
    for i in idx[:n_vertices]:
        vx, vy = vs[i]
        for off in LEVEL_OFFSETS:
            y = _off_level(vy, off)
            cr = _level_xs(vs, y)
            mids = [(cr[k] + cr[k + 1]) / 2 for k in range(len(cr) - 1) if cr[k + 1] - cr[k] > 1e-3 * w]
            cand = [x0 - 0.3 * w - 1.0 if rng.random() < 0.5 else x1 + 0.3 * w + 1.0,
                    vx - rng.uniform(0.02, 0.3) * w if rng.random() < 0.7 else vx + rng.uniform(0.02, 0.3) * w]
            if mids:
                cand.append(rng.choice(mids))
            pts += [(float(x), float(y)) for x in cand]
    return pts


def lattice_near_level_case(idx, tol):
    """A lattice polygon with points a hair off every vertex level, x between the lattice columns."""
    vs = [(float(LAT[i][0]), float(LAT[i][1])) for i in idx]
    pts = []
    for vy in sorted({v[1] for v in vs}):
        for off in LEVEL_OFFSETS:
            y = _off_level(vy, off)
            pts += [(-0.25 + 0.5 * k, y) for k in range(8)]
    return {"contour": vs, "points": pts, "tol": tol, "stream": "near-level lattice", "shape": f"n={len(vs)}"}


# ----------------------------------------------------------------------------- remove_cutout with several outlines
FLAGS = ((True, True), (True, False), (False, True), (False, False))
CLASS_NAME = {1: "inside", 0: "on-contour", -1: "outside"}


def _shape_outline(rng, prev):
    """One outline with integer vertices in [0, 9]^2; with a previous outline, often sharing an edge or a corner."""
    k = rng.random()
    if prev is not None and k < 0.3:
        # triangle or rectangle standing on an edge of the previous outline (touching along that edge)
        i = rng.randrange(len(prev))
        a, b = prev[i - 1], prev[i]
        if a[1] == b[1] and a[0] != b[0]:
            h = rng.choice([-3, -2, 2, 3, 4])
            if rng.random() < 0.5:
                return [a, b, ((a[0] + b[0]) // 2, a[1] + h)]
            return [a, b, (b[0], b[1] + h), (a[0], a[1] + h)]
        if a[0] == b[0] and a[1] != b[1]:
            h = rng.choice([-3, -2, 2, 3, 4])
            return [a, b, (b[0] + h, b[1]), (a[0] + h, a[1])]
    if k < 0.75:
        x0, y0 = rng.randint(0, 6), rng.randint(0, 6)
        w, h = rng.randint(2, 6), rng.randint(2, 6)
        return [(x0, y0), (x0 + w, y0), (x0 + w, y0 + h), (x0, y0 + h)]
    for _ in range(200):
        n = rng.choice([3, 4, 5])
        vs = [LAT[i] for i in rng.sample(range(16), n)]
        if is_simple(vs):
            f, ox, oy = rng.choice([1, 2]), rng.randint(0, 3), rng.randint(0, 3)
            return [(f * x + ox, f * y + oy) for x, y in vs]
    return [(0, 0), (4, 0), (4, 4), (0, 4)]


def gen_outline_set(rng):
    n = rng.choice([2, 2, 3])
    outs = []
    for _ in range(n):
        o = _shape_outline(rng, outs[-1] if outs and rng.random() < 0.8 else None)
        if rng.random() < 0.5:
            o = o[::-1]
        outs.append([(int(x), int(y)) for x, y in o])
    xs = [v[0] for o in outs for v in o]
    ys = [v[1] for o in outs for v in o]
    pts = [(x / 2.0, y / 2.0) for x in range(2 * min(xs) - 2, 2 * max(xs) + 3) for y in range(2 * min(ys) - 2, 2 * max(ys) + 3)]
    if len(pts) > 450:
        pts = rng.sample(pts, 450)
    k = rng.random()
    tol = None if k < 0.5 else (TOL_CUTOUT if k < 0.8 else TOL_DEFAULT)   # None: remove_cutout's own default
    return {"outlines": outs, "points": pts, "tol": tol, "container": rng.choice(["list", "list", "tuple", "ndarray-float"])}


def _contain(outline, kind):
    import numpy as np
    if kind == "tuple":
        return tuple((float(x), float(y)) for x, y in outline)
    if kind == "ndarray-float":
        return np.array(outline, dtype=float)
    if kind == "ndarray-int":
        return np.array(outline, dtype=np.int64)
    if kind == "list-of-tuples":
        return [(float(x), float(y)) for x, y in outline]
    return [[float(x), float(y)] for x, y in outline]


def cutout_worker(job):
    """remove_cutout with 2-3 overlapping / touching outlines, every listing order, all four flag combinations.
    Expected (reading taken from the unchanged loop: every outline is classified, `inside in results` is tested before
    `on_edge in results`): a point is inside if it is inside ANY outline, on-contour if it is on the contour of some
    outline and inside none, outside otherwise; remove_inside keeps outside (+ on-contour if keep_contour), otherwise
    inside (+ on-contour if keep_contour); order of the coordinates preserved; independent of the listing order."""
    from itertools import permutations as perms
    from ghedesigner.feature_recognition import remove_cutout
    st = _new_stats()
    lines, line_of = [], {}
    results = []
    for ci, case in enumerate(job):
        outs = [[(int(x), int(y)) for x, y in o] for o in case["outlines"]] if all(
            float(x) == int(x) and float(y) == int(y) for o in case["outlines"] for x, y in o) else None
        tol_f = TOL_CUTOUT if case["tol"] is None else case["tol"]
        # exact per-outline classes (coordinates doubled: integers), near-boundary points dropped from the query
        pts, classes = [], []
        for p in case["points"]:
            cl, ok = [], True
            for o in case["outlines"]:
                if outs is not None and 2 * p[0] == int(2 * p[0]) and 2 * p[1] == int(2 * p[1]):
                    e, inf = oracle([(2 * int(x), 2 * int(y)) for x, y in o], (int(2 * p[0]), int(2 * p[1])), 2 * Fraction(tol_f))
                    inf["margin"] /= 2
                else:
                    e, inf = oracle([(Fraction(x), Fraction(y)) for x, y in o], (Fraction(p[0]), Fraction(p[1])), Fraction(tol_f))
                if inf["undecided"] or inf["margin"] < NEAR or (inf["kind"] in ("inside", "outside") and 0 < inf["cmin"] < NEAR):
                    ok = False
                cl.append(e)
            if ok:
                pts.append([float(p[0]), float(p[1])])
                classes.append(cl)
            else:
                st["skipped"] += 1
        comb = [1 if 1 in cl else (0 if 0 in cl else -1) for cl in classes]
        n_out = len(case["outlines"])
        orders = list(perms(range(n_out))) if "order" not in case else [tuple(case["order"])]
        if _USE_MODEL:
            for ri, kc in FLAGS:
                line_of[(ci, ri, kc)] = len(lines)
                lines.append(f"rco {int(ri)} {int(kc)} {rs(tol_f)} M {n_out} "
                             + " ".join(f"{len(o)} " + " ".join(f"{rs(x)} {rs(y)}" for x, y in o) for o in case["outlines"])
                             + f" {len(pts)} " + " ".join(f"{rs(x)} {rs(y)}" for x, y in pts))
        for order in orders:
            for ri, kc in FLAGS:
                bounds = [_contain(case["outlines"][i], case.get("container", "list")) for i in order]
                args = dict(remove_inside=ri, keep_contour=kc)
                if case["tol"] is not None:
                    args["on_edge_tolerance"] = case["tol"]
                try:
                    got = [[float(g[0]), float(g[1])] for g in remove_cutout([list(q) for q in pts], bounds, **args)]
                except Exception as e:  # noqa: BLE001
                    got = f"raise {type(e).__name__}: {e}"
                if ri:
                    want = [q for q, c in zip(pts, comb) if c == -1 or (c == 0 and kc)]
                else:
                    want = [q for q, c in zip(pts, comb) if c == 1 or (c == 0 and kc)]
                st["n"] += len(pts) * n_out
                st["hist"][f"remove_cutout multi-outline: {n_out} outlines, remove_inside={ri} keep_contour={kc}, {case.get('container', 'list')}"] += 1
                results.append((ci, order, ri, kc, got))
                if got != want and len(st["bad_pred"]) < 20:
                    if isinstance(got, str):
                        sig, q, detail = "raises", None, got
                    else:
                        gs, ws = {tuple(g) for g in got}, {tuple(w) for w in want}
                        wk = [q for q in got if tuple(q) not in ws]
                        wd = [q for q in want if tuple(q) not in gs]
                        q = (wk or wd or [None])[0]
                        if q is None:
                            sig, detail = "order-or-duplicates", "same set, different sequence"
                        else:
                            cl = [classes[pts.index(q)][i] for i in order]
                            sig = ("wrongly-kept" if wk else "wrongly-dropped") + "-" + "+".join(
                                sorted({CLASS_NAME[c] for c in cl if c != -1}) or ["outside-all"])
                            detail = (f"point {q} has per-outline classes {cl} in listing order (combined "
                                      f"{CLASS_NAME[comb[pts.index(q)]]}) and is {'kept' if wk else 'dropped'}")
                    st["bad_pred"].append({
                        "kind": "remove_cutout_multi", "key": f"remove-cutout-multi-ri={ri}-kc={kc}-{sig}",
                        "what": (f"remove_cutout(remove_inside={ri}, keep_contour={kc}, on_edge_tolerance={case['tol'] if case['tol'] is not None else 'default'}) "
                                 f"with outlines {[case['outlines'][i] for i in order]} ({case.get('container', 'list')}): {detail}; "
                                 f"kept {len(got) if not isinstance(got, str) else got} of {len(pts)} points, expected {len(want)}"),
                        "outlines": case["outlines"], "order": list(order), "points": pts, "witness": q, "tol": case["tol"],
                        "container": case.get("container", "list"), "remove_inside": ri, "keep_contour": kc,
                        "impl": got if isinstance(got, str) else len(got), "expected": len(want)})
        for cl in comb:
            st["hist"][f"remove_cutout multi-outline points: {CLASS_NAME[cl]}"] += 1
        for cl in classes:
            if 0 in cl and 1 in cl:
                st["hist"]["remove_cutout multi-outline points: on the contour of one outline and inside another"] += 1
    out = run_driver(lines) if _USE_MODEL else None
    if _USE_MODEL and out is None:
        st["model_failed"] += 1
    if out is not None:
        for ci, order, ri, kc, got in results:
            o = out[line_of[(ci, ri, kc)]]
            if not o.startswith("ok"):
                if o in ("bad-op", "bad-arg"):
                    st["hist"]["remove_cutout multi-outline: model command unavailable"] += 1
                    continue
                model = o
            else:
                body = o[2:].strip()
                model = [] if body in ("", "_") else [[float(core.pr(t.split(",")[0])), float(core.pr(t.split(",")[1]))] for t in body.split()]
            if model != got and len(st["bad_corr"]) < 20:
                st["bad_corr"].append({"stream": "remove_cutout multi-outline", "outlines": job[ci]["outlines"], "order": list(order),
                                       "remove_inside": ri, "keep_contour": kc, "tol": job[ci]["tol"],
                                       "impl": got if isinstance(got, str) else len(got), "model": model if isinstance(model, str) else len(model)})
    return st


# ----------------------------------------------------------------------------- call history / argument types
def _snapshot(obj):
    import numpy as np
    if isinstance(obj, np.ndarray):
        return ("ndarray", obj.dtype.str, obj.shape, obj.tobytes())
    return (type(obj).__name__, tuple((type(v).__name__, tuple((type(x).__name__, float(x).hex()) for x in v)) for v in obj))


def history_worker(job):
    """The same contour OBJECT is classified several times (list of lists, list of tuples, tuple of tuples, float ndarray,
    int ndarray); every answer is judged by the oracle on the ORIGINAL coordinates and the caller's object must be bitwise
    unchanged after every call."""
    import numpy as np
    ppc = _impl()
    st = _new_stats()
    for case in job:
        vf = [(float(x), float(y)) for x, y in case["contour"]]
        tol = case["tol"]
        vq = [(Fraction(x), Fraction(y)) for x, y in vf]
        pts = [(float(x), float(y)) for x, y in case["points"]]
        res = [oracle(vq, (Fraction(p[0]), Fraction(p[1])), Fraction(tol)) for p in pts]
        integral = all(x == int(x) and y == int(y) for x, y in vf)
        kinds = case.get("containers") or (["list", "list-of-tuples", "tuple", "ndarray-float"] + (["ndarray-int"] if integral else []))
        for kind in kinds:
            obj = _contain(vf, kind)
            snap = _snapshot(obj)
            modified_at = None
            hist = []
            st["hist"][f"call history: contour as {kind}"] += 1
            for k, p in enumerate(pts):
                arg = p if k % 3 == 0 else (list(p) if k % 3 == 1 else np.array(p))
                try:
                    got = int(ppc(obj, arg, on_edge_tolerance=tol))
                except Exception as e:  # noqa: BLE001
                    got = f"raise {type(e).__name__}: {e}"
                hist.append({"point": list(p), "impl": got, "expected": res[k][0]})
                st["n"] += 1
                if modified_at is None and _snapshot(obj) != snap:
                    modified_at = k
                inf = res[k][1]
                if inf["undecided"] or inf["margin"] < NEAR or (inf["kind"] in ("inside", "outside") and 0 < inf["cmin"] < NEAR):
                    st["skipped"] += 1
                    continue
                if got != res[k][0] and len(st["bad_pred"]) < 20:
                    after = modified_at is not None and modified_at < k
                    st["bad_pred"].append({
                        "kind": "history", "key": f"ppc-history-{kind}-" + ("wrong-after-input-modified-in-place" if after else
                                                                            f"expected{res[k][0]}-got{got if isinstance(got, int) else 'raise'}"),
                        "what": (f"call {k + 1} on the same {kind} contour {[list(v) for v in vf]}: point_polygon_check(contour, {list(p)}, "
                                 f"on_edge_tolerance={tol}) = {got}, expected {res[k][0]}"
                                 + (f"; call {modified_at + 1} modified the caller's contour in place (now "
                                    f"{np.asarray(obj).tolist()})" if after else "")),
                        "contour": [list(v) for v in vf], "contour_type": kind, "tol": tol, "points": [list(q) for q in pts[:k + 1]],
                        "calls": hist[:k + 1], "input_modified_by_call": None if modified_at is None else modified_at + 1})
                    break
            if modified_at is not None:
                st["hist"][f"call history: caller's {kind} contour modified in place"] += 1
                st.setdefault("mutated", []).append({"contour_type": kind, "contour": [list(v) for v in vf], "tol": tol,
                                                    "after_call": modified_at + 1, "point": list(pts[modified_at])})
    return st


# ----------------------------------------------------------------------------- corpus / replay
def load_corpus():
    cases = []
    d = core.CORPUS / "C16"
    if d.is_dir():
        for f in sorted(d.glob("*.json")):
            data = json.loads(f.read_text())
            for c in (data if isinstance(data, list) else [data]):
                c = dict(c)
                c.setdefault("tol", TOL_DEFAULT)
                c["stream"] = "corpus"
                c.setdefault("shape", f.stem)
                cases.append(c)
    return cases


def replay_case(path):
    d = json.loads(open(path).read())
    r = d.get("replay", d)
    if r.get("kind") == "remove_cutout_multi":
        return {"replay_kind": "cutout", "outlines": r["outlines"], "order": r["order"], "points": r["points"], "tol": r["tol"],
                "container": r.get("container", "list")}
    if r.get("kind") == "history":
        return {"replay_kind": "history", "contour": r["contour"], "points": r["points"], "tol": r["tol"], "containers": [r["contour_type"]]}
    pts = r.get("points") or [r["point"]]
    return {"contour": r["contour"], "points": pts, "tol": r.get("tol", TOL_DEFAULT), "stream": "replay", "shape": "replay",
            "cutout": r.get("kind") == "remove_cutout"}


# ----------------------------------------------------------------------------- run
def _chunks(items, n):
    k = max(1, (len(items) + n - 1) // n)
    return [items[i:i + k] for i in range(0, len(items), k)]


def run(ctx: core.Ctx):
    global _USE_MODEL
    ctx.rule = ("lattice stream: every vertex sequence of 3 and 4 (thorough: also 5, and a seeded 10 % of 6) distinct points of the "
                "4x4 integer lattice that forms a simple polygon (every rotation and both orientations are separate sequences) x all 81 "
                "half-integer points of [0,4]^2 x tolerances 0.001, 0.01 and 0.02 (predicate + correspondence; quick tier: 0.01 and 0.02 on all triangles and a seeded quarter of the rest) and 0 (correspondence only); "
                "random stream: star / convex / comb / rectangle / triangle polygons with 3-12 real, quarter-snapped or decimal-snapped "
                "vertices, both orientations, points uniform / level with a vertex / on a vertex / on an edge / around the band edge / "
                "collinear beyond an edge end; near-level streams (every tier): for every random polygon (2 vertices) and a seeded sample of "
                "lattice polygons (every vertex level) points whose y is 1 ulp, 1e-12, 1e-10, 1e-8 above / below the vertex level (never equal), "
                "x left of / right of the outline, beside the vertex and between consecutive crossings; remove_cutout multi-outline stream: 2-3 "
                "overlapping / touching integer outlines (lists, tuples or float ndarrays), every listing order, all four (remove_inside, "
                "keep_contour) combinations, half-integer points of the joint bounding box; call-history stream: the same contour object "
                "(list / tuples / float ndarray / int ndarray) queried 10 times, caller's object compared bitwise after each call; a case = one (vertex sequence, tolerance) with all its points, distinct = distinct such "
                "pairs, non-trivial = all (each evaluates both loops on every point); evaluations = classifications")
    ctx.trusted_base += [
        "translator translate/gen_polygon.py (+ py2lean): per-edge decisions, return values, default tolerances of point_polygon_check; "
        "AST pin of the loop skeleton and of the first (square-root) loop",
        "hand-written model Model/Polygon.lean (edge traversal, control flow, exact square-root cascade), tied to the code by the "
        "exhaustive lattice run and the random run (outputs compared exactly)",
        "oracle in harness/c16.py: integer / Fraction crossing number and integer-square-root interval test of the band",
        "CPython float rounding: inputs whose exact band value is within 1e-9 of the tolerance or whose exact cross product is below "
        "1e-9 on a counted edge are counted as near-boundary and skipped",
    ]
    ctx.assumptions += [
        "odd crossing number = topological interior for simple polygons (Jordan curve theorem) is not proved",
        "'within the edge tolerance' is the source's own band |pA|+|pB|-|AB| < tol (an ellipse with foci at the edge ends)",
        "well-formed input: a list of (x, y) number pairs and a number pair",
    ]
    ok = ctx.lean_prepare()
    ping = ctx.driver(["ping"]) if EXE.exists() else None
    _USE_MODEL = ping == ["pong"]
    if not _USE_MODEL and "driver: executable missing" not in ctx.broken:
        ctx.broken.append("ppc-correspondence: driver unavailable")
    _impl()
    import ghedesigner
    ctx.extra["implementation_file"] = str(ghedesigner.__file__)
    ctx.extra["lean_ok"] = ok
    rng = ctx.rng
    total = _new_stats()
    t_phase = time.time()

    def phase(name):
        nonlocal t_phase
        ctx.extra.setdefault("phase_s", {})[name] = round(time.time() - t_phase, 1)
        ctx.log(f"{name}: {time.time() - t_phase:.1f}s, classifications so far {total['n']}")
        t_phase = time.time()
    phase("lean_prepare")

    # ------------------------------------------------------------ replay only
    if ctx.replay:
        rc = replay_case(ctx.replay)
        worker = {"cutout": cutout_worker, "history": history_worker}.get(rc.get("replay_kind"), random_worker)
        st = worker([rc])
        _merge(total, st)
        ctx.case(("replay", json.dumps(rc.get("contour", rc.get("outlines"))), rc["tol"]), True, {"replay": ctx.replay})
        ctx.cases += len(rc["points"]) - 1
        _report(ctx, total, polys=1)
        return

    # ------------------------------------------------------------ corpus first
    corpus = load_corpus()
    if corpus:
        _merge(total, random_worker(corpus))
        for c in corpus:
            ctx.case(("corpus", json.dumps(c["contour"]), c["tol"]), True)
            ctx.cases += len(c["points"]) - 1

    phase("corpus")
    # ------------------------------------------------------------ points a hair off a vertex level (every tier)
    # lattice sample: all sizes that exist on the lattice up to 6 vertices, seeded
    nl_rng = random.Random(ctx.seed * 104729 + 16)
    n_lat = 250 if ctx.tier == "quick" else 3000
    nl_cases = []
    tries = 0
    while len(nl_cases) < n_lat and tries < 200 * n_lat:
        tries += 1
        s = tuple(nl_rng.sample(range(16), nl_rng.choice([3, 4, 4, 5, 6])))
        if is_simple([LAT[i] for i in s]):
            nl_cases.append(lattice_near_level_case(s, nl_rng.choice([TOL_DEFAULT, TOL_DEFAULT, TOL_CUTOUT])))
    for st in core.pool_map(random_worker, _chunks(nl_cases, 64)):
        _merge(total, st)
    for c in nl_cases:
        ctx.case(("near-level lattice", tuple(c["contour"]), c["tol"]), True)
        ctx.cases += len(c["points"]) - 1
    ctx.samples.append({"stream": "near-level lattice", "contour": nl_cases[0]["contour"], "tol": nl_cases[0]["tol"],
                        "points": nl_cases[0]["points"][:3]})
    phase("near-level lattice stream")
    # ------------------------------------------------------------ call history / argument types (every tier)
    h_rng = random.Random(ctx.seed * 32452843 + 16)
    h_cases = []
    for j in range(150 if ctx.tier == "quick" else 1500):
        if j % 2 == 0:   # lattice polygon moved off the origin by an integer offset (int ndarray possible)
            while True:
                sidx = h_rng.sample(range(16), h_rng.choice([3, 4, 5]))
                if is_simple([LAT[i] for i in sidx]):
                    break
            ox, oy = h_rng.choice([0, 3, 7, 40]), h_rng.choice([0, 2, 5, 100])
            vs = [(float(LAT[i][0] + ox), float(LAT[i][1] + oy)) for i in sidx]
            pts = [(x + ox, y + oy) for x, y in h_rng.sample(HALF_PTS, 8)]
            tol = h_rng.choice([TOL_DEFAULT, TOL_CUTOUT])
        else:
            vs, _, _ = gen_polygon(h_rng)
            tol = h_rng.choice([TOL_DEFAULT, TOL_CUTOUT])
            pts = gen_points(h_rng, vs, tol, 8)
        pts = pts + [pts[0], pts[1]]   # the first queries again at the end
        h_cases.append({"contour": vs, "points": pts, "tol": tol})
    for st in core.pool_map(history_worker, _chunks(h_cases, 64)):
        _merge(total, st)
    for c in h_cases:
        ctx.case(("call history", tuple(c["contour"]), c["tol"]), True)
        ctx.cases += len(c["points"]) - 1
    ctx.samples.append({"stream": "call history", "contour": h_cases[0]["contour"], "tol": h_cases[0]["tol"], "points": h_cases[0]["points"][:3],
                        "containers": "list of lists, list of tuples, tuple of tuples, float ndarray, int ndarray (integral vertices)"})
    phase("call-history stream")
    # ------------------------------------------------------------ remove_cutout with several outlines (every tier)
    co_rng = random.Random(ctx.seed * 15485863 + 16)
    co_cases = [gen_outline_set(co_rng) for _ in range(120 if ctx.tier == "quick" else 1500)]
    for st in core.pool_map(cutout_worker, _chunks(co_cases, 64)):
        _merge(total, st)
    for c in co_cases:
        ctx.case(("remove_cutout multi", json.dumps(c["outlines"]), c["tol"], c["container"]), True)
    ctx.samples.append({"stream": "remove_cutout multi-outline", "outlines": co_cases[0]["outlines"], "tol": co_cases[0]["tol"],
                        "container": co_cases[0]["container"], "points": f"{len(co_cases[0]['points'])} half-integer points",
                        "orders": "every listing order", "flags": "all four (remove_inside, keep_contour)"})
    ctx.extra["remove_cutout_multi_outline_reading"] = (
        "expected result taken from the unchanged code's loop (every outline is classified for every coordinate, `inside in "
        "boundary_results` is tested before `on_edge in boundary_results`): inside wins over on-contour across outlines, "
        "independent of the listing order")
    phase("remove_cutout multi-outline stream")
    # ------------------------------------------------------------ lattice stream (exhaustive)
    sizes = [3, 4] if ctx.tier == "quick" else [3, 4, 5, 6]
    lat_polys = []
    for n in sizes:
        if n <= 5:
            seqs = permutations(range(16), n)
        else:
            sub = random.Random(ctx.seed * 7919 + 6)
            seqs = (s for s in permutations(range(16), n) if sub.random() < 0.10)
        cand = list(seqs)
        flags = core.pool_map(_simple_idx, _chunks(cand, 64))
        keep = [s for ch, fl in zip(_chunks(cand, 64), flags) for s, f in zip(ch, fl) if f]
        ctx.count(f"lattice simple {n}-gons (of {len(cand)} sequences{' sampled 10 %' if n == 6 else ''})", len(keep))
        lat_polys += keep
    rng.shuffle(lat_polys)  # balance the chunks
    phase("lattice enumeration")
    # quick tier: tolerances 0.01 (same answers as 0.001 on this lattice: no value in [0.001, 0.01)) and 0.02 on all
    # triangles and a seeded quarter of the larger polygons; 0.001 and 0 on everything
    wide = [s for s in lat_polys if ctx.tier != "quick" or len(s) == 3 or rng.random() < 0.25]
    wide_set = set(wide)
    rest = [s for s in lat_polys if s not in wide_set]
    csz = 64 if ctx.tier == "quick" else 256
    jobs = [(ch, [TOL_DEFAULT, TOL_CUTOUT, TOL_WIDE], [0.0]) for ch in _chunks(wide, csz)] \
        + [(ch, [TOL_DEFAULT], [0.0]) for ch in _chunks(rest, csz)]
    ctx.count("lattice polygons also run with tol=0.01 and tol=0.02", len(wide))
    for st in core.pool_map(lattice_worker, jobs):
        _merge(total, st)
    for s in lat_polys:
        code = 0
        for i in s:
            code = code * 17 + i + 1
        nt = 4 if s in wide_set else 2
        for t in range(nt):
            ctx.case(code * 4 + t, True)
        ctx.cases += nt * (len(HALF_PTS) - 1)
    ctx.samples.append({"stream": "lattice", "contour": [LAT[i] for i in lat_polys[0]], "points": "81 half-integer points", "tols": [0.001, 0.01, 0.02, 0.0]})

    phase("lattice stream")
    # ------------------------------------------------------------ random stream
    n_rand = 2500 if ctx.tier == "quick" else 20000
    cases = []
    for j in range(n_rand):
        vs, shape, mode = gen_polygon(rng)
        k = rng.random()
        tol = TOL_DEFAULT if k < 0.4 else TOL_CUTOUT if k < 0.75 else rng.choice([1e-4, 0.05, 0.5, 0.0, -0.001, 2.0])
        pts = gen_points(rng, vs, tol, 40)
        cases.append({"contour": vs, "points": pts, "tol": tol, "stream": "random", "shape": f"{shape}/{mode}",
                      "use_default": tol == TOL_DEFAULT and j % 2 == 0, "cutout": j % 5 == 0})
        cases.append({"contour": vs, "points": gen_near_level_points(rng, vs, 2), "tol": tol, "stream": "near-level random",
                      "shape": f"{shape}/{mode}", "use_default": tol == TOL_DEFAULT and j % 2 == 1})
    for st in core.pool_map(random_worker, _chunks(cases, 64)):
        _merge(total, st)
    for c in cases:
        ctx.case((c["stream"], tuple(c["contour"]), c["tol"]), True)
        ctx.cases += len(c["points"]) - 1
    ctx.samples.append({"stream": "random", **{k: cases[0][k] for k in ("contour", "tol", "shape")}, "points": cases[0]["points"][:3]})

    phase("random stream")
    # ------------------------------------------------------------ model branch kinds on the triangles (cheap)
    if _USE_MODEL:
        tri = [s for s in lat_polys if len(s) == 3][:400]
        out = ctx.driver([query_line("ppck", t, [(float(LAT[i][0]), float(LAT[i][1])) for i in s], HALF_PTS)
                          for s in tri for t in (TOL_DEFAULT, 0.0)])
        if out:
            kc = Counter()
            for j, l in enumerate(out):
                for tok in l.split():
                    kc[("tol=0.001 " if j % 2 == 0 else "tol=0 ") + tok] += 1
            for k, v in kc.items():
                ctx.count("model branch (B band, Z c==0, I inside, O outside) " + k, v)

    _report(ctx, total, polys=len(lat_polys) + len(cases) + len(corpus))
    ctx.exhaustive = False
    ctx.extra["exhaustive_part"] = ("all simple 3- and 4-vertex sequences" + (" and 5-vertex sequences" if ctx.tier != "quick" else "")
                                    + " of the 4x4 lattice x 81 half-integer points x tolerances {0.001, 0.01, 0.02, 0}")
    if ctx.tier == "thorough":
        ctx.leanchecker(["GHEVerif.Props.C16", "GHEVerif.Lemmas.Polygon", "GHEVerif.Model.Polygon", "GHEVerif.Gen.Polygon"])


def _simple_idx(chunk):
    return [is_simple([LAT[i] for i in s]) for s in chunk]


def _report(ctx, total, polys):
    for k, v in total["hist"].items():
        ctx.count(k, v)
    ctx.programs = 2  # point_polygon_check, remove_cutout
    ctx.extra["classifications"] = total["n"]
    ctx.extra["near_boundary_skipped"] = total["skipped"]
    ctx.extra["min_band_margin"] = None if total["min_margin"] == math.inf else total["min_margin"]
    ctx.extra["polygons"] = polys
    if total["model_failed"]:
        ctx.infra(f"driver failed on {total['model_failed']} batch(es)/line(s)")
    for ob in total["oracle_bad"][:3]:
        ctx.infra(f"oracle disagrees with a pinned corpus expectation: {ob}")
    # correspondence
    if total["bad_corr"]:
        ctx.disagreements_checked += len(total["bad_corr"])
        if "ppc-correspondence" not in ctx.broken:
            ctx.broken.append("ppc-correspondence")
        ctx.extra["ppc_first_disagreement"] = total["bad_corr"][0]
        ctx.log("model/implementation disagreement:", json.dumps(total["bad_corr"][0]))
    if total.get("mutated"):
        ctx.extra["caller_contour_modified_in_place"] = total["mutated"][:3]
        if not any(b.get("kind") == "history" for b in total["bad_pred"]) and "ppc-modifies-caller-contour" not in ctx.broken:
            ctx.broken.append("ppc-modifies-caller-contour")   # history independence broken, no wrong classification found
    # predicate: one finding per failure signature
    seen = set()
    for b in total["bad_pred"]:
        if "key" in b:
            key, what = b["key"], b["what"]
        elif b["kind"] == "remove_cutout":
            key = f"remove-cutout-{b['align']}"
            what = (f"remove_cutout(remove_inside/keep_contour = {b['align']}) kept {len(b['impl'])} of {len(b['points'])} points, "
                    f"the crossing-number/band oracle at tol=0.01 keeps {len(b['expected'])}")
        else:
            key = f"ppc-expected{b['expected']}-got{b['impl']}-{b['kind']}-{b['align']}"
            what = (f"point_polygon_check({b['contour']}, {b['point']}, on_edge_tolerance={b['tol']}) = {b['impl']} but the "
                    f"crossing-number definition / tolerance band gives {b['expected']} ({b['kind']}, {b['align']}, crossings={b['crossings']})")
        if key in seen:
            continue
        seen.add(key)
        ctx.finding(key, what, b)
