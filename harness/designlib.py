"""Real, full design runs (GHEManager.find_design) with in-process instrumentation, shared by
C01, C02, C12 (and reused by others).  One run = one JSON-able record:

  cfg summary, outcome (design | exception type), every calculate_excess call (where, index,
  height, excess), every solve_root call (end values, result), the summary object the tool
  reports, and two independent re-simulations of the returned design (oracles (a) and (b) of
  DESIGN.md C01).

Records are cached per (tier, seed, hash of /repo sources) under /verif/.cache so that the
three checks share the runs.
"""
from __future__ import annotations

import functools
import hashlib
import json
import math
import os
import time
import traceback
from pathlib import Path

import core
import ghelib

CACHE = core.VERIF / ".cache"


def repo_hash():
    h = hashlib.sha256()
    for p in sorted((ghelib.REPO / "ghedesigner").rglob("*")):
        if p.is_file() and p.suffix in (".py", ".json") and "tests" not in p.parts:
            h.update(p.name.encode())
            h.update(p.read_bytes())
    return h.hexdigest()[:16]


# ----------------------------------------------------------------------------- generation
GEOMS = ["NEARSQUARE", "RECTANGLE", "BIRECTANGLE", "BIZONEDRECTANGLE", "BIRECTANGLECONSTRAINED", "ROWWISE"]


def make_geom(rng, kind):
    if kind == "NEARSQUARE":
        return ("NEARSQUARE", rng.choice([4.0, 5.0, 6.5]), rng.choice([30.0, 45.0, 60.0]))
    length, width = rng.choice([(40.0, 30.0), (55.0, 36.5), (30.0, 48.0), (45.0, 45.0)])
    if kind == "BIZONEDRECTANGLE" and rng.random() < 0.5:
        length, width = 30.0, 20.0      # a small lot: the answer falls among the partially filled perimeter fields (L, U, open rectangle)
    b_min = rng.choice([4.0, 5.0, 6.0])
    if kind == "RECTANGLE":
        return ("RECTANGLE", length, width, b_min, rng.choice([10.0, 12.0]))
    if kind in ("BIRECTANGLE", "BIZONEDRECTANGLE"):
        return (kind, length, width, b_min, rng.choice([10.0, 12.0]), rng.choice([10.0, 12.0]))
    if kind == "BIRECTANGLECONSTRAINED":
        prop = rng.choice([
            [[0.0, 0.0], [length, 0.0], [length, width], [0.0, width]],
            [[0.0, 0.0], [length, 0.0], [length, width * 0.6], [length * 0.5, width], [0.0, width]],
            [[2.0, 1.0], [length, 3.0], [length - 4.0, width], [3.0, width - 2.0]],
        ])
        nogo = rng.choice([[], [[[length * 0.3, width * 0.3], [length * 0.5, width * 0.3], [length * 0.5, width * 0.55], [length * 0.3, width * 0.55]]]])
        return (kind, b_min, 10.0, 12.0, prop, nogo)
    if kind == "ROWWISE":
        prop = rng.choice([
            [[5.0, 5.0], [31.0, 7.0], [27.0, 26.0], [6.0, 22.0]],
            [[2.0, 2.0], [42.0, 2.0], [42.0, 27.0], [2.0, 27.0]],
            [[0.0, 0.0], [40.0, 0.0], [40.0, 30.0], [0.0, 30.0]],
        ])
        nogo = rng.choice([[], []])
        per = rng.choice([None, None, 0.8])
        max_rot, min_rot = rng.choice([(10.0, -10.0), (10.0, 0.0), (0.5, -0.5), (45.0, -45.0)])
        return (kind, per, rng.choice([10.0, 12.0]), rng.choice([5.0, 6.0]), rng.choice([1.0, 2.0]),
                max_rot, min_rot, rng.choice([5.0, 10.0, 15.0]), prop, nogo)
    raise ValueError(kind)


def make_cfgs(rng, n, months_choices=(12, 13, 24)):
    cfgs = []
    for i in range(n):
        geom_kind = GEOMS[i % len(GEOMS)]
        pipe = ghelib.PIPE_KINDS[(i // len(GEOMS) + i) % 4]
        phys = ghelib.default_physics() if rng.random() < 0.25 else ghelib.random_physics(rng)
        # design fluid temperature: the default 20 C, or a cold-climate value for antifreeze mixtures (and cool water)
        phys["fluid_temp"] = [20.0, 20.0, 8.0, 2.0][i % 4] if phys["fluid"][0] != "Water" else [20.0, 12.0][i % 2]
        kind, scale, loads = ghelib.make_profile(rng, kind=rng.choice(["atlanta", "atlanta", "atlanta_neg", "balanced", "spiky", "constant", "heating_only", "cooling_only"]),
                                                 scale=rng.choice([10 ** rng.uniform(-1.7, -0.2)] * 5 + [10 ** rng.uniform(-3.0, -1.7), 10 ** rng.uniform(-0.2, 0.9)]))
        # height windows: round metres, a very narrow one, and bounds converted from feet (sub-millimetre digits, float noise)
        window = rng.choice([(60.0, 135.0), (60.0, 135.0), (30.0, 90.0), (100.0, 200.0), (80.0, 80.5), (60.99048, 125.2728), (45.72, 114.30000000000001)])
        cfg = {
            "id": i,
            "phys": phys,
            "pipe": pipe,
            "profile": kind,
            "scale": scale,
            "loads": loads,
            "months": rng.choice(list(months_choices)),
            "max_eft": rng.choice([35.0, 32.0, 38.0]),
            "min_eft": rng.choice([5.0, 2.0, 0.0]),
            "min_h": window[0],
            "max_h": window[1],
            "max_boreholes": rng.choice([None, None, None, 5, 12, 40]),
            "cont": rng.random() < 0.4,
            "geom": make_geom(rng, geom_kind),
            "flow": phys["flow"],
            "flow_type": rng.choice(["BOREHOLE", "BOREHOLE", "SYSTEM"]),
            "nominal_height": rng.choice([phys["borehole"][0], 1.0, 500.0]),
        }
        if cfg["flow_type"] == "SYSTEM":
            cfg["flow"] = round(cfg["flow"] * rng.choice([4, 12, 30]), 3)
        # force every outcome of the search into every sample and every design method: across the
        # rounds r = i // 6 each geometry g = i % 6 gets (r + g) % 4 = 1: unmet-but-continued at the
        # maximum height (loads far too large), = 2: at the minimum height (negligible loads),
        # = 3: loads far too large without the flag (the error), = 0: random
        forced = (i // len(GEOMS) + i % len(GEOMS)) % 4
        # ordinary searches also see plants that are off for whole months (exactly zero load), in both directions
        if forced == 0 and i % 3 != 1:
            pk = ["cooling_seasonal", "heating_seasonal"][(i // len(GEOMS)) % 2]
            _, _, base_loads = ghelib.make_profile(rng, kind=pk, scale=1.0)
            cfg["profile"], cfg["loads"] = pk, [x * cfg["scale"] for x in base_loads]
        if forced == 0 and geom_kind == "BIZONEDRECTANGLE":
            # a small lot whose answer falls among the partially filled perimeter fields (several candidates share one descriptor there)
            sc = [0.13, 0.16, 0.19, 0.22][(i // len(GEOMS) + int(rng.random() * 4)) % 4]
            cfg.update({"phys": {**ghelib.default_physics(), "fluid_temp": 20.0}, "pipe": "SINGLEUTUBE", "profile": "atlanta", "scale": sc,
                        "loads": [x * sc for x in ghelib.atlanta_loads()], "months": 12, "max_eft": 35.0, "min_eft": 5.0, "min_h": 60.0, "max_h": 135.0,
                        "max_boreholes": None, "cont": False, "geom": ("BIZONEDRECTANGLE", 30.0, 20.0, 5.0, 10.0, 12.0), "flow_type": "BOREHOLE",
                        "nominal_height": 96.0})
            cfg["flow"] = cfg["phys"]["flow"]
            phys = cfg["phys"]
        # both flow specifications on ordinary (not forced) searches of every design method
        if forced == 0 and cfg["flow_type"] != "SYSTEM":
            cfg["flow_type"], cfg["flow"] = "SYSTEM", round(cfg["flow"] * (4, 12, 30)[i % 3], 3)
        elif forced == 3 and i % 3 != 0 and cfg["flow_type"] != "BOREHOLE":
            cfg["flow_type"], cfg["flow"] = "BOREHOLE", phys["flow"]
        if forced == 1:
            cfg["scale"], cfg["cont"], cfg["profile"] = 6.0 + (i % 5), True, "atlanta"
            cfg["loads"] = [x * cfg["scale"] for x in ghelib.atlanta_loads()]
        elif forced == 2:
            # negligible loads: mixed, rejection only and extraction only (the excess may then RISE with the height)
            pk = ["atlanta", "cooling_seasonal", "heating_seasonal"][(i // len(GEOMS)) % 3]
            cfg["scale"], cfg["cont"], cfg["profile"] = 0.002, True, pk
            cfg["loads"] = [x * cfg["scale"] for x in ghelib.make_profile(rng, kind=pk, scale=1.0)[2]]
        elif forced == 3 and i % 3 == 0:
            cfg["scale"], cfg["cont"], cfg["profile"] = 6.0 + (i % 3), False, "atlanta_neg"
            cfg["loads"] = [-x * cfg["scale"] for x in ghelib.atlanta_loads()]
        cfgs.append(cfg)
    # call history across managers: some ordinary runs are preceded, in the same process, by the design of a
    # sibling project that differs in exactly one physical input
    twins = ["grout_k", "shank", "pipe_k", "grout_rho_cp", "grout_k", "shank", "soil_k", "fluid"]
    n_tw = 0
    for i, cfg in enumerate(cfgs):
        forced = (i // len(GEOMS) + i % len(GEOMS)) % 4
        if forced == 0 or (forced == 3 and i % 3 != 0):        # the ordinary (not forced) searches
            cfg["twin_first"] = twins[n_tw % len(twins)]
            n_tw += 1
    for i, cfg in enumerate(cfgs):
        if i % 5 == 2:
            cfg["late_reconfig"] = True      # set_simulation_parameters for the NEXT scenario before prepare_results of this one
    # history: every third configuration is followed, ON THE SAME MANAGER, by a second project that
    # re-applies only the loads and the geometry (simulation parameters, borehole, pipe, media are
    # left as they are) and calls set_design / find_design again; the same final configuration is
    # also run on a fresh manager (appended to the list) so that the two can be compared
    extra = []
    for i, cfg in enumerate(list(cfgs)):
        if (i // len(GEOMS) + i) % 3 != 1:      # every design method gets followers across the rounds
            continue
        kind, scale, loads = ghelib.make_profile(rng, kind=rng.choice(["atlanta", "atlanta_neg", "balanced"]),
                                                 scale=cfg["scale"] * rng.choice([0.2, 0.5, 3.0, 8.0]))
        g2 = make_geom(rng, rng.choice([cfg["geom"][0], GEOMS[(GEOMS.index(cfg["geom"][0]) + 1) % len(GEOMS)]]))
        b = {**cfg, "id": len(cfgs) + len(extra), "profile": kind, "scale": scale, "loads": loads, "geom": g2, "follows": cfg["id"], "follow_mode": "partial"}
        if len(extra) % 2 == 1:
            # every second follower is a COMPLETE re-configuration of the same manager (all setters called
            # again): nothing of project A may survive.  Two kinds alternate: "horizon" — another horizon,
            # other limits, another grout, ordinary loads, no cap, no continue flag (so the result is judged
            # strictly); "policy" — the continue flag flipped and another cap
            ph = dict(cfg["phys"])
            ph["grout"] = (round(min(2.5, max(0.6, ph["grout"][0] * rng.choice([0.5, 1.6]))), 3), ph["grout"][1])
            b.update({"follow_mode": "full", "phys": ph,
                      "months": rng.choice([mm for mm in months_choices if mm != cfg["months"]] or [cfg["months"] + 12]),
                      "max_eft": rng.choice([v for v in (35.0, 32.0, 38.0) if v != cfg["max_eft"]]),
                      "min_eft": rng.choice([v for v in (5.0, 2.0, 0.0) if v != cfg["min_eft"]])})
            if (len(extra) // 2) % 2 == 0:
                sc = 10 ** rng.uniform(-1.6, -0.8)
                b.update({"follow_kind": "horizon", "cont": False, "max_boreholes": None, "profile": "atlanta", "scale": sc,
                          "loads": [x * sc for x in ghelib.atlanta_loads()]})
                if b["months"] < cfg["months"]:
                    b["months"] = cfg["months"] + 12          # a LONGER horizon than project A's
            else:
                b.update({"follow_kind": "policy", "cont": not cfg["cont"],
                          "max_boreholes": rng.choice([v for v in (None, 5, 12, 40) if v != cfg.get("max_boreholes")])})
        cfg.pop("late_reconfig", None)     # a manager that is used for a second project keeps the parameters project A was run with
        cfg["followed_by"] = {k: v for k, v in b.items()}
        extra.append(b)
    return cfgs + extra


# ----------------------------------------------------------------------------- instrumentation
class Recorder:
    def __init__(self):
        self.evals = []      # dicts: where, idx, list, h, excess, nbh, spec
        self.roots = []      # dicts: lower, upper, f_lower, f_upper, result, iters
        self.sizes = []      # (nbh, H after size)
        self.nested = None   # the design's coordinates_domain_nested (Bisection2D empties its own attribute)


def _locate(search, coords, nested_ref=None):
    nested = nested_ref if nested_ref is not None else getattr(search, "coordinates_domain_nested", None)
    dom = getattr(search, "coordinates_domain", None)
    if nested:
        for l, lst in enumerate(nested):
            if dom is lst:
                for i, f in enumerate(lst):
                    if f is coords:
                        return "inner", l, i
    if dom is not None:
        for i, f in enumerate(dom):
            if f is coords:
                return ("outer" if nested is not None else "flat"), None, i
    return "free", None, None


def instrument(rec: Recorder):
    """Context manager patching the real classes in place (restored on exit)."""
    import contextlib

    import ghedesigner.ground_heat_exchangers as ghx
    import ghedesigner.search_routines as sr

    @contextlib.contextmanager
    def cm():
        saved = []

        def wrap_ce(cls):
            orig = cls.calculate_excess

            @functools.wraps(orig)
            def w(self, coordinates, h, field_specifier="N/A"):
                v = orig(self, coordinates, h, field_specifier=field_specifier)
                where, l, i = _locate(self, coordinates, rec.nested)
                last = self.searchTracker[-1]
                rec.evals.append({"where": where, "list": l, "idx": i, "h": float(h), "excess": float(v), "nbh": len(coordinates),
                                  "spec": str(field_specifier), "max_eft": float(last[2]), "min_eft": float(last[3]),
                                  "mflow": float(self.ghe.bhe.m_flow_borehole), "vsys": float(self.ghe.V_flow_system),
                                  "rho": float(self.ghe.bhe.fluid.rho)})
                return v

            saved.append((cls, "calculate_excess", orig))
            cls.calculate_excess = w

        wrap_ce(sr.Bisection1D)
        wrap_ce(sr.RowWiseModifiedBisectionSearch)
        orig_root = ghx.solve_root

        def root(x, objective_function, lower=None, upper=None, abs_tol=1.0e-6, rel_tol=1.0e-6, max_iter=50):
            its = []

            def f(h):
                v = objective_function(h)
                its.append((float(h), float(v)))
                return v

            r = orig_root(x, f, lower=lower, upper=upper, abs_tol=abs_tol, rel_tol=rel_tol, max_iter=max_iter)
            rec.roots.append({"lower": float(lower), "upper": float(upper), "f_lower": its[0][1], "f_upper": its[1][1],
                              "result": float(r), "iters": its[2:]})
            return r

        saved.append((ghx, "solve_root", orig_root))
        ghx.solve_root = root
        orig_size = ghx.GHE.size

        @functools.wraps(orig_size)
        def size(self, method):
            orig_size(self, method)
            rec.sizes.append((len(self.gFunction.bore_locations), float(self.bhe.b.H)))

        saved.append((ghx.GHE, "size", orig_size))
        ghx.GHE.size = size
        try:
            yield
        finally:
            for obj, name, orig in reversed(saved):
                setattr(obj, name, orig)

    return cm()


# ----------------------------------------------------------------------------- oracles
def resimulate(cfg, coords, height, at_returned_height: bool, base_height=None):
    """Fresh objects only.  (a) tool pipeline: GHE built at max_height, 3-height g-function, then H :=
    returned height.  (b) everything (borehole, g-function, hybrid load) built at the returned height."""
    from ghedesigner.enums import TimestepType
    from ghedesigner.gfunction import calc_g_func_for_multiple_lengths
    from ghedesigner.ground_heat_exchangers import GHE
    from ghedesigner.simulation import SimulationParameters
    from ghedesigner.utilities import borehole_spacing, eskilson_log_times

    phys = dict(cfg["phys"])
    base = cfg["max_h"] if base_height is None else base_height
    phys["borehole"] = (height if at_returned_height else base, phys["borehole"][1], phys["borehole"][2])
    # mirror the manager: pipe built through the same setter arithmetic
    m = ghelib.build_manager({**cfg, "phys": phys, "nominal_height": phys["borehole"][0]})
    fluid, pipe, grout, soil, borehole, bhe_type = m._fluid, m._pipe, m._grout, m._soil, m._borehole, m.pipe_type
    fluid = ghelib.independent_fluid(phys)       # the fluid the user asked for (name, concentration, design temperature), not the manager's copy nor the package's class
    sim = SimulationParameters(1, cfg["months"], cfg["max_eft"], cfg["min_eft"], cfg["max_h"], cfg["min_h"])
    n = len(coords)
    v = cfg["flow"]
    v_sys = v * n if cfg.get("flow_type", "BOREHOLE") == "BOREHOLE" else v
    m_bh = v_sys / n / 1000.0 * fluid.rho
    b = borehole_spacing(borehole, coords)
    with ghelib.quiet():
        if at_returned_height:
            g = calc_g_func_for_multiple_lengths(b, [height], borehole.r_b, borehole.D, m_bh, bhe_type, eskilson_log_times(), coords, fluid, pipe, grout, soil)
            ghe = GHE(v_sys, b, bhe_type, fluid, borehole, pipe, grout, soil, g, sim, cfg["loads"])
        else:
            g = calc_g_func_for_multiple_lengths(b, [borehole.H], borehole.r_b, borehole.D, m_bh, bhe_type, eskilson_log_times(), coords, fluid, pipe, grout, soil)
            ghe = GHE(v_sys, b, bhe_type, fluid, borehole, pipe, grout, soil, g, sim, cfg["loads"])
            ghe.compute_g_functions()
            ghe.bhe.b.H = height
        mx, mn = ghe.simulate(method=TimestepType.HYBRID)
    return float(mx), float(mn)


# ----------------------------------------------------------------------------- one run
def run_design(cfg):
    os.environ["OMP_NUM_THREADS"] = "1"
    t0 = time.time()
    rec = Recorder()
    out = {"id": cfg["id"], "cfg": {k: v for k, v in cfg.items() if k != "loads"}, "loads_sha": hashlib.sha256(repr(cfg["loads"]).encode()).hexdigest()[:12]}
    try:
        if cfg.get("twin_first"):
            # another design directly before, in this process, on its own manager: the same project except for
            # ONE physical input (anything the first leaves behind in module-level state must not reach the second)
            try:
                with ghelib.quiet():
                    ghelib.build_manager(twin_cfg(cfg)).find_design()
                out["twin_first"] = cfg["twin_first"]
            except Exception as e:  # noqa: BLE001
                out["twin_first"] = f"{cfg['twin_first']} (raised {type(e).__name__})"
        with ghelib.quiet(), instrument(rec):
            m = ghelib.build_manager(cfg)
            design = m._design
            dom = getattr(design, "coordinates_domain", None)
            nested = getattr(design, "coordinates_domain_nested", None)
            rec.nested = nested
            out["counts"] = [len(f) for f in dom] if dom is not None else None
            out["nested_counts"] = [[len(f) for f in lst] for lst in nested] if nested is not None else None
            out["desc_len0"] = len(design.fieldDescriptors[0]) if nested is not None and design.fieldDescriptors else None
            try:
                m.find_design()
                out["outcome"] = "design"
            except Exception as e:  # noqa: BLE001
                out["outcome"] = "ValueError" if isinstance(e, ValueError) else "raise " + type(e).__name__
                out["message"] = str(e)[:200]
                out["tb"] = traceback.format_exc().splitlines()[-3:]
            if out["outcome"] == "design":
                s = m._search
                ghe = s.ghe
                coords = [list(map(float, c)) for c in ghe.gFunction.bore_locations]
                out.update(nbh=len(coords), H=float(ghe.bhe.b.H), coords=coords,
                           sel_key=getattr(s, "selection_key", None),
                           live_max=float(max(ghe.hp_eft)), live_min=float(min(ghe.hp_eft)),
                           m_flow_borehole=float(ghe.bhe.m_flow_borehole), field_specifier=str(ghe.fieldSpecifier))
                if hasattr(s, "advanced_tracking"):
                    out["rw_tracking"] = [[(float(x) if isinstance(x, (int, float)) else x) for x in row] for row in s.advanced_tracking[1:]]
                if hasattr(s, "calculated_heights"):
                    out["zd_heights"] = {str(k): float(v) for k, v in s.calculated_heights.items()}
                    out["zd_selected_keys"] = {str(k): int(v) for k, v in getattr(s, "selected_keys_nested", {}).items()}
                if cfg.get("late_reconfig"):
                    # the user moves on to the next scenario before asking for the results of this one
                    m.set_simulation_parameters(cfg["months"] + 12, cfg["max_eft"] - 4.0, cfg["min_eft"] + 3.0, cfg["max_h"] + 65.0, cfg["min_h"] + 40.0, None, False)
                    out["late_reconfig"] = True
                try:
                    m.prepare_results("p", "n", "a", "i")
                except Exception as e:  # noqa: BLE001  (e.g. horizons that are not whole years: months[i - 1] IndexError)
                    out["summary_error"] = f"{type(e).__name__}: {e}"
                od = m.results.output_dict if m.results is not None else None
                if od is not None:
                  out["summary"] = {
                    "number_of_boreholes": od["ghe_system"]["number_of_boreholes"],
                    "total_drilling": od["ghe_system"]["total_drilling"]["value"],
                    "active_borehole_length": od["ghe_system"]["active_borehole_length"]["value"],
                    "max_hp_eft": od["simulation_results"]["max_hp_eft"]["value"],
                    "min_hp_eft": od["simulation_results"]["min_hp_eft"]["value"],
                    "bore_rows": len(m.results.borehole_location_data_rows) - 1,
                    "bore_rows_match": [list(map(float, r)) for r in m.results.borehole_location_data_rows[1:]] == coords,
                    "log": [[str(r[0]), float(r[1]), float(r[2]), float(r[3])] for r in od["design_selection_search_log"]["data"]],
                    "flow_per_bh": od["ghe_system"].get("fluid_mass_flow_rate_per_borehole", {}).get("value"),
                    "sim_params": {k: (v["value"] if isinstance(v, dict) else v) for k, v in od.get("simulation_parameters", {}).items()},
                  }
        out["evals"] = rec.evals
        out["roots"] = rec.roots
        out["sizes"] = rec.sizes
        # evaluation-log faithfulness: up to three logged evaluations are re-done from fresh objects IN A
        # FRESH PROCESS (oracle_job) exactly as the search stage does; here only the picks are recorded
        try:
            out["eval_picks"] = pick_evals(cfg, out, m._design if "m" in dir() else None)
        except Exception as e:  # noqa: BLE001
            out["eval_checks_error"] = f"{type(e).__name__}: {e}"
        if cfg.get("followed_by") is not None and "m" in dir():
            out["second"] = second_project(m, cfg["followed_by"])
        if out["outcome"] == "design":
            # the searches build their final GHE (and its hybrid load) at max_height, except the
            # "loads too small" continue_if_design_unmet fallback, which builds it at min_height
            base = cfg["max_h"]
            fe = final_search_evals(out)
            # (BisectionZD re-initialises the selected field at max_height at the end of search_successive)
            if cfg.get("cont") and cfg["geom"][0] in ("NEARSQUARE", "RECTANGLE", "BIRECTANGLE") and len(fe) >= 3 and \
                    classify_pre(fe[0]["excess"], fe[1]["excess"], fe[2]["excess"]) == "tooSmall":
                base = cfg["min_h"]
            out["oracle_base_height"] = base
    except Exception as e:  # noqa: BLE001  infrastructure problem inside the worker
        out["outcome"] = "harness-error"
        out["message"] = f"{type(e).__name__}: {e}"
        out["tb"] = traceback.format_exc().splitlines()[-6:]
    out["wall_s"] = round(time.time() - t0, 2)
    return out


def boundary_chain(arg):
    """A returned design whose sizing root sits a tolerance-scale distance inside one end of the
    height window: starting from an ordinary run (root H*), the window end is moved to H* -/+ 2 cm
    and then, from the excess recorded at that end, to where the excess at the end is about 3e-3 K
    (between the sizing tolerance 1e-3 K and ten times it).  Returns [(boundary info, record)]."""
    cfg, h_star, side, first_id = arg
    res = []
    key = "min_h" if side == "low" else "max_h"
    sgn = -1.0 if side == "low" else 1.0
    bound = h_star + sgn * 0.02
    for step in range(2):
        c = {k: v for k, v in cfg.items() if k not in ("followed_by", "follows")}
        c.update({"id": first_id + step, key: bound, "boundary_of": cfg["id"], "boundary_side": side})
        if not (0 < c["min_h"] < c["max_h"]):
            break
        r = run_design(c)
        r["boundary"] = {"of": cfg["id"], "side": side, key: bound}
        res.append(r)
        root = r["roots"][-1] if r.get("outcome") == "design" and r.get("roots") else None
        if root is None:
            break
        f_end = root["f_lower"] if side == "low" else root["f_upper"]
        dist = abs(r["H"] - bound)
        if not (f_end * sgn < 0 and dist > 0):       # low end: excess > 0 there; high end: < 0
            break
        slope = abs(f_end) / dist
        bound = r["H"] + sgn * 3e-3 / slope
    return res


def boundary_cfg(cfgs_by_id, rec):
    b = rec["boundary"]
    base = cfgs_by_id[b["of"]]
    c = {k: v for k, v in base.items() if k not in ("followed_by", "follows")}
    c.update({"id": rec["id"], "boundary_of": b["of"], "boundary_side": b["side"]})
    c.update({k: b[k] for k in ("min_h", "max_h") if k in b})
    return c


def search_stage_excess(cfg, coords, h):
    """What calculate_excess(coords, h) must return, from fresh objects: GHE built at height h on a
    g-function computed for [h], simulated with the hybrid method."""
    from ghedesigner.enums import TimestepType
    from ghedesigner.gfunction import calc_g_func_for_multiple_lengths
    from ghedesigner.ground_heat_exchangers import GHE
    from ghedesigner.simulation import SimulationParameters
    from ghedesigner.utilities import borehole_spacing, eskilson_log_times

    phys = dict(cfg["phys"])
    phys["borehole"] = (h, phys["borehole"][1], phys["borehole"][2])
    m = ghelib.build_manager({**cfg, "phys": phys, "nominal_height": h})
    fluid, pipe, grout, soil, borehole, bhe_type = m._fluid, m._pipe, m._grout, m._soil, m._borehole, m.pipe_type
    fluid = ghelib.independent_fluid(phys)
    sim = SimulationParameters(1, cfg["months"], cfg["max_eft"], cfg["min_eft"], cfg["max_h"], cfg["min_h"])
    n = len(coords)
    v = cfg["flow"]
    v_sys = v * n if cfg.get("flow_type", "BOREHOLE") == "BOREHOLE" else v
    m_bh = v_sys / n / 1000.0 * fluid.rho
    b = borehole_spacing(borehole, coords)
    with ghelib.quiet():
        g = calc_g_func_for_multiple_lengths(b, [h], borehole.r_b, borehole.D, m_bh, bhe_type, eskilson_log_times(), coords, fluid, pipe, grout, soil)
        ghe = GHE(v_sys, b, bhe_type, fluid, borehole, pipe, grout, soil, g, sim, cfg["loads"])
        mx, mn = ghe.simulate(method=TimestepType.HYBRID)
    return float(excess_of(cfg, mx, mn))


def twin_cfg(cfg):
    """The sibling of cfg that differs in exactly the one physical input named by cfg['twin_first']."""
    ph = dict(cfg["phys"])
    what = cfg["twin_first"]
    if what == "grout_k":
        ph["grout"] = (round(ph["grout"][0] * (2.0 if ph["grout"][0] < 1.3 else 0.45), 3), ph["grout"][1])
    elif what == "soil_k":
        ph["soil"] = (round(ph["soil"][0] * (1.8 if ph["soil"][0] < 2.2 else 0.5), 3), ph["soil"][1], ph["soil"][2])
    elif what == "pipe_k":
        ph["pipe_k"] = round(ph["pipe_k"] * 1.5, 3)
    elif what == "fluid":
        ph["fluid"] = ("Water", 0.0) if ph["fluid"][0] != "Water" else ("PropyleneGlycol", 30.0)
    elif what == "grout_rho_cp":
        ph["grout"] = (ph["grout"][0], round(ph["grout"][1] * 0.55, 0))
    elif what == "shank":
        # another shank spacing that still fits the borehole (U-tubes only; coaxial has none)
        r_b = ph["borehole"][2] / 2.0
        ph["shank"] = round(max(0.004, min(0.045, 2.0 * (r_b - 0.04216) - 0.006)), 5) if ph.get("shank", 0.01856) < 0.03 else 0.01856
    else:
        raise ValueError(what)
    return {k: v for k, v in {**cfg, "phys": ph}.items() if k not in ("followed_by", "follows", "twin_first")}


def pick_evals(cfg, out, design):
    """Up to three logged evaluations (with the coordinates of their fields) to be re-done from fresh objects."""
    if design is None or cfg["geom"][0] == "ROWWISE":
        return []
    dom = getattr(design, "coordinates_domain", None)
    nested = getattr(design, "coordinates_domain_nested", None)
    picks = []
    ev = out.get("evals", [])
    flat = [e for e in ev if e["where"] in ("flat", "inner")]
    for e in flat[:2]:
        picks.append(e)
    if out.get("outcome") == "design" and out.get("sel_key"):
        last = final_search_evals(out)
        pred = [e for e in last if e["idx"] == out["sel_key"] - 1 and e["h"] == cfg["max_h"]]
        picks += pred[-1:]
    res, seen = [], set()
    for e in picks:
        key = (e["where"], e["list"], e["idx"], e["h"])
        if key in seen or not math.isfinite(e["excess"]):
            continue
        seen.add(key)
        coords = (dom[e["idx"]] if e["where"] == "flat" else nested[e["list"]][e["idx"]])
        coords = [list(map(float, c)) for c in coords]
        res.append({"where": e["where"], "list": e["list"], "idx": e["idx"], "h": e["h"], "nbh": len(coords), "logged": e["excess"], "coords": coords})
    return res


def oracle_job(arg):
    """Everything that judges a recorded run "from fresh objects" — run in a process of its own, so that
    nothing the design run left behind in module-level state can reach the judge."""
    cfg, rec, cfgb = arg
    os.environ["OMP_NUM_THREADS"] = "1"
    res = {}
    try:
        if rec.get("eval_picks"):
            res["eval_checks"] = [{**{k: v for k, v in p.items() if k != "coords"}, "fresh": search_stage_excess(cfg, p["coords"], p["h"])} for p in rec["eval_picks"]]
        if rec.get("outcome") == "design":
            res["oracle_a"] = resimulate(cfg, rec["coords"], rec["H"], at_returned_height=False, base_height=rec.get("oracle_base_height"))
            res["oracle_b"] = resimulate(cfg, rec["coords"], rec["H"], at_returned_height=True)
        sec = rec.get("second")
        if sec and sec.get("outcome") == "design" and cfgb is not None and sec.get("coords"):
            res["second_oracle_a"] = resimulate(cfgb, sec["coords"], sec["H"], at_returned_height=False)
    except Exception as e:  # noqa: BLE001
        res["oracle_error"] = f"{type(e).__name__}: {e}"
        res["tb"] = traceback.format_exc().splitlines()[-4:]
    return res


def attach_oracles(cfgs, recs):
    """Phase 2 of get_runs: the fresh-process judges for every record."""
    by_id = {c["id"]: c for c in cfgs}
    jobs = []
    for c, r in zip(cfgs, recs):
        sec = r.get("second")
        jobs.append((c, {k: r.get(k) for k in ("eval_picks", "outcome", "coords", "H", "oracle_base_height", "second")}, by_id.get(sec["id"]) if sec else None))
    for r, o in zip(recs, core.pool_map(oracle_job, jobs, workers=16, fresh=True)):
        if "oracle_error" in o:
            r["outcome_before_oracle_error"] = r["outcome"]
            r["outcome"] = "harness-error"
            r["message"] = "oracle: " + o["oracle_error"]
            continue
        r.pop("eval_picks", None)
        if "second_oracle_a" in o:
            r["second"]["oracle_a"] = o.pop("second_oracle_a")
        if r.get("second"):
            r["second"].pop("coords", None)
        r.update(o)


def second_project(m, cfgb):
    """Re-use manager `m` (already used for one project) for configuration B — partial: only the loads
    and the geometry are re-applied; full: every setter is called again — then set_design / find_design.
    The evaluations of this second search are recorded like those of the first."""
    out = {"id": cfgb["id"], "cfg": {k: v for k, v in cfgb.items() if k not in ("loads", "followed_by")}}
    rec2 = Recorder()
    try:
        with ghelib.quiet(), instrument(rec2):
            if cfgb.get("follow_mode") == "full":
                ghelib.configure(m, cfgb)
            else:
                m.set_ground_loads_from_hourly_list(cfgb["loads"])
                ghelib.set_geometry(m, cfgb["geom"])
                m.set_design(cfgb["flow"], cfgb.get("flow_type", "BOREHOLE"))
            out["mode"] = cfgb.get("follow_mode", "partial")
            rec2.nested = getattr(m._design, "coordinates_domain_nested", None)
            try:
                m.find_design()
                ghe = m._search.ghe
                coords = [list(map(float, c)) for c in ghe.gFunction.bore_locations]
                out.update(outcome="design", nbh=len(coords), H=float(ghe.bhe.b.H),
                           live_max=float(max(ghe.hp_eft)), live_min=float(min(ghe.hp_eft)),
                           max_boreholes_after=m._simulation_parameters.max_boreholes)
                out["coords"] = coords      # judged for configuration B from fresh objects in a fresh process (oracle_job)
                srch = m._search
                out["sel_key"] = getattr(srch, "selection_key", None)
                if hasattr(srch, "calculated_heights"):
                    out["zd_heights"] = {str(k): float(v) for k, v in srch.calculated_heights.items()}
            except Exception as e:  # noqa: BLE001
                out.update(outcome="ValueError" if isinstance(e, ValueError) else "raise " + type(e).__name__, message=str(e)[:200])
        out["evals"] = rec2.evals
    except Exception as e:  # noqa: BLE001
        out.update(outcome="harness-error", message=f"{type(e).__name__}: {e}")
    return out


def get_runs(ctx, n_quick=24, n_thorough=240):
    """Cached list of (cfg, record)."""
    n = n_quick if ctx.tier == "quick" else n_thorough
    import random

    rng = random.Random(ctx.seed * 7919 + 17)
    cfgs = make_cfgs(rng, n, months_choices=(12, 12, 24, 13) if ctx.tier == "quick" else (12, 13, 24, 59, 120, 240))
    CACHE.mkdir(exist_ok=True)
    gen_hash = hashlib.sha256(json.dumps([{k: (v if k != "loads" else hashlib.sha256(repr(v).encode()).hexdigest()) for k, v in c.items()} for c in cfgs],
                                         sort_keys=True, default=str).encode()).hexdigest()[:10]
    src_hash = hashlib.sha256(b"".join((Path(__file__).resolve().parent / f).read_bytes() for f in ("designlib.py", "ghelib.py"))).hexdigest()[:8]
    key = f"designs-{ctx.tier}-{ctx.seed}-{repo_hash()}-{gen_hash}-{src_hash}.json"
    path = CACHE / key
    if path.exists():
        try:
            recs = json.loads(path.read_text())
            if len([r for r in recs if "boundary" not in r]) == len(cfgs):
                by_id = {c["id"]: c for c in cfgs}
                return cfgs + [boundary_cfg(by_id, r) for r in recs if "boundary" in r], recs, True
        except Exception:  # noqa: BLE001
            pass
    recs = core.pool_map(run_design, cfgs, workers=16)
    # second phase: roots a tolerance-scale distance inside the ends of the height window
    cand = [(c, r) for c, r in zip(cfgs, recs)
            if r.get("outcome") == "design" and not is_escape(r) and r.get("roots") and "follows" not in c
            and r["roots"][-1]["f_lower"] > 0 > r["roots"][-1]["f_upper"] and c["min_h"] + 0.5 < r["H"] < c["max_h"] - 0.5]
    seen_g, picked = set(), []
    for c, r in cand:                  # one per design method first, then the rest
        if c["geom"][0] not in seen_g:
            seen_g.add(c["geom"][0])
            picked.append((c, r))
    picked += [(c, r) for c, r in cand if all(c["id"] != p[0]["id"] for p in picked)]
    n_b = 3 if ctx.tier == "quick" else 18
    args = [(c, r["H"], "high" if j % 3 == 2 else "low", 100000 + 2 * j) for j, (c, r) in enumerate(picked[:n_b])]
    chains = core.pool_map(boundary_chain, args, workers=16) if args else []
    extra = [r for ch in chains for r in ch]
    by_id = {c["id"]: c for c in cfgs}
    cfgs = cfgs + [boundary_cfg(by_id, r) for r in extra]
    recs = recs + extra
    attach_oracles(cfgs, recs)
    for old in CACHE.glob(f"designs-{ctx.tier}-{ctx.seed}-*.json"):
        old.unlink()
    path.write_text(json.dumps(recs))
    return cfgs, recs, False


# ----------------------------------------------------------------------------- model replay
SENT = 424242.0


def _outcome_real(rec):
    if rec["outcome"] == "design":
        return "selected"
    return rec["outcome"]


def replay_line(rec):
    """Line for the Lean driver that replays the search of this record on its recorded oracle, plus
    the real (outcome, selection, trace) in the model's output vocabulary.  None when not replayable."""
    from fractions import Fraction

    cfg = rec["cfg"]
    kind = cfg["geom"][0]
    cap = cfg.get("max_boreholes")
    cont = bool(cfg.get("cont"))
    lo, hi = cfg["min_h"], cfg["max_h"]
    ev = rec.get("evals", [])
    if any(not math.isfinite(e["excess"]) for e in ev):
        return None      # a NaN/inf excess (degenerate hybrid load, known finding of C06/C07) cannot go over the wire
    if kind in ("NEARSQUARE", "RECTANGLE"):
        counts = rec["counts"]
        n = len(counts)
        elo, ehi = [SENT] * n, [SENT] * n
        tr = []
        for e in ev:
            if e["where"] != "flat":
                return None
            (ehi if e["h"] == hi else elo)[e["idx"]] = e["excess"]
            tr.append(f"{e['idx']}:{'H' if e['h'] == hi else 'L'}")
        import searchlib

        line = searchlib.model_line_b1d(counts, elo, ehi, cap, cont, 15, lo, hi)
        real = ("selected " + str(rec["sel_key"])) if rec["outcome"] == "design" else rec["outcome"]
        return {"line": line, "real": real, "trace": " ".join(tr), "kind": "b1d"}
    if kind in ("BIRECTANGLE", "BIRECTANGLECONSTRAINED", "BIZONEDRECTANGLE"):
        zd = kind != "BIRECTANGLE"      # design.py: only the plain bi-rectangle uses Bisection2D
        nc = rec["nested_counts"]
        if not nc or any(len(x) == 0 for x in nc):
            return None
        elo = [[SENT] * len(x) for x in nc]
        ehi = [[SENT] * len(x) for x in nc]
        tr = []
        last_list = None
        for e in ev:
            if e["where"] == "outer":
                if e["idx"] is None or e["idx"] > len(nc):
                    return None
                l, i = (0, 0) if e["idx"] == 0 else (e["idx"] - 1, len(nc[e["idx"] - 1]) - 1)
            elif e["where"] == "inner":
                l, i = e["list"], e["idx"]
                last_list = l
            else:
                return None
            (ehi if e["h"] == hi else elo)[l][i] = e["excess"]
            tr.append(f"{l}.{i}:{'H' if e['h'] == hi else 'L'}")
        import searchlib

        if zd:
            sz = [[0.0] * len(x) for x in nc]
            for l, tot in rec.get("zd_heights", {}).items():
                k = rec.get("zd_selected_keys", {}).get(l)
                if k is not None:
                    sz[int(l)][k] = tot / nc[int(l)][k]
            line = searchlib.model_line_bzd(nc, elo, ehi, sz, cap, cont, 15, lo, hi)
            sel_l = None
            if rec["outcome"] == "design" and rec.get("zd_heights"):
                tots = rec["zd_heights"]
                sel_l = min(tots, key=lambda k: (tots[k], list(tots).index(k)))
            real = f"selected {sel_l} {rec['sel_key']}" if rec["outcome"] == "design" else rec["outcome"]
            return {"line": line, "real": real, "trace": " ".join(tr), "kind": "bzd"}
        line = searchlib.model_line_b2d(nc, elo, ehi, cap, cont, 15, lo, hi)
        real = f"selected {last_list} {rec['sel_key']}" if rec["outcome"] == "design" else rec["outcome"]
        return {"line": line, "real": real, "trace": " ".join(tr), "kind": "b2d"}
    if kind == "ROWWISE":
        rows = rec.get("rw_tracking")
        if rows is None:      # the search raised: advanced_tracking is not available
            return None
        geom = cfg["geom"]
        stop, start, step = geom[2], geom[3], geom[4]      # max_spacing, min_spacing, spacing_step
        # the last row repeats the selection, except on the early return of the unmet-but-continued branch
        body = rows[:-1] if len(rows) > 2 else rows
        table, esub, tr = {}, {}, []
        e1 = SENT
        sp_rows = [r for r in body if isinstance(r[0], float)]
        sub_rows = [r for r in body if isinstance(r[0], float) and False]
        # classify rows: removal-branch rows carry the spacing `stop` and a spec ending in _<n>
        i = 0
        sizes = [s[1] for s in rec.get("sizes", [])]
        n_sweep = 0
        seq = []
        for r in body:
            if r[0] == "N/A":
                e1 = r[3]
                seq.append(("one",))
            elif isinstance(r[1], str) and r[1].rsplit("_", 1)[-1].isdigit() and r[1].count("_") >= 3 and i >= 3:
                seq.append(("sub", int(r[2]), r[3]))
            else:
                seq.append(("sp", r[0], int(r[2]), r[3]))
            i += 1
        sp_idx = [j for j, s in enumerate(seq) if s[0] == "sp"]
        has_sweep = not any(s[0] in ("one", "sub") for s in seq) and len(sp_idx) > 2 and len(sizes) >= 2
        # the exhaustive sweep after the bisection: `current_spacing += spacing_change` from spacing_high while
        # current_spacing <= spacing_high + step — 11 targets in exact arithmetic, 10 when the float accumulation
        # overshoots the end; recognised by replaying that accumulation on the candidate start row
        sweep_idx = []
        if has_sweep:
            for n_sw in (11, 10):
                if len(sp_idx) < 2 + n_sw:
                    continue
                cand = sp_idx[-n_sw:]
                cur = seq[cand[0]][1]
                end = step + cur
                ch = (end - cur) / 10
                targets = []
                while cur <= end and len(targets) <= 12:
                    targets.append(cur)
                    cur += ch
                if len(targets) == n_sw and all(t == seq[j][1] for t, j in zip(targets, cand)):
                    sweep_idx = cand
                    break
            if not sweep_idx:
                sweep_idx = sp_idx[-11:] if len(sp_idx) >= 13 else (sp_idx[-10:] if len(sp_idx) >= 12 else [])
        hi_sp = Fraction(seq[sweep_idx[0]][1]) if sweep_idx else None
        for j, s in enumerate(seq):
            if s[0] == "one":
                tr.append("one")
            elif s[0] == "sub":
                esub[s[1]] = s[2]
                tr.append(f"sub{s[1]}")
            else:
                if j in sweep_idx:
                    k = sweep_idx.index(j)
                    key = hi_sp + k * Fraction(step) / 10
                    szv = sizes[k] if k < len(sizes) else 0.0
                else:
                    key = Fraction(s[1])
                    szv = 0.0
                table[key] = (s[2], s[3], szv)
                tr.append(f"s{key.numerator}/{key.denominator}")
        nsub = max(esub) if esub else 0
        esub_l = [esub.get(n, SENT) for n in range(1, nsub + 1)]
        # max_iter 10; the number of sweep targets after spacing_high is what the run's float accumulation gave (10, or 9)
        parts = ["rw", core.rs(start), core.rs(stop), core.rs(step), "1" if cont else "0", f"10:{max(len(sweep_idx) - 1, 0) if sweep_idx else 10}", core.rs(e1), str(len(table))]
        for key, (nb, e, szv) in table.items():
            parts += [f"{key.numerator}/{key.denominator}", str(nb), core.rs(e), core.rs(szv)]
        parts += [str(len(esub_l))] + [core.rs(v) for v in esub_l]
        real = "selected" if rec["outcome"] == "design" else rec["outcome"]
        return {"line": " ".join(parts), "real": real, "trace": " ".join(tr), "kind": "rw", "nbh": rec.get("nbh"), "n_sweep": len(sweep_idx)}
    return None


def compare_replay(rp, model_out):
    """-> (agree: bool, detail).  Outcome kind, selection (index) and evaluation trace must agree."""
    mo, _, mt = model_out.partition(" | ")
    mo, mt = mo.strip(), mt.strip()
    kind = rp["kind"]
    if kind == "b1d":
        msel = " ".join(mo.split()[:2]) if mo.startswith("selected") else mo
        ok = (msel == rp["real"] or (mo.startswith("raise") and rp["real"] == mo)) and mt == rp["trace"]
    elif kind in ("b2d", "bzd"):
        msel = " ".join(mo.split()[:3]) if mo.startswith("selected") else mo
        ok = msel == rp["real"] and mt == rp["trace"]
    else:
        ok = (mo.split()[0] == rp["real"].split()[0]) and mt == rp["trace"]
    return ok, {"model": model_out, "real": rp["real"], "real_trace": rp["trace"]}


# ----------------------------------------------------------------------------- classification helpers
def classify_pre(t0l, t0u, tm1):
    """The five-way branch of Bisection1D.search, written from the property text (not from the code)."""
    if t0l == 0 or t0u == 0:
        return "zero"
    if (t0l < 0 < t0u) or (t0u < 0 < t0l):
        return "bracket0"
    if tm1 == 0:
        return "zero"
    if (t0u < 0 < tm1) or (tm1 < 0 < t0u):
        return "bisect"
    if t0l < 0:
        return "tooSmall"
    if tm1 > 0:
        return "tooBig"
    return "bisect"


def final_search_evals(rec):
    """The evaluations of the last 1D search of the run (the one whose selection is returned)."""
    ev = rec.get("evals", [])
    kind = rec["cfg"]["geom"][0]
    if kind in ("NEARSQUARE", "RECTANGLE"):
        return ev
    if kind == "ROWWISE":
        return ev
    inner = [e for e in ev if e["where"] == "inner"]
    if not inner:
        return []
    if kind == "BIRECTANGLE":
        l = inner[-1]["list"]
        return [e for e in inner if e["list"] == l]
    # ZD: the chosen list = least total drilling
    tots = rec.get("zd_heights") or {}
    if not tots:
        return []
    l = int(min(tots, key=lambda k: (tots[k], list(tots).index(k))))
    return [e for e in inner if e["list"] == l]


def is_escape(rec):
    """True when the returned design is a continue_if_design_unmet fallback (decided from the recorded
    excess values with classify_pre, independently of the implementation's control flow)."""
    cfg = rec["cfg"]
    if not cfg.get("cont"):
        return False
    ev = final_search_evals(rec)
    if cfg["geom"][0] == "ROWWISE":
        return len(ev) >= 2 and ev[0]["excess"] > 0 and ev[1]["excess"] > 0
    if len(ev) < 3:
        return False
    return classify_pre(ev[0]["excess"], ev[1]["excess"], ev[2]["excess"]) in ("tooSmall", "tooBig")


def excess_of(cfg, mx, mn):
    return max(mx - cfg["max_eft"], cfg["min_eft"] - mn)
