"""C02 — Height bounds, borehole cap and the unmet-design policy are honoured.

Proof (lean/GHEVerif/Props/C02.lean): selected_le_upper, cap_respected (1D, 2D, ZD), unmet_too_large /
unmet_too_small (ValueError unless the flag, then largest@max / smallest@min), else_pass_unreachable,
only_value_error / exception_kinds / cap_too_small_value_error, height_in_window.
Tie to the code: (i) the real search classes driven with synthetic excess tables at the boundaries
(caps at/around candidate counts, both flag values, all-fail / all-pass tables), (ii) recorded real
design runs replayed on the model, (iii) real RowWise searches with a synthetic field generator.
"""
from __future__ import annotations

import core
import designlib
import ghelib
import searchlib

PROPERTY = "C02"
LEVEL = "proof"
MANIFEST = {
    "text": "Lean theorems for every candidate list / excess function / cap / flag: the selection never lies above the cap index; unmet designs end in ValueError or the documented fallback; no exception type other than ValueError on non-degenerate input; solve_root stays in the height window, and so does the height GHEManager.find_design ends with, for every design method and outcome (find_design_height_in_window, over the regenerated statement list). Model tied to the real search classes (synthetic oracles, boundary-targeted), to recorded real runs (incl. re-used and re-configured managers, windows converted from feet) and to the file-driven entry point.",
    "note": "thermal simulation = arbitrary oracle; scipy brentq stays inside its bracket (checked on every run); numpy's own ValueError in RowWise point_sort counts as ValueError (recorded as an observation in DESIGN.md)",
    "technique": "Lean 4 proof about the search model + correspondence with the real classes on synthetic oracles and recorded real runs",
    "design_ref": "DESIGN.md §3 C02",
}


def _real(c):
    kind, a = c
    if kind == "b1d":
        return searchlib.real_b1d(*a)[:2]
    if kind == "b2d":
        return searchlib.real_b2d(*a)
    if kind == "bzd":
        return searchlib.real_bzd(*a)
    raise ValueError(kind)


def _rw(c):
    start, stop, step, cont, mi, e1, seedspec, esub, per = c
    oracle = searchlib.rw_oracle(*seedspec)
    out, tr, table = searchlib.real_rw(start, stop, step, cont, mi, e1, oracle, esub, perimeter=per)
    return out, tr, searchlib.model_line_rw(start, stop, step, cont, mi, e1, table, esub), {k: v for k, v in list(table.items())[:3]}


def boundary_cases(rng, n):
    """1D tables at the policy boundaries: all fail / all pass / threshold at an end, caps at, just
    below and just above candidate counts, both flag values."""
    out = []
    for _ in range(n):
        m = rng.randint(1, 12)
        counts = sorted(rng.sample(range(1, 60), m))
        mode = rng.choice(["allfail", "allpass", "thr", "thr", "nonmono"])
        if mode == "allfail":
            ehi = [rng.uniform(0.1, 5) for _ in range(m)]
        elif mode == "allpass":
            ehi = [-rng.uniform(0.1, 5) for _ in range(m)]
        elif mode == "thr":
            th = rng.randint(0, m)
            ehi = [(1 + 0.01 * i) if i < th else -(1 + 0.013 * i) for i in range(m)]
        else:
            ehi = [rng.choice([-1, 1]) * (1 + 0.01 * i) for i in range(m)]
        elo = [v + rng.choice([0.0, 3.0, -3.0]) for v in ehi]
        elo = [v if v != 0 else 0.5 for v in elo]
        if rng.random() < 0.15:      # a rounding error away from the limit: only the sign may matter
            sc = rng.choice([1e-7, 5e-7, 1e-10])
            ehi, elo = [v * sc for v in ehi], [v * sc for v in elo]
        c = rng.choice(counts)
        cap = rng.choice([None, 2, c, c + 1, max(2, c - 1), 10 ** 6, counts[0], counts[0] + 1])
        out.append(("b1d", (counts, elo, ehi, cap, rng.random() < 0.5, 15)))
    return out


def independent_counts(geom):
    """Borehole counts of the candidate domain for a near-square / rectangle geometry, from the domain generators called directly."""
    import math

    from ghedesigner import domains as D

    with ghelib.quiet():
        if geom[0] == "NEARSQUARE":
            n = math.floor(geom[2] / geom[1]) + 1
            return [len(f) for f in D.square_and_near_square(1, int(n), geom[1])[0]]
        if geom[0] == "RECTANGLE":
            return [len(f) for f in D.rectangular(geom[1], geom[2], geom[3], geom[4])[0]]
    return []


def cli_worker_job(job):
    """The file-driven entry (`_run_manager_from_cli_worker`) on an input file written by the tool itself:
    how does a run whose design cannot be met end?  Returns (outcome, detail)."""
    import os
    import shutil
    import tempfile
    from pathlib import Path

    os.environ["OMP_NUM_THREADS"] = "1"
    kind, cfg = job
    d = Path(tempfile.mkdtemp(prefix="c02_"))
    try:
        from ghedesigner.manager import _run_manager_from_cli_worker
        with ghelib.quiet():
            m = ghelib.build_manager(cfg)
            inp = d / "in.json"
            m.write_input_file(inp)
            if cfg.get("explicit_false"):
                import json as _json
                j = _json.loads(inp.read_text())
                j["design"]["continue_if_design_unmet"] = False
                inp.write_text(_json.dumps(j, indent=2))
            try:
                rc = _run_manager_from_cli_worker(inp, d / "out")
                files = sorted(p.name for p in (d / "out").iterdir()) if (d / "out").exists() else []
                return ("returned", {"rc": rc, "files": files})
            except BaseException as e:  # noqa: BLE001  (SystemExit included)
                return ("ValueError" if isinstance(e, ValueError) else "raise " + type(e).__name__, {"message": str(e)[:200]})
    except Exception as e:  # noqa: BLE001
        return ("harness-error", {"message": f"{type(e).__name__}: {e}"[:300]})
    finally:
        shutil.rmtree(d, ignore_errors=True)


def cli_jobs(rng):
    phys = ghelib.default_physics()
    base = {"phys": phys, "pipe": "SINGLEUTUBE", "months": 12, "max_eft": 35.0, "min_eft": 5.0, "max_h": 135.0, "min_h": 60.0,
            "flow": phys["flow"], "geom": ("NEARSQUARE", 6.0, 20.0 + rng.randrange(0, 10))}
    big = [x * 8.0 for x in ghelib.atlanta_loads()]
    ok = [x * 0.05 for x in ghelib.atlanta_loads()]
    return [("unmet-no-flag", {**base, "loads": big, "cont": False}), ("unmet-flag", {**base, "loads": big, "cont": True}), ("met", {**base, "loads": ok, "cont": False}),
            # the documented default written out explicitly in the file ("continue_if_design_unmet": false)
            ("unmet-explicit-false", {**base, "loads": big, "cont": False, "explicit_false": True})]


def run(ctx: core.Ctx):
    ctx.rule = ("(i) real Bisection1D/2D/ZD with boundary-targeted synthetic tables (all-fail, all-pass, threshold at either end, non-monotone; cap in "
                "{none, 2, count, count±1, smallest count, huge}; both flag values); (ii) real RowWiseModifiedBisectionSearch.search with a synthetic field "
                "generator (monotone and wiggly excess, removal branch thresholds); (iii) recorded real design runs; distinct = distinct table/config; "
                "non-trivial = outcome other than the bracket0 early exit")
    ctx.trusted_base += [
        "translator (sign, check_bracket from utilities.py)",
        "hand-written Model/Search.lean (bisect1D, bisect2D, bisectZD, rowwiseSearch, solveRoot) tied to the real classes by differential runs",
    ]
    ctx.lean_prepare()
    rng = ctx.rng
    quick = ctx.tier == "quick"
    # ---------------- (i) synthetic boundary tables on the real classes
    cases = boundary_cases(rng, 2500 if quick else 25000) + searchlib.nested_cases(rng, 500 if quick else 5000)
    real = core.pool_map(_real, cases, chunksize=64)
    import c05

    model = ctx.driver([c05._model_line(c) for c in cases])
    for idx, (c, r) in enumerate(zip(cases, real)):
        kind, a = c
        out_r, tr_r = r
        if model is not None:
            mo, path, mt = searchlib.split_model(model[idx])
            ctx.count(f"{kind}:{mo.split()[0] if not mo.startswith('selected') else 'selected:' + str(path)}")
            if mo != out_r or mt != tr_r:
                ctx.disagreements_checked += 1
                if "search-model-correspondence" not in ctx.broken:
                    ctx.broken.append("search-model-correspondence")
                    ctx.extra["first_disagreement"] = {"case": c, "real": r, "model": model[idx]}
        ctx.case((kind, repr(a)), not out_r.endswith("bracket0"), {"kind": kind, "args": a, "real": r} if idx in (1, 2600) else None)
        if kind == "b1d":
            searchlib.check_b1d_exchanger(ctx, a, out_r)
            check_policy_1d(ctx, a, out_r, tr_r)
        else:
            searchlib.check_nested_predicate(ctx, kind, a, out_r, tr_r)
    # ---------------- (ii) RowWise search on a synthetic generator
    rwc = []
    for _ in range(600 if quick else 6000):
        start, stop, step, cont, mi, e1, seedspec, esub = searchlib.rw_case_spec(rng)
        rwc.append((start, stop, step, cont, mi, e1, seedspec, esub, None if rng.random() < 0.5 else 0.8))
    rres = core.pool_map(_rw, rwc, chunksize=32)
    mres = ctx.driver([r[2] for r in rres])
    for c, r, m in zip(rwc, rres, mres or []):
        out_r, tr_r = r[0], r[1]
        mo, _, mt = m.partition(" | ")
        ctx.count("rw:" + " ".join(out_r.split()[:1]) + ("" if not out_r.startswith("selected") else ":" + out_r.split()[1][:3]))
        ctx.case(("rw", repr(c[:6]), repr(c[6])), True, {"kind": "rw", "cfg": c[:6], "real": out_r, "trace": tr_r} if len(ctx.samples) < 4 else None)
        if mo.strip() != out_r or mt.strip() != tr_r:
            ctx.disagreements_checked += 1
            if "rowwise-search-correspondence" not in ctx.broken:
                ctx.broken.append("rowwise-search-correspondence")
                ctx.extra["first_rw_disagreement"] = {"cfg": c[:6], "real": r[:2], "model": m}
        if not (out_r.startswith("selected") or out_r == "ValueError"):
            ctx.finding("rowwise-exception-type", f"RowWise search ended with {out_r}", {"cfg": c, "trace": tr_r})
    # ---------------- (iii) recorded real runs
    cfgs, recs, cached = designlib.get_runs(ctx)
    rps = [designlib.replay_line(r) for r in recs]
    idxs = [i for i, r in enumerate(rps) if r]
    outs = ctx.driver([rps[i]["line"] for i in idxs]) if idxs else []
    for i, o in zip(idxs, outs or []):
        ok, detail = designlib.compare_replay(rps[i], o)
        ctx.programs += 1
        if not ok:
            ctx.disagreements_checked += 1
            if "search-replay-correspondence" not in ctx.broken:
                ctx.broken.append("search-replay-correspondence")
                ctx.extra["first_replay_disagreement"] = {"id": recs[i]["id"], **detail}
    for cfg, r in zip(cfgs, recs):
        if r["outcome"] == "harness-error":
            ctx.infra(f"run {r['id']}: {r.get('message')}")
            continue
        g = cfg["geom"][0]
        ctx.count(f"real:{g}:{r['outcome'].split()[0]}")
        ctx.case(("real", r["id"], r["loads_sha"]), True)
        rep = {"cfg": r["cfg"], "profile": cfg["profile"], "scale": cfg["scale"], "outcome": r["outcome"], "message": r.get("message"), "tb": r.get("tb")}
        if r["outcome"].startswith("raise"):
            ctx.finding(f"exception-type-{r['outcome'].split()[1]}-{g}", f"{g} run ended with {r['outcome']}: {r.get('message')}", rep)
            continue
        if r["outcome"] == "design":
            if not (cfg["min_h"] - 1e-9 <= r["H"] <= cfg["max_h"] + 1e-9):
                ctx.finding("height-outside-window", f"{g}: returned height {r['H']} outside [{cfg['min_h']}, {cfg['max_h']}]", rep)
            cap = cfg.get("max_boreholes")
            if cap is not None and g != "ROWWISE" and r["nbh"] > cap:
                ctx.finding("cap-exceeded", f"{g}: {r['nbh']} boreholes with max_boreholes={cap}", rep)
            for root in r.get("roots", []):
                if not (root["lower"] <= root["result"] <= root["upper"]):
                    ctx.finding("solve-root-outside-window", f"solve_root returned {root['result']} outside its bracket", rep)
        # unmet policy on the flat searches, decided from the recorded excess values
        if g in ("NEARSQUARE", "RECTANGLE") and len(r.get("evals", [])) >= 3:
            ev = r["evals"]
            cls = designlib.classify_pre(ev[0]["excess"], ev[1]["excess"], ev[2]["excess"])
            if cls in ("tooBig", "tooSmall"):
                ctx.count("real-unmet:" + cls + (":cont" if cfg["cont"] else ":fail"))
                if not cfg["cont"] and r["outcome"] != "ValueError":
                    ctx.finding("unmet-not-an-error", f"{g}: unmet design ({cls}) without the flag ended with {r['outcome']}", rep)
                if cfg["cont"]:
                    want_n = ev[2]["nbh"] if cls == "tooBig" else ev[0]["nbh"]
                    if cls == "tooBig":
                        # the largest ALLOWED candidate of the domain the user's geometry defines (built here, not read from the design)
                        indep = independent_counts(cfg["geom"])
                        cap = cfg.get("max_boreholes")
                        # (the cap is STRICT in the tool: a field needs fewer than max_boreholes holes — Bisection1D.search, `x < max_boreholes`;
                        # "never exceeds" holds a fortiori; recorded as an observation in DESIGN.md §8)
                        allowed = [c for c in indep if cap is None or c < cap]
                        if allowed:
                            want_n = max(allowed)
                    want_h = cfg["max_h"] if cls == "tooBig" else cfg["min_h"]
                    if r["outcome"] != "design" or r["nbh"] != want_n or abs(r["H"] - want_h) > 1e-9:
                        ctx.finding("unmet-fallback-wrong", f"{g}: unmet ({cls}) with the flag returned {r.get('nbh')} x {r.get('H')}, expected {want_n} x {want_h}", rep)
        # the same policy for the nested rectangular-family searches, decided from the outer search's first
        # three evaluations (smallest field at min and max height, largest outer field at max height)
        if g in ("BIRECTANGLE", "BIZONEDRECTANGLE", "BIRECTANGLECONSTRAINED") and len(r.get("evals", [])) >= 3:
            ev = r["evals"]
            if [e["where"] for e in ev[:3]] == ["outer"] * 3 or g != "BIRECTANGLE":
                cls = designlib.classify_pre(ev[0]["excess"], ev[1]["excess"], ev[2]["excess"])
                if cls == "tooSmall" and g == "BIRECTANGLE":
                    ctx.count("real-unmet-nested:tooSmall" + (":cont" if cfg["cont"] else ":fail"))
                    if not cfg["cont"] and r["outcome"] != "ValueError":
                        ctx.finding("unmet-not-an-error", f"{g}: unmet design (tooSmall) without the flag ended with {r['outcome']}", rep)
                    if cfg["cont"] and (r["outcome"] != "design" or r["nbh"] != ev[0]["nbh"] or abs(r["H"] - cfg["min_h"]) > 1e-9):
                        ctx.finding("unmet-fallback-wrong", f"{g}: loads too small with the flag: returned {r['outcome']} {r.get('nbh')} x {r.get('H')}, expected the smallest candidate ({ev[0]['nbh']} borehole) at the minimum height {cfg['min_h']}", rep)
    # ---------------- (iii-a) utilities.solve_root on arbitrary end values (falling AND rising objectives): window and clamp
    for kind, args in searchlib.root_cases(rng, 300 if quick else 3000):
        out_r = searchlib.real_solve_root(*args)[0]
        ctx.case(("root", repr(args)), True)
        ctx.count("solve_root:" + str(out_r[0]).split()[0])
        searchlib.check_root_predicate(ctx, args, out_r)
    # ---------------- (iii-b) the file-driven entry point on unmet and met designs
    jobs = cli_jobs(rng)
    for (kind, cfg), (outc, det) in zip(jobs, core.pool_map(cli_worker_job, jobs)):
        ctx.case(("cli-worker", kind, cfg["geom"][2]), True, {"cli_worker": kind, "outcome": outc})
        ctx.count(f"cli-worker:{kind}:{outc.split()[0]}")
        rep = {"entry": "_run_manager_from_cli_worker on the file written by write_input_file", "kind": kind, "geom": cfg["geom"], "loads": "atlanta x " + ("8" if kind.startswith("unmet") else "0.05"),
               "continue_if_design_unmet": cfg["cont"], "outcome": outc, **det}
        if outc == "harness-error":
            ctx.infra(f"cli-worker {kind}: {det}")
        elif outc.startswith("raise"):
            ctx.finding(f"cli-exception-type-{outc.split()[1]}", f"file-driven run ({kind}) ended with {outc}: {det.get('message')}", rep)
        elif kind in ("unmet-no-flag", "unmet-explicit-false") and outc != "ValueError":
            ctx.finding("cli-unmet-not-an-error", f"file-driven run with loads too large and no continue flag {outc} {det} instead of ending with the search's ValueError", rep)
        elif kind not in ("unmet-no-flag", "unmet-explicit-false") and outc != "returned":
            ctx.finding("cli-design-run-failed", f"file-driven run ({kind}) ended with {outc}: {det.get('message')}", rep)
    # ---------------- (iv) a second project on the SAME manager (only loads and geometry re-applied)
    by_id = {r["id"]: (c, r) for c, r in zip(cfgs, recs)}
    for cfg, r in zip(cfgs, recs):
        sec = r.get("second")
        if not sec:
            continue
        cb, rb = by_id.get(sec["id"], (None, None))
        if cb is None:
            continue
        g = cb["geom"][0]
        ctx.count(f"history:{sec['outcome'].split()[0]}")
        ctx.case(("history", r["id"], sec["id"]), True, {"first": r["id"], "second": sec["id"], "geom": g, "outcome": sec["outcome"], "nbh": sec.get("nbh"), "H": sec.get("H")} if len(ctx.samples) < 6 else None)
        rep = {"first_project": r["cfg"], "first_outcome": r["outcome"], "second_project": rb["cfg"], "second_on_same_manager": sec, "second_on_fresh_manager": {k: rb.get(k) for k in ("outcome", "nbh", "H", "message")}}
        if sec["outcome"] == "harness-error":
            ctx.infra(f"history {r['id']}->{sec['id']}: {sec.get('message')}")
            continue
        if sec["outcome"].startswith("raise"):
            ctx.finding(f"history-exception-type-{sec['outcome'].split()[1]}-{g}", f"second project on a reused manager ({g}) ended with {sec['outcome']}: {sec.get('message')}", rep)
            continue
        if sec["outcome"] == "design":
            if not (cb["min_h"] - 1e-9 <= sec["H"] <= cb["max_h"] + 1e-9):
                ctx.finding("history-height-outside-window", f"{g}: second project on a reused manager returned height {sec['H']} outside [{cb['min_h']}, {cb['max_h']}]", rep)
            cap = cb.get("max_boreholes")
            if cap is not None and g != "ROWWISE" and sec["nbh"] > cap:
                ctx.finding("history-cap-exceeded", f"{g}: second project on a reused manager returned {sec['nbh']} boreholes with max_boreholes={cap}", rep)
        if sec.get("max_boreholes_after", cb.get("max_boreholes")) != cb.get("max_boreholes"):
            ctx.finding("history-cap-parameter-changed", f"{g}: the manager's max_boreholes is {sec.get('max_boreholes_after')} after the run, the user set {cb.get('max_boreholes')}", rep)
        same = sec["outcome"] == rb["outcome"] and (sec["outcome"] != "design" or (sec["nbh"] == rb["nbh"] and sec["H"] == rb["H"]))
        if not same and rb["outcome"] != "harness-error":
            ctx.finding("history-differs-from-fresh-manager", f"{g}: second project on a reused manager gave {sec['outcome']} {sec.get('nbh')} x {sec.get('H')}, a fresh manager with the same configuration gives {rb['outcome']} {rb.get('nbh')} x {rb.get('H')}", rep)
    if ctx.tier == "thorough":
        ctx.leanchecker(["GHEVerif.Props.C02", "GHEVerif.Lemmas.Pipeline"])


def check_policy_1d(ctx, a, out_r, tr_r):
    counts, elo, ehi, cap, cont, mi = a
    n = len(counts)
    below = [i for i in range(n) if cap is None or counts[i] < cap]
    rep = {"counts": counts, "elo": elo, "ehi": ehi, "cap": cap, "cont": cont, "max_iter": mi, "real": out_r, "trace": tr_r}
    if not below:
        if out_r != "ValueError":
            ctx.finding("cap-below-smallest-not-valueerror", f"no candidate below cap {cap}: {out_r}", rep)
        return
    xr = below[-1]
    if out_r.startswith("raise"):
        if not (out_r == "raise ZeroDivisionError" and any(v == 0 for v in (elo[0], ehi[0], ehi[xr]) + tuple(ehi))):
            ctx.finding("b1d-exception-type", f"Bisection1D.search ended with {out_r}", rep)
        return
    cls = designlib.classify_pre(elo[0], ehi[0], ehi[xr])
    if out_r.startswith("selected"):
        _, k, hl = out_r.split()
        k = int(k)
        if cap is not None and sorted(counts) == counts and counts[k] >= cap:
            ctx.finding("b1d-cap", f"selected field with {counts[k]} boreholes, cap {cap}", rep)
    if cls == "tooBig":
        want = f"selected {xr} H" if cont else "ValueError"
        if out_r != want:
            ctx.finding("b1d-unmet-too-large", f"all candidates fail: got {out_r}, policy says {want}", rep)
    elif cls == "tooSmall":
        want = "selected 0 L" if cont else "ValueError"
        if out_r != want:
            ctx.finding("b1d-unmet-too-small", f"smallest field over-satisfies at min height: got {out_r}, policy says {want}", rep)
