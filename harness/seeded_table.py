"""Print the markdown table of seeded changes (DESIGN.md §12) from seeded/*/meta.json."""
import json
from pathlib import Path

root = Path(__file__).resolve().parent.parent / "seeded"
print("| seeded change | property | what it does | needs | checks run → result |")
print("|---|---|---|---|---|")
for d in sorted(root.iterdir()):
    m = json.loads((d / "meta.json").read_text())
    ev = m.get("evaluation", {})
    res = []
    for c, v in ev.get("checks", {}).items():
        first = next((l.strip() for l in v.get("first_lines", []) if ":" in l and not l.startswith("VIOLATION")), "")
        tag = "caught" if v.get("exit") == 1 else ("MISSED" if v.get("exit") == 0 else f"exit {v.get('exit')}")
        res.append(f"{c}: **{tag}**" + (f" (`{first[:110]}`)" if first and tag == "caught" else ""))
    if d.name.startswith("harmless"):
        he = m.get("harmless_evaluation", {})
        res = [("checks " + ", ".join(he.get("checks", [])) + ": " + ("**no alarm**" if not he.get("alarms") else "alarm (`translator-unsupported … no-failing-input-found`) in " + ", ".join(sorted(he["alarms"])))) if he else "not evaluated"]
        m = {**m, "property": "(harmless)", "needs": m.get("why_harmless", "")}
    if m.get("scope_note"):
        res.append("scope: " + m["scope_note"])
    clean = lambda s: " ".join(str(s).split()).replace("|", "/")  # noqa: E731
    print(f"| `seeded/{d.name}` | {m.get('property')} | {clean(m.get('summary', ''))[:260]} | {clean(m.get('needs', ''))[:200]} | {'; '.join(res)} |")


def into_design():
    import io, contextlib, runpy
    buf = io.StringIO()
    with contextlib.redirect_stdout(buf):
        runpy.run_path(__file__, run_name="table")
    d = Path(__file__).resolve().parent.parent / "DESIGN.md"
    t = d.read_text()
    a, b = t.index("<!-- SEEDED-TABLE-BEGIN -->"), t.index("<!-- SEEDED-TABLE-END -->")
    d.write_text(t[:a] + "<!-- SEEDED-TABLE-BEGIN -->\n" + buf.getvalue() + t[b:])


if __name__ == "__main__":
    import sys
    if "--design" in sys.argv:
        into_design()
