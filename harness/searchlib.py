"""Drive the REAL search classes of ghedesigner.search_routines with a synthetic excess table
(no thermal simulation: microseconds per search) and format what they do in the line protocol of
lean/GHEVerif/Model/Search.lean, so that the two can be diffed.

`Bisection1D.__new__` + patched `calculate_excess` / `initialize_ghe`: the search code itself
(`search`, `search_successive`, the constructors' glue for 2D/ZD) is the unmodified implementation.
"""
from __future__ import annotations

import types

import core
import ghelib  # noqa: F401  (puts the repo on sys.path)


def exc_name(e: BaseException) -> str:
    if isinstance(e, ValueError):
        return "ValueError"
    return "raise " + type(e).__name__


def real_b1d(counts, elo, ehi, cap, cont, max_iter, min_h=60.0, max_h=135.0):
    """Run the real Bisection1D.search on candidate fields with `counts[i]` boreholes whose excess
    is elo[i] at min height and ehi[i] at max height.  Returns (outcome_string, trace_string, log)."""
    from ghedesigner.search_routines import Bisection1D

    b = Bisection1D.__new__(Bisection1D)
    n = len(counts)
    fields = [[(float(k), float(j)) for j in range(counts[k])] for k in range(n)]
    b.coordinates_domain = fields
    b.fieldDescriptors = [f"f{k}" for k in range(n)]
    b.sim_params = types.SimpleNamespace(max_boreholes=cap, min_height=min_h, max_height=max_h, continue_if_design_unmet=cont)
    b.disp = False
    b.max_iter = max_iter
    b.calculated_temperatures = {}
    b.searchTracker = []
    trace = []
    last_init = [None]

    def idx_of(coords):
        for i, c in enumerate(fields):
            if c is coords:
                return i
        raise AssertionError("unknown field object")

    def ce(coords, h, field_specifier="N/A"):
        k = idx_of(coords)
        trace.append((k, h))
        last_init[0] = (k, h)
        v = ehi[k] if h == max_h else elo[k]
        b.searchTracker.append([field_specifier, v])
        return v

    def init(coords, h, field_specifier="N/A"):
        last_init[0] = (idx_of(coords), h)

    b.calculate_excess = ce
    b.initialize_ghe = init
    try:
        with ghelib.quiet():
            key, coords = b.search()
        k, h = last_init[0]
        assert fields[key] is coords and k == key, (key, k)
        out = f"selected {key} {'H' if h == max_h else 'L'}"
    except AssertionError:
        raise
    except Exception as e:  # noqa: BLE001
        out = exc_name(e)
    trs = " ".join(f"{i}:{'H' if h == max_h else 'L'}" for i, h in trace)
    return out, trs, dict(b.calculated_temperatures)


def model_line_b1d(counts, elo, ehi, cap, cont, max_iter, min_h=60.0, max_h=135.0):
    n = len(counts)
    parts = ["b1d", "-" if cap is None else str(cap), "1" if cont else "0", str(max_iter), core.rs(min_h), core.rs(max_h), str(n)]
    parts += [str(c) for c in counts] + [core.rs(v) for v in elo] + [core.rs(v) for v in ehi]
    return " ".join(parts)


def split_model(ans: str):
    """'selected 3 H bisection | 0:L 0:H …' -> ('selected 3 H', 'bisection', trace)"""
    o, _, tr = ans.partition(" | ")
    toks = o.split()
    if toks and toks[0] == "selected":
        return " ".join(toks[:3]), toks[3], tr.strip()
    return o.strip(), None, tr.strip()
